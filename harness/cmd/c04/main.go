// C04 harness: writers, searchers, long-lived readers, the persister, the merger and forced
// merges run concurrently on one index, with seeded delays injected at the verif hook points.
// Every observation is taken from ONE snapshot and sent to the Coq checker (whole batches only,
// never older than what had been acknowledged, never going backwards per client); long-lived
// readers must answer identically at the end of their life; the scorch event trace must be
// accepted by the Coq model.
package main

import (
	"fmt"
	"os"
	"strconv"
	"sync"
	"sync/atomic"
	"time"

	"github.com/blevesearch/bleve/v2"
	"github.com/blevesearch/bleve/v2/index/scorch"
	index "github.com/blevesearch/bleve_index_api"

	cf "verifharness/internal/coqfmt"
	"verifharness/internal/strace"
	"verifharness/internal/sw"
	"verifharness/internal/vh"
	"verifharness/internal/vrand"
)

type In struct {
	Layout    sw.Layout `json:"layout"`
	Writers   int       `json:"writers"`
	Family    int       `json:"family"` // documents per writer
	Batches   int       `json:"batches"`
	Searchers int       `json:"searchers"`
	Holders   int       `json:"holders"`
	Merges    int       `json:"merges"`
	DelaySeed uint64    `json:"delay_seed"`
	DelayUS   int       `json:"delay_us"`
}

func gen(f vh.Flags, r *vrand.R, emit func(In)) {
	n := f.N(15, 400)
	for k := 0; k < n; k++ {
		in := In{Writers: r.Range(2, 3), Family: r.Range(2, 3), Batches: r.Range(8, 25), Searchers: r.Range(1, 3),
			Holders: r.Range(1, 2), Merges: r.Range(2, 10), DelaySeed: r.U64(), DelayUS: vrand.Pick(r, []int{50, 300, 1500})}
		switch k % 5 {
		case 4:
			in.Layout = sw.Layout{Config: vrand.Pick(r, []string{"udc-gtreap", "udc-moss", "udc-boltdb"})}
			if in.Layout.Config == "udc-boltdb" {
				in.Holders = 0 // a held bolt read transaction blocks writers that need to grow the file (bbolt behaviour)
			}
		case 3:
			in.Layout = sw.Layout{Config: "scorch-mem"}
		default:
			in.Layout = sw.Layout{Config: "scorch-disk", Opts: r.Intn(5), Unsafe: r.Chance(1, 3)}
		}
		emit(in)
	}
}

type obsRec struct {
	client    int
	acked     []int64
	submitted []int64
	seen      [][]*int64
	ints      []*int64
}

func optV(p *int64) cf.T { return sw.OptVer(p) }

func (o obsRec) term() cf.T {
	return cf.App("mkCObs", cf.Int(o.client), cf.ListOf(o.acked, cf.Z), cf.ListOf(o.submitted, cf.Z),
		cf.ListOf(o.seen, func(vs []*int64) cf.T { return cf.ListOf(vs, optV) }), cf.ListOf(o.ints, optV))
}

func exec(in In) vh.Result {
	idx, path, dir, err := sw.Open(in.Layout)
	if dir != "" {
		defer os.RemoveAll(dir)
	}
	if err != nil {
		return vh.Result{Direct: &vh.Direct{Kind: "error", Detail: "open: " + err.Error()}}
	}
	trace := in.Layout.Config == "scorch-disk"
	var rec *strace.Recorder
	if trace {
		rec = strace.Start(path)
		defer rec.Stop()
		if in.DelayUS > 0 {
			var dmu sync.Mutex
			dr := vrand.New(in.DelaySeed)
			rec.OnEvent = func(ev *scorch.VerifEvent) {
				dmu.Lock()
				d := dr.Intn(in.DelayUS)
				skip := dr.Chance(2, 3)
				// widen the windows in which a merge is in flight or a batch has computed its
				// optimistic obsoletions but has not been introduced yet (no lock is held at these points)
				name := ev.Kind
				if ev.Kind == "point" {
					name = ev.Name
				}
				switch name {
				case "merge_start", "memmerge_written", "filemerge_written":
					if dr.Chance(1, 2) {
						d, skip = 2000+dr.Intn(8000), false
					}
				case "batch_send":
					if dr.Chance(1, 4) {
						d, skip = 500+dr.Intn(4000), false
					}
				}
				dmu.Unlock()
				if !skip {
					time.Sleep(time.Duration(d) * time.Microsecond)
				}
			}
		}
	}
	W, F := in.Writers, in.Family
	// besides the W observed families there is a "churn" family of 6 documents that one extra
	// writer updates or deletes one or two at a time: its segments carry PARTIAL deletions (the
	// observed families always obsolete a whole segment at once), which is what the deleted-since
	// bookkeeping of merges has to get right.  It is judged through the event trace only.
	const churn = 6
	nids := W*F + churn
	acked := make([]int64, W)
	submitted := make([]int64, W)
	var tgMu sync.Mutex
	tg := sw.NewTagger()
	var obsMu sync.Mutex
	var obs []obsRec
	var firstErr atomic.Value
	var direct atomic.Value
	fail := func(e error) {
		if e != nil {
			firstErr.CompareAndSwap(nil, e.Error())
		}
	}
	snap := func(a []int64) []int64 {
		o := make([]int64, W)
		for i := range o {
			o[i] = atomic.LoadInt64(&a[i])
		}
		return o
	}
	var wg sync.WaitGroup
	done := make(chan struct{})
	// writers
	for w := 0; w < W; w++ {
		wg.Add(1)
		go func(w int) {
			defer wg.Done()
			for j := int64(1); j <= int64(in.Batches); j++ {
				var ops []sw.Op
				for f := 0; f < F; f++ {
					ops = append(ops, sw.Op{Kind: "index", ID: w*F + f, Ver: j})
				}
				ops = append(ops, sw.Op{Kind: "setint", ID: w, Ver: j})
				tgMu.Lock()
				b, _, err := tg.Build(idx, ops, trace)
				tgMu.Unlock()
				if err != nil {
					fail(err)
					return
				}
				atomic.StoreInt64(&submitted[w], j)
				if err := idx.Batch(b); err != nil {
					fail(err)
					return
				}
				atomic.StoreInt64(&acked[w], j)
			}
		}(w)
	}
	if trace {
		wg.Add(1)
		go func() {
			defer wg.Done()
			cr := vrand.New(in.DelaySeed ^ 0x5bd1e995)
			for j := int64(1); j <= int64(2*in.Batches); j++ {
				var ops []sw.Op
				for k := cr.Range(1, 2); k > 0; k-- {
					id := W*F + cr.Intn(churn)
					if cr.Chance(1, 4) {
						ops = append(ops, sw.Op{Kind: "delete", ID: id})
					} else {
						ops = append(ops, sw.Op{Kind: "index", ID: id, Ver: 1000 + j})
					}
				}
				tgMu.Lock()
				b, _, err := tg.Build(idx, ops, true)
				tgMu.Unlock()
				if err != nil {
					fail(err)
					return
				}
				if err := idx.Batch(b); err != nil {
					fail(err)
					return
				}
			}
		}()
	}
	// searchers: one Search = one snapshot
	var rg sync.WaitGroup
	for s := 0; s < in.Searchers; s++ {
		rg.Add(1)
		go func(client int) {
			defer rg.Done()
			for {
				select {
				case <-done:
					return
				default:
				}
				a := snap(acked)
				req := bleve.NewSearchRequestOptions(bleve.NewMatchAllQuery(), nids+5, 0, false)
				req.Fields = []string{"v"}
				res, err := idx.Search(req)
				if err != nil {
					fail(err)
					return
				}
				sub := snap(submitted)
				seen := make([][]*int64, W)
				for w := range seen {
					seen[w] = make([]*int64, F)
				}
				for _, h := range res.Hits {
					i := int(sw.DocNum(h.ID))
					v := int64(-1)
					if s, ok := h.Fields["v"].(string); ok {
						v, _ = strconv.ParseInt(s, 10, 64)
					}
					if i >= 0 && i < W*F {
						seen[i/F][i%F] = &v
					}
				}
				// a search does not return internal values: derive the expected key from the family
				ints := make([]*int64, W)
				for w := range ints {
					ints[w] = seen[w][0]
				}
				obsMu.Lock()
				obs = append(obs, obsRec{client, a, sub, seen, ints})
				obsMu.Unlock()
				time.Sleep(200 * time.Microsecond)
			}
		}(s)
	}
	// holders: a reader held for a while must answer identically at the end of its life
	readAll := func(r index.IndexReader) (string, [][]*int64, []*int64, error) {
		cnt, err := r.DocCount()
		if err != nil {
			return "", nil, nil, err
		}
		sig := fmt.Sprintf("count=%d", cnt)
		seen := make([][]*int64, W)
		for w := range seen {
			seen[w] = make([]*int64, F)
			for f := 0; f < F; f++ {
				d, err := r.Document(sw.DocName(w*F + f))
				if err != nil {
					return "", nil, nil, err
				}
				if d != nil {
					v := sw.StoredVersion(d)
					seen[w][f] = &v
					sig += fmt.Sprintf(" d%d=%d", w*F+f, v)
				} else {
					sig += fmt.Sprintf(" d%d=nil", w*F+f)
				}
			}
		}
		ints := make([]*int64, W)
		for w := range ints {
			b, err := r.GetInternal([]byte(sw.KeyName(w)))
			if err != nil {
				return "", nil, nil, err
			}
			if b != nil {
				v := strace.ValZ(b)
				ints[w] = &v
			}
			sig += fmt.Sprintf(" k%d=%s", w, b)
		}
		dr, err := r.DocIDReaderAll()
		if err != nil {
			return "", nil, nil, err
		}
		n := 0
		for {
			id, err := dr.Next()
			if err != nil || id == nil {
				break
			}
			n++
		}
		dr.Close()
		sig += fmt.Sprintf(" ids=%d", n)
		return sig, seen, ints, nil
	}
	for h := 0; h < in.Holders; h++ {
		rg.Add(1)
		go func(client int) {
			defer rg.Done()
			hr := vrand.New(in.DelaySeed + uint64(client))
			for {
				select {
				case <-done:
					return
				default:
				}
				adv, err := idx.Advanced()
				if err != nil {
					fail(err)
					return
				}
				a := snap(acked)
				r, err := adv.Reader()
				if err != nil {
					fail(err)
					return
				}
				sub := snap(submitted)
				sig1, seen, ints, err := readAll(r)
				if err != nil {
					r.Close()
					fail(err)
					return
				}
				time.Sleep(time.Duration(hr.Range(1, 30)) * time.Millisecond)
				sig2, _, _, err := readAll(r)
				r.Close()
				if err != nil {
					fail(err)
					return
				}
				if sig1 != sig2 {
					direct.CompareAndSwap(nil, &vh.Direct{Kind: "reader-view-changed", Detail: fmt.Sprintf("a held index reader answered %q and later %q", sig1, sig2)})
				}
				obsMu.Lock()
				obs = append(obs, obsRec{100 + client, a, sub, seen, ints})
				obsMu.Unlock()
			}
		}(h)
	}
	// forced merges
	if trace && in.Merges > 0 {
		rg.Add(1)
		go func() {
			defer rg.Done()
			for m := 0; m < in.Merges; m++ {
				select {
				case <-done:
					return
				case <-time.After(2 * time.Millisecond):
				}
				sw.ForceMerge(idx)
			}
		}()
	}
	wdone := make(chan struct{})
	go func() { wg.Wait(); close(wdone) }()
	select {
	case <-wdone:
	case <-time.After(60 * time.Second):
		close(done)
		return vh.Result{Direct: &vh.Direct{Kind: "timeout", Detail: "writers did not finish within 60s (deadlock or lost wake-up?)"}}
	}
	time.Sleep(5 * time.Millisecond)
	close(done)
	rg.Wait()
	if e := firstErr.Load(); e != nil {
		idx.Close()
		return vh.Result{Direct: &vh.Direct{Kind: "error", Detail: e.(string)}}
	}
	final, err := sw.DocVersions(idx, nids)
	idx.Close()
	if err != nil {
		return vh.Result{Direct: &vh.Direct{Kind: "error", Detail: err.Error()}}
	}
	cases := []cf.T{cf.App("CConc", cf.ListOf(obs, func(o obsRec) cf.T { return o.term() }))}
	hist := []string{"run:" + in.Layout.Config, fmt.Sprintf("obs=%d", len(obs)/20*20)}
	mm, fm := 0, 0
	if trace {
		var tr cf.T
		tr, mm, fm, _ = sw.TraceCase(rec, tg, nids, final)
		cases = append(cases, tr)
		hist = append(hist, fmt.Sprintf("mem_merges=%d", min(mm, 6)), fmt.Sprintf("file_merges=%d", min(fm, 6)))
	}
	// distinct in-flight observations: some family strictly between acked and submitted, or mid-history
	mid := 0
	for _, o := range obs {
		for w := 0; w < W; w++ {
			if o.seen[w][0] != nil && *o.seen[w][0] > 0 && *o.seen[w][0] < int64(in.Batches) {
				mid++
				break
			}
		}
	}
	res := vh.Result{Term: cf.App("CMulti", cf.List(cases)), Nontrivial: mid >= 3 && (!trace || mm+fm > 0), Hist: hist}
	if trace {
		res.Traces = 1
	}
	if d := direct.Load(); d != nil {
		res.Direct = d.(*vh.Direct)
	}
	return res
}

func main() {
	vh.Main(vh.Config{
		Property:  "C04",
		Imports:   []string{"Common.Bytes", "Scorch.Model", "Scorch.Corr"},
		CaseType:  "Corr.case",
		CheckFn:   "Corr.check",
		ExplainFn: "Corr.explain",
		Rule: "2-3 writers (each rewriting its own family of 2-3 documents and its internal key with the batch number, 8-25 batches), 1-3 searchers, 1-2 long-lived reader holders and forced merges run concurrently on scorch-disk (5 persister/merge option variants, safe and unsafe batches, seeded delays of up to 1.5 ms injected at the hook points), scorch-mem and upsidedown; " +
			"every observation comes from one Search or one held reader; non-trivial: at least 3 observations fall strictly inside the history and (for disk runs) a merge was introduced during the run",
		ShardSize: 1,
		Workers:   3,
	}, gen, exec)
}
