// C04, writers whose batches touch the SAME documents (any index type; this is where upsidedown's
// read-modify-write of the back index has to be serialised): several goroutines issue their
// batches concurrently - typically one with large batches and some with tiny ones on the same
// ids, optionally with a slow analyzer so that a large batch spends long between its reads and
// its write - while reader clients take observations, each from ONE snapshot (an index reader:
// DocCount, Document(id) for every id, the (id, version) pairs reachable through the term
// dictionary and postings of field "v"; or one match-all Search).  The Coq checker
// (Scorch/Ser.v, proved equivalent to the spec in ProofsSer.v) decides whether ONE serial order
// of all batches, consistent with every goroutine's own order, explains every observation (each
// the state after a prefix that contains what had been acknowledged before the read began and
// nothing submitted after it ended; per client never going backwards) and the final state.
package main

import (
	"context"
	"fmt"
	"os"
	"sort"
	"strconv"
	"sync"
	"sync/atomic"
	"time"

	"github.com/blevesearch/bleve/v2"
	"github.com/blevesearch/bleve/v2/analysis"
	"github.com/blevesearch/bleve/v2/mapping"
	"github.com/blevesearch/bleve/v2/registry"
	index "github.com/blevesearch/bleve_index_api"

	cf "verifharness/internal/coqfmt"
	"verifharness/internal/sw"
	"verifharness/internal/vh"
	"verifharness/internal/vrand"
)

type SerSpec struct {
	NIDs     int         `json:"nids"`    // the universe: documents d0 .. d(NIDs-1)
	Writers  [][][]sw.Op `json:"writers"` // per goroutine: its batches in order
	Readers  int         `json:"readers"`
	Searcher bool        `json:"searcher,omitempty"` // one more client observing through match-all searches
	SlowUS   int         `json:"slow_us,omitempty"`  // > 0: analysing a document's body takes at least this long
	ObsCap   int         `json:"obs_cap"`            // observations per client
}

// slowAnalyzer is the standard analyzer made slow: it widens the window between the moment a
// batch has read what it needs and the moment it writes.
type slowAnalyzer struct {
	inner analysis.Analyzer
	d     time.Duration
}

func (a *slowAnalyzer) Analyze(in []byte) analysis.TokenStream {
	time.Sleep(a.d)
	return a.inner.Analyze(in)
}

func init() {
	_ = registry.RegisterAnalyzer("vh_slow", func(config map[string]interface{}, cache *registry.Cache) (analysis.Analyzer, error) {
		us, _ := config["us"].(float64)
		inner, err := cache.AnalyzerNamed("standard")
		if err != nil {
			return nil, err
		}
		return &slowAnalyzer{inner: inner, d: time.Duration(us) * time.Microsecond}, nil
	})
}

var serLayouts = []string{"udc-gtreap", "udc-gtreap", "udc-boltdb", "udc-boltdb", "udc-goleveldb", "scorch-mem", "scorch-disk"}

func genSer(r *vrand.R) In {
	ns := r.Range(1, 3)                       // documents every writer works on
	big := vrand.Pick(r, []int{1, 1, 1, 2, 0}) // writers issuing large batches
	tiny := r.Range(1, 3-big) // at most 3 goroutines with a large-batch writer among them,
	if big == 0 {
		tiny = r.Range(2, 4) // up to 4 without
	}
	nf := r.Range(6, 20) // private filler documents of a large-batch writer (rewritten by each of its batches)
	sp := &SerSpec{NIDs: ns + big*nf, Readers: r.Range(1, 3), Searcher: r.Chance(1, 2),
		SlowUS: vrand.Pick(r, []int{0, 100, 300, 800}), ObsCap: 48}
	var ver int64
	sharedOp := func() sw.Op {
		ver++
		if r.Chance(1, 4) {
			return sw.Op{Kind: "delete", ID: r.Intn(ns)}
		}
		return sw.Op{Kind: "index", ID: r.Intn(ns), Ver: ver}
	}
	for b := 0; b < big; b++ {
		var batches [][]sw.Op
		for j, nb := 0, r.Range(1, 3); j < nb; j++ {
			var ops []sw.Op
			for f := 0; f < nf; f++ {
				ver++
				if r.Chance(1, 8) {
					ops = append(ops, sw.Op{Kind: "delete", ID: ns + b*nf + f})
				} else {
					ops = append(ops, sw.Op{Kind: "index", ID: ns + b*nf + f, Ver: ver})
				}
			}
			for s, n := 0, r.Range(1, ns+1); s < n; s++ {
				ops = append(ops, sharedOp())
			}
			vrand.Shuffle(r, ops)
			batches = append(batches, ops)
		}
		sp.Writers = append(sp.Writers, batches)
	}
	for t := 0; t < tiny; t++ {
		var batches [][]sw.Op
		for j, nb := 0, r.Range(3, 7); j < nb; j++ {
			var ops []sw.Op
			for s, n := 0, r.Range(1, 2); s < n; s++ {
				ops = append(ops, sharedOp())
			}
			if big > 0 && r.Chance(1, 4) {
				ver++
				ops = append(ops, sw.Op{Kind: "index", ID: ns + r.Intn(big*nf), Ver: ver}) // into some large batch's documents
			}
			batches = append(batches, ops)
		}
		sp.Writers = append(sp.Writers, batches)
	}
	// keep the lattice of per-writer prefix vectors (what the checker searches) small: at most 250 points
	for {
		pts, longest := 1, 0
		for w, bs := range sp.Writers {
			pts *= len(bs) + 1
			if len(bs) > len(sp.Writers[longest]) {
				longest = w
			}
		}
		if pts <= 250 {
			break
		}
		sp.Writers[longest] = sp.Writers[longest][:len(sp.Writers[longest])-1]
	}
	vrand.Shuffle(r, sp.Writers)
	return In{Layout: sw.Layout{Config: vrand.Pick(r, serLayouts)}, Ser: sp}
}

type serObs struct {
	acked, sub []int64
	count      *uint64
	docs       []*int64
	found      [][2]int64 // (document, version), ascending
}

func (o serObs) term() cf.T {
	nat := func(v int64) cf.T { return cf.Nat(int(v)) }
	return cf.App("mkSObs", cf.ListOf(o.acked, nat), cf.ListOf(o.sub, nat), cf.Opt(o.count, cf.U), cf.ListOf(o.docs, sw.OptVer),
		cf.ListOf(o.found, func(p [2]int64) cf.T { return cf.Pair(cf.Nat(int(p[0])), cf.Z(p[1])) }))
}

func sortFound(f [][2]int64) {
	sort.Slice(f, func(a, b int) bool {
		if f[a][0] != f[b][0] {
			return f[a][0] < f[b][0]
		}
		return f[a][1] < f[b][1]
	})
}

// readSnapshot reads everything the checker's view consists of from ONE index reader.
func readSnapshot(r index.IndexReader, nids int) (cnt uint64, docs []*int64, found [][2]int64, err error) {
	if cnt, err = r.DocCount(); err != nil {
		return
	}
	docs = make([]*int64, nids)
	for i := 0; i < nids; i++ {
		var d index.Document
		if d, err = r.Document(sw.DocName(i)); err != nil {
			return
		}
		if d != nil {
			v := sw.StoredVersion(d)
			docs[i] = &v
		}
	}
	// every (document, version) pair the term index of field "v" leads to
	var fd index.FieldDict
	if fd, err = r.FieldDict("v"); err != nil {
		return
	}
	var terms []string
	for {
		var de *index.DictEntry
		if de, err = fd.Next(); err != nil {
			fd.Close()
			return
		}
		if de == nil {
			break
		}
		terms = append(terms, de.Term)
	}
	if err = fd.Close(); err != nil {
		return
	}
	for _, t := range terms {
		ver, perr := strconv.ParseInt(t, 10, 64)
		if perr != nil {
			ver = -3
		}
		var tfr index.TermFieldReader
		if tfr, err = r.TermFieldReader(context.Background(), []byte(t), "v", false, false, false); err != nil {
			return
		}
		for {
			var tfd *index.TermFieldDoc
			if tfd, err = tfr.Next(nil); err != nil {
				tfr.Close()
				return
			}
			if tfd == nil {
				break
			}
			var ext string
			if ext, err = r.ExternalID(tfd.ID); err != nil {
				tfr.Close()
				return
			}
			found = append(found, [2]int64{sw.DocNum(ext), ver})
		}
		if err = tfr.Close(); err != nil {
			return
		}
	}
	sortFound(found)
	return
}

func execSer(in In) vh.Result {
	sp := in.Ser
	m := sw.Mapping()
	if sp.SlowUS > 0 {
		im := m.(*mapping.IndexMappingImpl)
		if err := im.AddCustomAnalyzer("slowbody", map[string]interface{}{"type": "vh_slow", "us": float64(sp.SlowUS)}); err != nil {
			return vh.Result{Direct: &vh.Direct{Kind: "error", Detail: "analyzer: " + err.Error()}}
		}
		im.DefaultMapping.Properties["body"].Fields[0].Analyzer = "slowbody"
	}
	idx, _, dir, err := sw.OpenWith(in.Layout, m)
	if dir != "" {
		defer os.RemoveAll(dir)
	}
	if err != nil {
		return vh.Result{Direct: &vh.Direct{Kind: "error", Detail: "open: " + err.Error()}}
	}
	W := len(sp.Writers)
	acked, submitted := make([]int64, W), make([]int64, W)
	snap := func(a []int64) []int64 {
		o := make([]int64, W)
		for i := range o {
			o[i] = atomic.LoadInt64(&a[i])
		}
		return o
	}
	var firstErr atomic.Value
	fail := func(e error) {
		if e != nil {
			firstErr.CompareAndSwap(nil, e.Error())
		}
	}
	adv, err := idx.Advanced()
	if err != nil {
		idx.Close()
		return vh.Result{Direct: &vh.Direct{Kind: "error", Detail: err.Error()}}
	}
	observe := func() (serObs, error) {
		a := snap(acked)
		r, err := adv.Reader()
		if err != nil {
			return serObs{}, err
		}
		sub := snap(submitted) // the snapshot exists now: nothing submitted later can be in it
		cnt, docs, found, err := readSnapshot(r, sp.NIDs)
		if cerr := r.Close(); err == nil {
			err = cerr
		}
		return serObs{acked: a, sub: sub, count: &cnt, docs: docs, found: found}, err
	}
	search := func() (serObs, error) {
		a := snap(acked)
		req := bleve.NewSearchRequestOptions(bleve.NewMatchAllQuery(), sp.NIDs+10, 0, false)
		req.Fields = []string{"v"}
		res, err := idx.Search(req)
		if err != nil {
			return serObs{}, err
		}
		sub := snap(submitted)
		o := serObs{acked: a, sub: sub, count: &res.Total, docs: make([]*int64, sp.NIDs)}
		for _, h := range res.Hits {
			i, v := sw.DocNum(h.ID), int64(-1)
			if s, ok := h.Fields["v"].(string); ok {
				if x, e := strconv.ParseInt(s, 10, 64); e == nil {
					v = x
				}
			}
			if i >= 0 && int(i) < sp.NIDs {
				o.docs[i] = &v
			}
			o.found = append(o.found, [2]int64{i, v})
		}
		sortFound(o.found)
		return o, nil
	}

	start := make(chan struct{})
	done := make(chan struct{})
	var progress int64
	var wg, rg sync.WaitGroup
	for w := range sp.Writers {
		wg.Add(1)
		go func(w int) {
			defer wg.Done()
			<-start
			for j, ops := range sp.Writers[w] {
				b := idx.NewBatch()
				for _, o := range ops {
					if o.Kind == "index" {
						if err := b.Index(sw.DocName(o.ID), sw.DocFor(o.ID, o.Ver)); err != nil {
							fail(err)
							return
						}
					} else {
						b.Delete(sw.DocName(o.ID))
					}
				}
				atomic.StoreInt64(&submitted[w], int64(j+1))
				if err := idx.Batch(b); err != nil {
					fail(err)
					return
				}
				atomic.StoreInt64(&acked[w], int64(j+1))
				atomic.AddInt64(&progress, 1)
			}
		}(w)
	}
	nclients := sp.Readers
	if sp.Searcher {
		nclients++
	}
	clients := make([][]serObs, nclients+1) // the last one takes the final observation
	for c := 0; c < nclients; c++ {
		rg.Add(1)
		go func(c int) {
			defer rg.Done()
			take := observe
			if sp.Searcher && c == nclients-1 {
				take = search
			}
			pr := vrand.New(uint64(c)*7919 + uint64(sp.NIDs))
			<-start
			for len(clients[c]) < 5000 {
				select {
				case <-done:
					return
				default:
				}
				o, err := take()
				if err != nil {
					fail(err)
					return
				}
				clients[c] = append(clients[c], o)
				time.Sleep(time.Duration(pr.Range(50, 600)) * time.Microsecond)
			}
		}(c)
	}
	close(start)
	wdone := make(chan struct{})
	go func() { wg.Wait(); close(wdone) }()
	if !waitProgress(wdone, &progress, 90*time.Second) {
		close(done)
		return vh.Result{Direct: &vh.Direct{Kind: "timeout", Detail: "no batch call returned for 90s while writers were still running (deadlock or lost wake-up?)"}}
	}
	close(done)
	rg.Wait()
	var fin serObs
	if firstErr.Load() == nil {
		fin, err = observe()
		fail(err)
	}
	idx.Close()
	if e := firstErr.Load(); e != nil {
		return vh.Result{Direct: &vh.Direct{Kind: "error", Detail: e.(string)}}
	}
	clients[nclients] = []serObs{fin}
	// a client that took more than ObsCap observations keeps an evenly spaced subsequence of them
	// (first and last included): what explains a sequence of observations explains every subsequence
	for c := 0; c < nclients; c++ {
		if n := len(clients[c]); sp.ObsCap > 1 && n > sp.ObsCap {
			kept := make([]serObs, 0, sp.ObsCap)
			for i := 0; i < sp.ObsCap; i++ {
				kept = append(kept, clients[c][i*(n-1)/(sp.ObsCap-1)])
			}
			clients[c] = kept
		}
	}

	mid, nobs := 0, 0
	for _, c := range clients[:nclients] {
		for _, o := range c {
			nobs++
			started, finished := false, true
			for w := range o.sub {
				started = started || o.sub[w] > 0
				finished = finished && o.acked[w] == int64(len(sp.Writers[w]))
			}
			if started && !finished {
				mid++
			}
		}
	}
	writers := cf.ListOf(sp.Writers, func(bs [][]sw.Op) cf.T {
		return cf.ListOf(bs, func(ops []sw.Op) cf.T {
			return cf.ListOf(ops, func(o sw.Op) cf.T {
				if o.Kind == "index" {
					return cf.Pair(cf.Nat(o.ID), cf.Some(cf.Z(o.Ver)))
				}
				return cf.Pair(cf.Nat(o.ID), cf.None)
			})
		})
	})
	term := cf.App("CSer", cf.Nat(sp.NIDs), writers,
		cf.ListOf(clients, func(c []serObs) cf.T { return cf.ListOf(c, func(o serObs) cf.T { return o.term() }) }))
	return vh.Result{Term: term, Nontrivial: mid >= 3,
		Hist: []string{"ser", "ser:" + in.Layout.Config, fmt.Sprintf("ser:slow_us=%d", sp.SlowUS), fmt.Sprintf("ser:mid_obs=%d", min(mid/5*5, 50))}}
}
