// C01 correspondence harness: operation histories on every index configuration, observed after
// every batch and compared with the last-write-wins replay (CHist); scorch-on-disk runs are
// additionally recorded as event traces which the Coq scorch model must accept (CTrace).
package main

import (
	"context"
	"fmt"
	"os"
	"sort"
	"strconv"
	"time"

	"github.com/blevesearch/bleve/v2"
	"github.com/blevesearch/bleve/v2/index/scorch"
	"github.com/blevesearch/bleve/v2/index/upsidedown"
	_ "github.com/blevesearch/bleve/v2/index/upsidedown/store/goleveldb"
	_ "github.com/blevesearch/bleve/v2/index/upsidedown/store/moss"
	index "github.com/blevesearch/bleve_index_api"

	cf "verifharness/internal/coqfmt"
	"verifharness/internal/strace"
	"verifharness/internal/vh"
	"verifharness/internal/vrand"
)

type Op struct {
	Kind string `json:"k"` // index | delete | setint | delint
	ID   int    `json:"id"`
	Ver  int64  `json:"v,omitempty"`
}

type Step struct {
	Ops        []Op `json:"ops"`
	Single     bool `json:"single,omitempty"`      // issue each op through Index/Delete/SetInternal instead of one Batch
	ForceMerge bool `json:"force_merge,omitempty"` // scorch: ForceMerge after the step
	Observe    bool `json:"observe"`
}

type In struct {
	Config string `json:"config"`
	NIDs   int    `json:"nids"`
	NKeys  int    `json:"nkeys"`
	Steps  []Step `json:"steps"`
	Trace  bool   `json:"trace,omitempty"`
	Opts   int    `json:"opts,omitempty"` // persister/merge option variant for scorch-disk
	SegVer int    `json:"segver,omitempty"`
}

var configs = []string{"scorch-disk", "scorch-mem", "udc-gtreap", "udc-boltdb", "udc-goleveldb", "udc-moss"}

func gen(f vh.Flags, r *vrand.R, emit func(In)) {
	n := f.N(36, 1500)
	for k := 0; k < n; k++ {
		nids := r.Range(3, 7)
		nkeys := r.Range(1, 3)
		var ver int64
		nsteps := r.Range(3, 14)
		steps := make([]Step, nsteps)
		for i := range steps {
			nops := r.Range(0, 6)
			if r.Chance(1, 8) {
				nops = 0 // empty batch
			}
			st := Step{Observe: true, Single: r.Chance(1, 6), ForceMerge: r.Chance(1, 5)}
			for j := 0; j < nops; j++ {
				ver++
				switch x := r.Intn(20); {
				case x < 11:
					st.Ops = append(st.Ops, Op{Kind: "index", ID: r.Intn(nids), Ver: ver})
				case x < 16:
					st.Ops = append(st.Ops, Op{Kind: "delete", ID: r.Intn(nids)})
				case x < 18:
					st.Ops = append(st.Ops, Op{Kind: "setint", ID: r.Intn(nkeys), Ver: ver})
				default:
					st.Ops = append(st.Ops, Op{Kind: "delint", ID: r.Intn(nkeys)})
				}
			}
			steps[i] = st
		}
		// the same logical history on several configurations (and, for scorch-disk, as a trace)
		for ci, c := range configs {
			if f.Tier == "quick" && ci >= 2 && (k+ci)%2 == 0 {
				continue
			}
			in := In{Config: c, NIDs: nids, NKeys: nkeys, Steps: steps}
			if c == "scorch-disk" {
				in.Trace = true
				in.Opts = r.Intn(4)
				if r.Chance(1, 4) {
					in.SegVer = r.Range(11, 16)
				}
			}
			emit(in)
		}
	}
}

func docName(i int) string { return fmt.Sprintf("d%d", i) }
func keyName(i int) string { return fmt.Sprintf("k%d", i) }

func open(in In) (bleve.Index, string, error) {
	m := bleve.NewIndexMapping()
	path := ""
	var kvc map[string]interface{}
	typ, store := scorch.Name, scorch.Name
	switch in.Config {
	case "scorch-disk":
		d, err := os.MkdirTemp("", "vh_c01_")
		if err != nil {
			return nil, "", err
		}
		path = d + "/idx"
		kvc = map[string]interface{}{}
		switch in.Opts {
		case 1:
			kvc["scorchPersisterOptions"] = map[string]interface{}{"NumPersisterWorkers": 2, "MaxSizeInMemoryMergePerWorker": 1}
		case 2:
			kvc["scorchMergePlanOptions"] = map[string]interface{}{"MaxSegmentsPerTier": 2, "TierGrowth": 2.0, "SegmentsPerMergeTask": 3, "FloorSegmentSize": 1}
		case 3:
			kvc["scorchPersisterOptions"] = map[string]interface{}{"PersisterNapTimeMSec": 1, "PersisterNapUnderNumFiles": 0}
			kvc["scorchMergePlanOptions"] = map[string]interface{}{"MaxSegmentsPerTier": 1, "SegmentsPerMergeTask": 2, "FloorSegmentSize": 1}
		}
		if in.SegVer != 0 {
			kvc["forceSegmentType"] = "zap"
			kvc["forceSegmentVersion"] = in.SegVer
		}
	case "scorch-mem":
	case "udc-gtreap":
		typ, store = upsidedown.Name, "gtreap"
	case "udc-moss":
		typ, store = upsidedown.Name, "moss"
		kvc = map[string]interface{}{}
	case "udc-boltdb", "udc-goleveldb":
		typ, store = upsidedown.Name, in.Config[4:]
		d, err := os.MkdirTemp("", "vh_c01_")
		if err != nil {
			return nil, "", err
		}
		path = d + "/idx"
	}
	idx, err := bleve.NewUsing(path, m, typ, store, kvc)
	return idx, path, err
}

type fieldVal struct{ name, val string }

func storedFields(d index.Document) []fieldVal {
	var rv []fieldVal
	d.VisitFields(func(f index.Field) {
		rv = append(rv, fieldVal{f.Name(), string(f.Value())})
	})
	return rv
}

type docRec struct {
	V string `json:"v"`
	T string `json:"t"`
}

func optVer(p *int64) cf.T { return cf.Opt(p, func(v int64) cf.T { return cf.Z(v) }) }

func observe(idx bleve.Index, in In) (cf.T, error) {
	cnt, err := idx.DocCount()
	if err != nil {
		return "", err
	}
	var docs []cf.T
	for i := 0; i < in.NIDs; i++ {
		d, err := idx.Document(docName(i))
		if err != nil {
			return "", err
		}
		var vp *int64
		if d != nil {
			v := int64(-1)
			// read the stored version field
			for _, fv := range storedFields(d) {
				if fv.name == "v" {
					if x, e := strconv.ParseInt(fv.val, 10, 64); e == nil {
						v = x
					}
				}
			}
			vp = &v
		}
		docs = append(docs, cf.Pair(cf.Int(i), optVer(vp)))
	}
	req := bleve.NewSearchRequestOptions(bleve.NewMatchAllQuery(), in.NIDs+10, 0, false)
	req.Fields = []string{"v"}
	res, err := idx.Search(req)
	if err != nil {
		return "", err
	}
	type hv struct{ id, v int64 }
	var hs []hv
	for _, h := range res.Hits {
		var i int64
		fmt.Sscanf(h.ID, "d%d", &i)
		v := int64(-1)
		if s, ok := h.Fields["v"].(string); ok {
			if x, e := strconv.ParseInt(s, 10, 64); e == nil {
				v = x
			}
		}
		hs = append(hs, hv{i, v})
	}
	if int(res.Total) != len(hs) {
		// Total disagrees with the listed hits: encode it so that the comparison fails
		hs = append(hs, hv{-1, int64(res.Total)})
	}
	sort.Slice(hs, func(a, b int) bool { return hs[a].id < hs[b].id })
	var ids []string
	for i := 0; i < in.NIDs; i++ {
		ids = append(ids, docName(i))
	}
	ids = append(ids, "nosuchdoc")
	req2 := bleve.NewSearchRequestOptions(bleve.NewDocIDQuery(ids), in.NIDs+10, 0, false)
	res2, err := idx.Search(req2)
	if err != nil {
		return "", err
	}
	var dq []int
	for _, h := range res2.Hits {
		var i int
		fmt.Sscanf(h.ID, "d%d", &i)
		dq = append(dq, i)
	}
	sort.Ints(dq)
	var ints []cf.T
	for k := 0; k < in.NKeys; k++ {
		v, err := idx.GetInternal([]byte(keyName(k)))
		if err != nil {
			return "", err
		}
		var vp *int64
		if v != nil {
			x := strace.ValZ(v)
			vp = &x
		}
		ints = append(ints, cf.Pair(cf.Int(k), optVer(vp)))
	}
	return cf.App("mkObs", cf.U(cnt), cf.List(docs),
		cf.ListOf(hs, func(h hv) cf.T { return cf.Pair(cf.Z(h.id), cf.Z(h.v)) }),
		cf.ListOf(dq, cf.Int), cf.List(ints)), nil
}

func exec(in In) vh.Result {
	idx, path, err := open(in)
	if path != "" {
		defer os.RemoveAll(path[:len(path)-4])
	}
	if err != nil {
		return vh.Result{Direct: &vh.Direct{Kind: "error", Detail: "open: " + err.Error()}}
	}
	var rec *strace.Recorder
	if in.Trace {
		rec = strace.Start(path)
		defer rec.Stop()
	}
	closed := false
	defer func() {
		if !closed {
			idx.Close()
		}
	}()
	// (batch seq) -> doc id -> version, to give trace events their versions
	batchVers := map[int64]map[string]int64{}
	var seq int64
	var steps []cf.T
	nontrivialUpd, nontrivialDel := map[int]int{}, false
	fail := func(e error) vh.Result {
		return vh.Result{Direct: &vh.Direct{Kind: "error", Detail: e.Error()}}
	}
	for _, st := range in.Steps {
		var ops, iops []cf.T
		for _, o := range st.Ops {
			switch o.Kind {
			case "index":
				ops = append(ops, cf.Pair(cf.Int(o.ID), cf.Some(cf.Z(o.Ver))))
				nontrivialUpd[o.ID]++
			case "delete":
				ops = append(ops, cf.Pair(cf.Int(o.ID), cf.None))
				if nontrivialUpd[o.ID] > 0 {
					nontrivialDel = true
				}
			case "setint":
				iops = append(iops, cf.Pair(cf.Int(o.ID), cf.Some(cf.Z(o.Ver))))
			case "delint":
				iops = append(iops, cf.Pair(cf.Int(o.ID), cf.None))
			}
		}
		apply := func(ops []Op) error {
			seq++
			b := idx.NewBatch()
			vers := map[string]int64{}
			for _, o := range ops {
				switch o.Kind {
				case "index":
					if err := b.Index(docName(o.ID), docRec{V: strconv.FormatInt(o.Ver, 10), T: "x y"}); err != nil {
						return err
					}
					vers[docName(o.ID)] = o.Ver
				case "delete":
					b.Delete(docName(o.ID))
					delete(vers, docName(o.ID))
				case "setint":
					b.SetInternal([]byte(keyName(o.ID)), []byte(strconv.FormatInt(o.Ver, 10)))
				case "delint":
					b.DeleteInternal([]byte(keyName(o.ID)))
				}
			}
			if in.Trace {
				b.SetInternal([]byte("__b"), []byte(strconv.FormatInt(seq, 10)))
			}
			batchVers[seq] = vers
			return idx.Batch(b)
		}
		if st.Single {
			for _, o := range st.Ops {
				var err error
				switch {
				case in.Trace:
					err = apply([]Op{o}) // keep the batch tag: one-op batches
				case o.Kind == "index":
					err = idx.Index(docName(o.ID), docRec{V: strconv.FormatInt(o.Ver, 10), T: "x y"})
				case o.Kind == "delete":
					err = idx.Delete(docName(o.ID))
				case o.Kind == "setint":
					err = idx.SetInternal([]byte(keyName(o.ID)), []byte(strconv.FormatInt(o.Ver, 10)))
				case o.Kind == "delint":
					err = idx.DeleteInternal([]byte(keyName(o.ID)))
				}
				if err != nil {
					return fail(err)
				}
			}
		} else if err := apply(st.Ops); err != nil {
			return fail(err)
		}
		if st.ForceMerge && in.Config == "scorch-disk" {
			if adv, err := idx.Advanced(); err == nil {
				if sc, ok := adv.(*scorch.Scorch); ok {
					ctx, cancel := context.WithTimeout(context.Background(), 20*time.Second)
					_ = sc.ForceMerge(ctx, nil)
					cancel()
				}
			}
		}
		o := cf.None
		if st.Observe {
			t, err := observe(idx, in)
			if err != nil {
				return fail(err)
			}
			o = cf.Some(t)
		}
		steps = append(steps, cf.App("mkHStep", cf.List(ops), cf.List(iops), o))
	}
	universe := make([]int, in.NIDs)
	for i := range universe {
		universe[i] = i
	}
	keys := make([]int, in.NKeys)
	for i := range keys {
		keys[i] = i
	}
	multi := 0
	for _, c := range nontrivialUpd {
		if c >= 2 {
			multi++
		}
	}
	nontrivial := multi > 0 && nontrivialDel
	if !in.Trace {
		return vh.Result{Term: cf.App("CHist", cf.ListOf(universe, cf.Int), cf.ListOf(keys, cf.Int), cf.List(steps)),
			Nontrivial: nontrivial, Hist: []string{"hist:" + in.Config}}
	}
	// trace case: give the persister/merger a moment to work, then read the final contents
	time.Sleep(30 * time.Millisecond)
	var final []cf.T
	for i := 0; i < in.NIDs; i++ {
		d, err := idx.Document(docName(i))
		if err != nil {
			return fail(err)
		}
		var vp *int64
		if d != nil {
			v := int64(-1)
			for _, fv := range storedFields(d) {
				if fv.name == "v" {
					if x, e := strconv.ParseInt(fv.val, 10, 64); e == nil {
						v = x
					}
				}
			}
			vp = &v
		}
		final = append(final, cf.Pair(cf.Int(i), optVer(vp)))
	}
	idx.Close()
	closed = true
	evs := strace.Linearize(rec.Events())
	namer := &strace.Namer{DocID: func(s string) int64 {
		var i int64
		fmt.Sscanf(s, "d%d", &i)
		return i
	}}
	terms := strace.Terms(evs, namer, func(ev *scorch.VerifEvent, id string) (int64, bool) {
		if b, ok := ev.Internal["__b"]; ok {
			if s, err := strconv.ParseInt(string(b), 10, 64); err == nil {
				v, ok := batchVers[s][id]
				return v, ok
			}
		}
		return -1, false
	})
	nm, np := 0, 0
	for _, e := range evs {
		switch e.Kind {
		case "merge_finish":
			nm++
		case "persist_intro":
			np++
		}
	}
	h := []string{"trace", fmt.Sprintf("trace:merges=%d", nm), fmt.Sprintf("trace:persists=%d", min(np, 9))}
	// a history case for the same run as well (the observations were taken anyway)
	_ = steps
	return vh.Result{Term: cf.App("CTrace", cf.ListOf(universe, cf.Int), cf.List(terms), cf.List(final)),
		Nontrivial: nontrivial && nm > 0, Hist: h}
}

func main() {
	vh.Main(vh.Config{
		Property:  "C01",
		Imports:   []string{"Common.Bytes", "Scorch.Model", "Scorch.Corr"},
		CaseType:  "Corr.case",
		CheckFn:   "Corr.check",
		ExplainFn: "Corr.explain",
		Rule: "histories of 3-14 steps (batches of 0-6 Index/Delete/SetInternal/DeleteInternal ops, or the same ops issued singly) over 3-7 ids and 1-3 internal keys, " +
			"each logical history run on scorch-disk (as an event trace, with 4 persister/merge option variants, forced merges, older zap versions), scorch-mem, upsidedown over gtreap/boltdb/goleveldb/moss; " +
			"observed after every step: DocCount, Document(id) for all ids, match-all with stored version, doc-id query, GetInternal for all keys; " +
			"non-trivial: some id written at least twice and some previously written id deleted (traces: additionally at least one merge introduced)",
		ShardSize: 40,
		Workers:   6,
	}, gen, exec)
}
