// C01 correspondence harness: operation histories on every index configuration, observed after
// every batch and compared with the last-write-wins replay (CHist); scorch-on-disk runs are
// additionally recorded as event traces which the Coq scorch model must accept (CTrace).
package main

import (
	"fmt"
	"os"
	"time"

	cf "verifharness/internal/coqfmt"
	"verifharness/internal/strace"
	"verifharness/internal/sw"
	"verifharness/internal/vh"
	"verifharness/internal/vrand"
)

type Step struct {
	Ops        []sw.Op `json:"ops"`
	Single     bool    `json:"single,omitempty"`      // issue each op through Index/Delete/SetInternal instead of one Batch
	ForceMerge bool    `json:"force_merge,omitempty"` // scorch: ForceMerge after the step
	Observe    bool    `json:"observe"`
	// schedule aids for scorch-disk trace runs (they never enter the verdict; see sw/flush.go)
	Hold    bool `json:"hold,omitempty"`     // before the step: hold the persister between two of its rounds
	Release bool `json:"release,omitempty"`  // after the step and its observation: let the persister go and wait (bounded) until it caught up
	NoBatch bool `json:"no_batch,omitempty"` // nothing is issued: a pure observation point
}

type In struct {
	Layout sw.Layout `json:"layout"`
	NIDs   int       `json:"nids"`
	NKeys  int       `json:"nkeys"`
	Steps  []Step    `json:"steps"`
	Trace  bool      `json:"trace,omitempty"`
}

var configs = []string{"scorch-disk", "scorch-mem", "udc-gtreap", "udc-boltdb", "udc-goleveldb", "udc-moss"}

func gen(f vh.Flags, r *vrand.R, emit func(In)) {
	n := f.N(36, 1500)
	for k := 0; k < n; k++ {
		nids := r.Range(3, 7)
		nkeys := r.Range(1, 3)
		var ver int64
		nsteps := r.Range(3, 14)
		burst := k%3 == 0 // bursts of unobserved batches: several in-memory segments pile up for the persister
		steps := make([]Step, nsteps)
		for i := range steps {
			nops := r.Range(0, 6)
			if r.Chance(1, 8) {
				nops = 0 // empty batch
			}
			st := Step{Observe: !burst || i%4 == 3 || i == nsteps-1, Single: r.Chance(1, 6), ForceMerge: r.Chance(1, 5)}
			for j := 0; j < nops; j++ {
				ver++
				switch x := r.Intn(20); {
				case x < 11:
					st.Ops = append(st.Ops, sw.Op{Kind: "index", ID: r.Intn(nids), Ver: ver})
				case x < 16:
					st.Ops = append(st.Ops, sw.Op{Kind: "delete", ID: r.Intn(nids)})
				case x < 18:
					st.Ops = append(st.Ops, sw.Op{Kind: "setint", ID: r.Intn(nkeys), Ver: ver})
				default:
					st.Ops = append(st.Ops, sw.Op{Kind: "delint", ID: r.Intn(nkeys)})
				}
			}
			steps[i] = st
		}
		// the same logical history on several configurations (and, for scorch-disk, as a trace)
		for ci, c := range configs {
			if f.Tier == "quick" && ci >= 2 && (k+ci)%2 == 0 {
				continue
			}
			in := In{Layout: sw.Layout{Config: c}, NIDs: nids, NKeys: nkeys, Steps: steps}
			if c == "scorch-disk" {
				in.Trace = true
				in.Layout.Opts = r.Intn(5)
				in.Layout.Unsafe = burst // unsafe batches do not wait for the persister, so segments pile up in memory
				if r.Chance(1, 4) {
					in.Layout.SegVer = r.Range(11, 16)
				}
			}
			emit(in)
		}
	}
	genFlush(f, r, emit)
}

// genFlush: the persister's flush-set path (NumPersisterWorkers>1 / MaxSizeInMemoryMergePerWorker>0)
// and other non-default persister / merge-planner options, fed with bursts of unsafe multi-document
// batches over a small id space: the persister is held between two rounds while a burst is issued,
// so its next round finds all the burst's in-memory segments (several flush batches), most of them
// partly obsoleted by later batches of the same burst.  Observed at the end of every burst (in-memory
// segments) and again after the persister has merged and persisted them.
func genFlush(f vh.Flags, r *vrand.R, emit func(In)) {
	n := f.N(12, 500)
	for k := 0; k < n; k++ {
		nids := r.Range(4, 9)
		nkeys := r.Range(1, 2)
		var ver int64
		var steps []Step
		for round, rounds := 0, r.Range(2, 4); round < rounds; round++ {
			burst := r.Range(4, 10)
			for b := 0; b < burst; b++ {
				st := Step{Hold: b == 0, Observe: b == burst-1 || r.Chance(1, 5), Release: b == burst-1}
				for j, nops := 0, r.Range(1, 4); j < nops; j++ {
					ver++
					switch x := r.Intn(20); {
					case x < 14:
						st.Ops = append(st.Ops, sw.Op{Kind: "index", ID: r.Intn(nids), Ver: ver})
					case x < 18:
						st.Ops = append(st.Ops, sw.Op{Kind: "delete", ID: r.Intn(nids)})
					case x < 19:
						st.Ops = append(st.Ops, sw.Op{Kind: "setint", ID: r.Intn(nkeys), Ver: ver})
					default:
						st.Ops = append(st.Ops, sw.Op{Kind: "delint", ID: r.Intn(nkeys)})
					}
				}
				steps = append(steps, st)
			}
			steps = append(steps, Step{NoBatch: true, Observe: true, ForceMerge: r.Chance(1, 6)})
		}
		l := sw.GenFlushLayout(r)
		if k%4 == 3 {
			l.PO = sw.GenPersisterOpts(r, false) // any persister options, legacy path included
		}
		l.Unsafe = true // a safe batch returns only after the persister's round, so segments cannot pile up behind one caller
		if r.Chance(1, 5) {
			l.SegVer = r.Range(11, 16)
		}
		emit(In{Layout: l, NIDs: nids, NKeys: nkeys, Steps: steps, Trace: true})
	}
}

// exec runs the scorch-disk histories in a child process each: a failure inside the persister's
// in-memory merge or the merger is a panic on a goroutine scorch started, which nothing in this
// process could recover (the run would end as "harness crashed" without the input).
func exec(in In) vh.Result {
	if in.Layout.Config == "" {
		return vh.Result{Skip: true} // a replay/corpus input of the property's other harness (c01udc)
	}
	if in.Trace {
		return vh.Isolate(in, 12*time.Minute)
	}
	return execHere(in)
}

func execHere(in In) vh.Result {
	idx, path, dir, err := sw.Open(in.Layout)
	if dir != "" {
		defer os.RemoveAll(dir)
	}
	if err != nil {
		return vh.Result{Direct: &vh.Direct{Kind: "error", Detail: "open: " + err.Error()}}
	}
	var rec *strace.Recorder
	var gate *sw.PersisterGate
	if in.Trace {
		rec = strace.Start(path)
		defer rec.Stop()
		gate = sw.NewPersisterGate(rec, 3*time.Second)
		defer gate.Release()
	}
	closed := false
	defer func() {
		if !closed {
			idx.Close()
		}
	}()
	tg := sw.NewTagger()
	var steps []cf.T
	upd, delAfterUpd := map[int]int{}, false
	fail := func(e error) vh.Result {
		return vh.Result{Direct: &vh.Direct{Kind: "error", Detail: e.Error()}}
	}
	apply := func(ops []sw.Op) error {
		b, _, err := tg.Build(idx, ops, in.Trace)
		if err != nil {
			return err
		}
		return idx.Batch(b)
	}
	for _, st := range in.Steps {
		for _, o := range st.Ops {
			switch o.Kind {
			case "index":
				upd[o.ID]++
			case "delete":
				if upd[o.ID] > 0 {
					delAfterUpd = true
				}
			}
		}
		if st.Hold && gate != nil {
			gate.Hold()
		}
		if st.NoBatch {
		} else if st.Single {
			for _, o := range st.Ops {
				var err error
				switch {
				case in.Trace:
					err = apply([]sw.Op{o}) // keep the batch tag: one-op batches
				case o.Kind == "index":
					err = idx.Index(sw.DocName(o.ID), sw.DocFor(o.ID, o.Ver))
				case o.Kind == "delete":
					err = idx.Delete(sw.DocName(o.ID))
				case o.Kind == "setint":
					err = idx.SetInternal([]byte(sw.KeyName(o.ID)), []byte(fmt.Sprint(o.Ver)))
				case o.Kind == "delint":
					err = idx.DeleteInternal([]byte(sw.KeyName(o.ID)))
				}
				if err != nil {
					return fail(err)
				}
			}
		} else if err := apply(st.Ops); err != nil {
			return fail(err)
		}
		if st.ForceMerge && in.Layout.Config == "scorch-disk" {
			sw.ForceMerge(idx)
		}
		o := cf.None
		if st.Observe {
			t, err := sw.Observe(idx, in.NIDs, in.NKeys)
			if err != nil {
				return fail(err)
			}
			o = cf.Some(t)
		}
		if st.Release && gate != nil {
			gate.Release()
			sw.WaitPersisted(idx, 3*time.Second)
		}
		var sops []sw.Op
		if !st.NoBatch {
			sops = st.Ops
		}
		dops, iops := sw.OpsTerms(sops)
		steps = append(steps, cf.App("mkHStep", cf.List(dops), cf.List(iops), o))
	}
	multi := 0
	for _, c := range upd {
		if c >= 2 {
			multi++
		}
	}
	nontrivial := multi > 0 && delAfterUpd
	keys := make([]int, in.NKeys)
	for i := range keys {
		keys[i] = i
	}
	hist := cf.App("CHist", sw.Universe(in.NIDs), cf.ListOf(keys, cf.Int), cf.List(steps))
	if !in.Trace {
		return vh.Result{Term: hist, Nontrivial: nontrivial, Hist: []string{"hist:" + in.Layout.Config}}
	}
	// trace case: give the persister/merger a moment to work, then read the final contents
	time.Sleep(30 * time.Millisecond)
	final, err := sw.DocVersions(idx, in.NIDs)
	if err != nil {
		return fail(err)
	}
	idx.Close()
	closed = true
	tr, mm, fm, np := sw.TraceCase(rec, tg, in.NIDs, final)
	// flush rounds of the persister: in-memory merges of >= 2 flush batches, and those in which a
	// merged segment was partly obsoleted when the round started
	multi, multiDrops := sw.FlushRounds(rec)
	if in.Layout.PO != nil {
		h := []string{"trace", "flush", fmt.Sprintf("flush:nonlegacy=%v", in.Layout.PO.NonLegacy()), fmt.Sprintf("flush:rounds_with_2+_flush_batches=%d", min(multi, 4)),
			fmt.Sprintf("flush:such_rounds_with_partly_obsoleted_segments=%d", min(multiDrops, 4)), fmt.Sprintf("trace:mem_merges=%d", min(mm, 5)), fmt.Sprintf("trace:file_merges=%d", min(fm, 5))}
		return vh.Result{Term: cf.App("CMulti", cf.List([]cf.T{hist, tr})), Nontrivial: nontrivial && mm > 0 && (!in.Layout.PO.NonLegacy() || multiDrops > 0), Hist: h, Traces: 1}
	}
	h := []string{"trace", "hist:scorch-disk", fmt.Sprintf("trace:mem_merges=%d", min(mm, 5)), fmt.Sprintf("trace:file_merges=%d", min(fm, 5)), fmt.Sprintf("trace:persists=%d", min(np, 9))}
	return vh.Result{Term: cf.App("CMulti", cf.List([]cf.T{hist, tr})), Nontrivial: nontrivial && mm+fm > 0, Hist: h, Traces: 1}
}

func main() {
	if vh.IsolatedChild(execHere) {
		return
	}
	vh.Main(vh.Config{
		Property:  "C01",
		Imports:   []string{"Common.Bytes", "Scorch.Model", "Scorch.Corr"},
		CaseType:  "Corr.case",
		CheckFn:   "Corr.check",
		ExplainFn: "Corr.explain",
		Rule: "histories of 3-14 steps (batches of 0-6 Index/Delete/SetInternal/DeleteInternal ops, or the same ops issued singly) over 3-7 ids and 1-3 internal keys, " +
			"each logical history run on scorch-disk (as an event trace too, with 5 persister/merge option variants, forced merges, older zap versions, bursts of unobserved batches), scorch-mem, upsidedown over gtreap/boltdb/goleveldb/moss; " +
			"observed after every step: DocCount, Document(id) for all ids, match-all with stored version, doc-id query, GetInternal for all keys; " +
			"plus flush histories on scorch-disk with generated non-default persister options (1-4 workers, MaxSizeInMemoryMergePerWorker from 1 byte to 1 MB, naps, memory-pressure threshold) and merge-planner options: " +
			"2-4 bursts of 4-10 unsafe batches of 1-4 ops over 4-9 ids issued while the persister is held between two rounds, observed at the end of the burst and again after the persister caught up; " +
			"non-trivial: some id written at least twice and some previously written id deleted (traces: additionally at least one merge introduced; flush histories on the flush-set path: a persister round with >= 2 flush batches of which some segment was partly obsoleted)",
		ShardSize: 10,
		Workers:   6,
	}, gen, exec)
}
