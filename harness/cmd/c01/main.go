// C01 correspondence harness: operation histories on every index configuration, observed after
// every batch and compared with the last-write-wins replay (CHist); scorch-on-disk runs are
// additionally recorded as event traces which the Coq scorch model must accept (CTrace).
package main

import (
	"fmt"
	"os"
	"time"

	cf "verifharness/internal/coqfmt"
	"verifharness/internal/strace"
	"verifharness/internal/sw"
	"verifharness/internal/vh"
	"verifharness/internal/vrand"
)

type Step struct {
	Ops        []sw.Op `json:"ops"`
	Single     bool    `json:"single,omitempty"`      // issue each op through Index/Delete/SetInternal instead of one Batch
	ForceMerge bool    `json:"force_merge,omitempty"` // scorch: ForceMerge after the step
	Observe    bool    `json:"observe"`
}

type In struct {
	Layout sw.Layout `json:"layout"`
	NIDs   int       `json:"nids"`
	NKeys  int       `json:"nkeys"`
	Steps  []Step    `json:"steps"`
	Trace  bool      `json:"trace,omitempty"`
}

var configs = []string{"scorch-disk", "scorch-mem", "udc-gtreap", "udc-boltdb", "udc-goleveldb", "udc-moss"}

func gen(f vh.Flags, r *vrand.R, emit func(In)) {
	n := f.N(36, 1500)
	for k := 0; k < n; k++ {
		nids := r.Range(3, 7)
		nkeys := r.Range(1, 3)
		var ver int64
		nsteps := r.Range(3, 14)
		burst := k%3 == 0 // bursts of unobserved batches: several in-memory segments pile up for the persister
		steps := make([]Step, nsteps)
		for i := range steps {
			nops := r.Range(0, 6)
			if r.Chance(1, 8) {
				nops = 0 // empty batch
			}
			st := Step{Observe: !burst || i%4 == 3 || i == nsteps-1, Single: r.Chance(1, 6), ForceMerge: r.Chance(1, 5)}
			for j := 0; j < nops; j++ {
				ver++
				switch x := r.Intn(20); {
				case x < 11:
					st.Ops = append(st.Ops, sw.Op{Kind: "index", ID: r.Intn(nids), Ver: ver})
				case x < 16:
					st.Ops = append(st.Ops, sw.Op{Kind: "delete", ID: r.Intn(nids)})
				case x < 18:
					st.Ops = append(st.Ops, sw.Op{Kind: "setint", ID: r.Intn(nkeys), Ver: ver})
				default:
					st.Ops = append(st.Ops, sw.Op{Kind: "delint", ID: r.Intn(nkeys)})
				}
			}
			steps[i] = st
		}
		// the same logical history on several configurations (and, for scorch-disk, as a trace)
		for ci, c := range configs {
			if f.Tier == "quick" && ci >= 2 && (k+ci)%2 == 0 {
				continue
			}
			in := In{Layout: sw.Layout{Config: c}, NIDs: nids, NKeys: nkeys, Steps: steps}
			if c == "scorch-disk" {
				in.Trace = true
				in.Layout.Opts = r.Intn(5)
				in.Layout.Unsafe = burst // unsafe batches do not wait for the persister, so segments pile up in memory
				if r.Chance(1, 4) {
					in.Layout.SegVer = r.Range(11, 16)
				}
			}
			emit(in)
		}
	}
}

func exec(in In) vh.Result {
	idx, path, dir, err := sw.Open(in.Layout)
	if dir != "" {
		defer os.RemoveAll(dir)
	}
	if err != nil {
		return vh.Result{Direct: &vh.Direct{Kind: "error", Detail: "open: " + err.Error()}}
	}
	var rec *strace.Recorder
	if in.Trace {
		rec = strace.Start(path)
		defer rec.Stop()
	}
	closed := false
	defer func() {
		if !closed {
			idx.Close()
		}
	}()
	tg := sw.NewTagger()
	var steps []cf.T
	upd, delAfterUpd := map[int]int{}, false
	fail := func(e error) vh.Result {
		return vh.Result{Direct: &vh.Direct{Kind: "error", Detail: e.Error()}}
	}
	apply := func(ops []sw.Op) error {
		b, _, err := tg.Build(idx, ops, in.Trace)
		if err != nil {
			return err
		}
		return idx.Batch(b)
	}
	for _, st := range in.Steps {
		for _, o := range st.Ops {
			switch o.Kind {
			case "index":
				upd[o.ID]++
			case "delete":
				if upd[o.ID] > 0 {
					delAfterUpd = true
				}
			}
		}
		if st.Single {
			for _, o := range st.Ops {
				var err error
				switch {
				case in.Trace:
					err = apply([]sw.Op{o}) // keep the batch tag: one-op batches
				case o.Kind == "index":
					err = idx.Index(sw.DocName(o.ID), sw.DocFor(o.ID, o.Ver))
				case o.Kind == "delete":
					err = idx.Delete(sw.DocName(o.ID))
				case o.Kind == "setint":
					err = idx.SetInternal([]byte(sw.KeyName(o.ID)), []byte(fmt.Sprint(o.Ver)))
				case o.Kind == "delint":
					err = idx.DeleteInternal([]byte(sw.KeyName(o.ID)))
				}
				if err != nil {
					return fail(err)
				}
			}
		} else if err := apply(st.Ops); err != nil {
			return fail(err)
		}
		if st.ForceMerge && in.Layout.Config == "scorch-disk" {
			sw.ForceMerge(idx)
		}
		o := cf.None
		if st.Observe {
			t, err := sw.Observe(idx, in.NIDs, in.NKeys)
			if err != nil {
				return fail(err)
			}
			o = cf.Some(t)
		}
		dops, iops := sw.OpsTerms(st.Ops)
		steps = append(steps, cf.App("mkHStep", cf.List(dops), cf.List(iops), o))
	}
	multi := 0
	for _, c := range upd {
		if c >= 2 {
			multi++
		}
	}
	nontrivial := multi > 0 && delAfterUpd
	keys := make([]int, in.NKeys)
	for i := range keys {
		keys[i] = i
	}
	hist := cf.App("CHist", sw.Universe(in.NIDs), cf.ListOf(keys, cf.Int), cf.List(steps))
	if !in.Trace {
		return vh.Result{Term: hist, Nontrivial: nontrivial, Hist: []string{"hist:" + in.Layout.Config}}
	}
	// trace case: give the persister/merger a moment to work, then read the final contents
	time.Sleep(30 * time.Millisecond)
	final, err := sw.DocVersions(idx, in.NIDs)
	if err != nil {
		return fail(err)
	}
	idx.Close()
	closed = true
	tr, mm, fm, np := sw.TraceCase(rec, tg, in.NIDs, final)
	h := []string{"trace", "hist:scorch-disk", fmt.Sprintf("trace:mem_merges=%d", min(mm, 5)), fmt.Sprintf("trace:file_merges=%d", min(fm, 5)), fmt.Sprintf("trace:persists=%d", min(np, 9))}
	return vh.Result{Term: cf.App("CMulti", cf.List([]cf.T{hist, tr})), Nontrivial: nontrivial && mm+fm > 0, Hist: h, Traces: 1}
}

func main() {
	vh.Main(vh.Config{
		Property:  "C01",
		Imports:   []string{"Common.Bytes", "Scorch.Model", "Scorch.Corr"},
		CaseType:  "Corr.case",
		CheckFn:   "Corr.check",
		ExplainFn: "Corr.explain",
		Rule: "histories of 3-14 steps (batches of 0-6 Index/Delete/SetInternal/DeleteInternal ops, or the same ops issued singly) over 3-7 ids and 1-3 internal keys, " +
			"each logical history run on scorch-disk (as an event trace too, with 5 persister/merge option variants, forced merges, older zap versions, bursts of unobserved batches), scorch-mem, upsidedown over gtreap/boltdb/goleveldb/moss; " +
			"observed after every step: DocCount, Document(id) for all ids, match-all with stored version, doc-id query, GetInternal for all keys; " +
			"non-trivial: some id written at least twice and some previously written id deleted (traces: additionally at least one merge introduced)",
		ShardSize: 10,
		Workers:   6,
	}, gen, exec)
}
