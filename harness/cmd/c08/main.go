// C08 correspondence harness: real searchers obtained from query.Searcher over multi-segment
// scorch readers (in memory and on disk, with updates and deletions) and over upsidedown (gtreap,
// boltdb, moss; external ids of varying length, which are upsidedown's internal ids) are
// driven by forward Next/Advance programs; the ids they return are compared, inside Coq, with the
// machines of coq/Cursor/Machines.v and the cursor spec of coq/Cursor/Cursor.v.
//
// The harness never computes an expected answer: every list of ids it hands to Coq (leaf
// posting lists, Next-only enumerations) was produced by a real searcher, the tree shape is read
// off the concrete searcher types the query package returned, and Advance targets are derived
// from ids the implementation returned so far.
package main

import (
	"bytes"
	"context"
	"crypto/sha1"
	"encoding/hex"
	"encoding/json"
	"fmt"
	"math/big"
	"os"
	"sort"
	"strings"
	"sync"
	"time"

	"github.com/blevesearch/bleve/v2"
	"github.com/blevesearch/bleve/v2/index/scorch"
	"github.com/blevesearch/bleve/v2/index/upsidedown"
	"github.com/blevesearch/bleve/v2/index/upsidedown/store/boltdb"
	"github.com/blevesearch/bleve/v2/index/upsidedown/store/gtreap"
	"github.com/blevesearch/bleve/v2/index/upsidedown/store/moss"
	"github.com/blevesearch/bleve/v2/mapping"
	"github.com/blevesearch/bleve/v2/search"
	"github.com/blevesearch/bleve/v2/search/query"
	index "github.com/blevesearch/bleve_index_api"

	cf "verifharness/internal/coqfmt"
	"verifharness/internal/vh"
	"verifharness/internal/vrand"
)

// ---------------------------------------------------------------- inputs

type DocOp struct {
	ID  int       `json:"id"`
	Del bool      `json:"del,omitempty"`
	F   []int     `json:"f,omitempty"` // indices into vocab (keyword field f, multi-valued)
	T   []int     `json:"t,omitempty"` // indices into words (text field t, in order)
	N   float64   `json:"n,omitempty"`
	G   []float64 `json:"g,omitempty"` // lon, lat
}

type Corpus struct {
	Engine string `json:"engine"` // scorch-mem | scorch-disk | upsidedown
	// upsidedown: the KV store under it: "" = gtreap (in memory) | boltdb (on disk) | moss
	KV string `json:"kv,omitempty"`
	// external ids: IDs[k] is the hex form of the external id of document number k (ids of
	// different lengths, ids that are prefixes of each other, ids with 0x00 / high bytes; never
	// 0xff, which upsidedown's row formats use as a separator).  Empty: "d%03d".
	IDs     []string  `json:"ids,omitempty"`
	Batches [][]DocOp `json:"batches"`
	// scorch-disk: after this many batches wait for the persister and force a merge (merged
	// segments use zapx's 1-hit encoding for single-document terms); 0 = never
	MergeAfter int `json:"merge_after,omitempty"`
}

type Q struct {
	K         string  `json:"k"` // term conj disj bool docids all none | prefix fuzzy regexp wildcard termrange phrase mphrase match numrange geobox geodist
	Term      int     `json:"term,omitempty"`
	Min       int     `json:"min,omitempty"`
	Kids      []*Q    `json:"kids,omitempty"`
	Must      []*Q    `json:"must,omitempty"`
	Should    []*Q    `json:"should,omitempty"`
	MustNot   []*Q    `json:"must_not,omitempty"`
	MinShould int     `json:"min_should,omitempty"`
	Filter    *Q      `json:"filter,omitempty"`
	IDs       []int   `json:"ids,omitempty"`
	Str       string  `json:"str,omitempty"`
	Lo        float64 `json:"lo,omitempty"`
	Hi        float64 `json:"hi,omitempty"`
	// mphrase: per phrase position the alternative words (indices into words)
	Slots [][]int `json:"slots,omitempty"`
	// the minimum of a disjunction (NegHalf) / of the should clause (ShouldNegHalf) is -0.5
	// instead of Min / MinShould (which may themselves be negative: -1, -2, -1000000)
	NegHalf       bool `json:"neg_half,omitempty"`
	ShouldNegHalf bool `json:"should_neg_half,omitempty"`
}

func (q *Q) minF() float64 {
	if q.NegHalf {
		return -0.5
	}
	return float64(q.Min)
}

func (q *Q) minShouldF() float64 {
	if q.ShouldNegHalf {
		return -0.5
	}
	return float64(q.MinShould)
}

// one call of a program.  Advance targets are resolved against what the searcher returned so
// far: lb = max(last returned id + 1, last target, 0).
//
//	M=0 lb+A | M=1 a candidate id >= lb | M=2 candidate+1 | M=3 candidate-1 (clipped to lb)
//	M=4 a segment offset (or offset-1) >= lb | M=5 absolute A (may be backward; reader kinds only)
//	M=6 beyond the greatest id (+A)
//	M=7 an id out of the L-th list of "points of interest" (mod their number): the Next-only
//	    enumerations of real searchers for the query itself (list 0), for each of its subtrees,
//	    and for the terms / the all-terms candidate conjunction of phrase and match leaves.
//	    A=0 the first entry >= lb (the next match / look-ahead candidate after the current
//	    position), A=1 the entry after that, A=2 the last entry, A=3 the first entry (when >= lb)
type Op struct {
	K string `json:"k"` // "N" | "A"
	M int    `json:"m,omitempty"`
	A int    `json:"a,omitempty"`
	L int    `json:"l,omitempty"`
}

type In struct {
	Kind   string `json:"kind"` // tree | tfr | did | una | contract
	Corpus Corpus `json:"corpus"`
	Q      *Q     `json:"q"`
	Score  string `json:"score,omitempty"`
	Prog   []Op   `json:"prog"`
}

var vocab = []string{"xa", "xab", "xb", "xbc", "ya", "yb", "zc", "zd", "ze", "zf", "zg", "zh", "zi"}
var words = []string{"red", "green", "blue", "fast", "slow", "cat"}

// ---------------------------------------------------------------- index cache

type built struct {
	idx    bleve.Index
	rd     index.IndexReader
	m      mapping.IndexMapping
	path   string
	offs   []int64 // scorch: segment offsets; nil for upsidedown
	sizes  []int64
	ndel   int
	ref    int
	engine string
	err    error
	ready  chan struct{}
	ids    [][]byte // external id of document number k (nil: "d%03d")
	// upsidedown with an id table: every byte string the programs may mention (the external ids
	// and byte strings between / before / after them), sorted with bytes.Compare.  The numeric id
	// handed to Coq is the index in this table; Coq re-checks that the table is strictly ascending.
	keys [][]byte
}

func (b *built) name(k int) string {
	if k >= 0 && k < len(b.ids) {
		return string(b.ids[k])
	}
	return docID(k)
}

// keyTable: the external ids plus, around each id that some batch of the corpus mentions, its
// immediate successor (id+0x00, also a longer string with the id as a proper prefix), its longest
// proper prefix, and a string just below it with 0xff bytes (last byte - 1, then 0xff 0xff); the
// empty string; two strings above everything.
func keyTable(ids [][]byte, present map[int]bool) [][]byte {
	var ks [][]byte
	add := func(b []byte) { ks = append(ks, append([]byte{}, b...)) }
	add(nil)
	top := []byte{0xff, 0xff, 0xff, 0xff, 0xff, 0xff}
	for _, id := range ids {
		if len(id) >= len(top) {
			top = append(bytes.Repeat([]byte{0xff}, len(id)), 0xff)
		}
	}
	add(top)
	add(append(append([]byte{}, top...), 0x00))
	for k, id := range ids {
		add(id)
		if !present[k] {
			continue
		}
		add(append(append([]byte{}, id...), 0x00))
		if len(id) > 1 {
			add(id[:len(id)-1])
		}
		if n := len(id); n > 0 && id[n-1] > 0 {
			p := append([]byte{}, id...)
			p[n-1]--
			add(append(p, 0xff, 0xff))
		}
	}
	sort.Slice(ks, func(i, j int) bool { return bytes.Compare(ks[i], ks[j]) < 0 })
	out := ks[:0]
	for i, k := range ks {
		if i == 0 || !bytes.Equal(k, ks[i-1]) {
			out = append(out, k)
		}
	}
	return out
}

var (
	cacheMu sync.Mutex
	cache   = map[string]*built{}
	dirSeq  int
)

func buildMapping() mapping.IndexMapping {
	m := bleve.NewIndexMapping()
	dm := bleve.NewDocumentMapping()
	f := bleve.NewTextFieldMapping()
	f.Analyzer = "keyword"
	f.IncludeTermVectors = false // lets zapx use the 1-hit postings encoding in merged segments
	dm.AddFieldMappingsAt("f", f)
	t := bleve.NewTextFieldMapping()
	t.Analyzer = "standard"
	dm.AddFieldMappingsAt("t", t)
	dm.AddFieldMappingsAt("n", bleve.NewNumericFieldMapping())
	dm.AddFieldMappingsAt("g", bleve.NewGeoPointFieldMapping())
	m.DefaultMapping = dm
	return m
}

func docID(k int) string { return fmt.Sprintf("d%03d", k) }

func acquire(c Corpus) (*built, error) {
	js, _ := json.Marshal(c)
	h := sha1.Sum(js)
	key := hex.EncodeToString(h[:])
	cacheMu.Lock()
	b, ok := cache[key]
	if ok {
		b.ref++
		cacheMu.Unlock()
		<-b.ready
		return b, b.err
	}
	b = &built{ref: 1, ready: make(chan struct{}), engine: c.Engine}
	cache[key] = b
	// evict idle entries beyond a small working set
	if len(cache) > 24 {
		for k, e := range cache {
			if e.ref == 0 && k != key {
				select {
				case <-e.ready:
					e.close()
					delete(cache, k)
				default:
				}
			}
			if len(cache) <= 16 {
				break
			}
		}
	}
	dirSeq++
	seq := dirSeq
	cacheMu.Unlock()
	b.err = b.build(c, seq)
	close(b.ready)
	return b, b.err
}

func release(b *built) {
	cacheMu.Lock()
	b.ref--
	cacheMu.Unlock()
}

func (b *built) close() {
	if b.rd != nil {
		_ = b.rd.Close()
	}
	if b.idx != nil {
		_ = b.idx.Close()
	}
	if b.path != "" {
		_ = os.RemoveAll(b.path)
	}
}

func closeAll() {
	cacheMu.Lock()
	defer cacheMu.Unlock()
	for k, e := range cache {
		select {
		case <-e.ready:
			e.close()
		default:
		}
		delete(cache, k)
	}
}

func (b *built) build(c Corpus, seq int) error {
	b.m = buildMapping()
	var err error
	for _, h := range c.IDs {
		id, herr := hex.DecodeString(h)
		if herr != nil || len(id) == 0 {
			return fmt.Errorf("bad id table entry %q", h)
		}
		b.ids = append(b.ids, id)
	}
	if c.Engine == "upsidedown" && len(b.ids) > 0 {
		present := map[int]bool{}
		for _, batch := range c.Batches {
			for _, op := range batch {
				present[op.ID] = true
			}
		}
		b.keys = keyTable(b.ids, present)
	}
	switch c.Engine {
	case "upsidedown":
		switch c.KV {
		case "boltdb":
			b.path = fmt.Sprintf("/tmp/vh_c08_%d_%d", os.Getpid(), seq)
			_ = os.RemoveAll(b.path)
			b.idx, err = bleve.NewUsing(b.path, b.m, upsidedown.Name, boltdb.Name, nil)
		case "moss":
			b.idx, err = bleve.NewUsing("", b.m, upsidedown.Name, moss.Name, nil)
		default:
			b.idx, err = bleve.NewUsing("", b.m, upsidedown.Name, gtreap.Name, nil)
		}
	case "scorch-disk":
		b.path = fmt.Sprintf("/tmp/vh_c08_%d_%d", os.Getpid(), seq)
		_ = os.RemoveAll(b.path)
		b.idx, err = bleve.NewUsing(b.path, b.m, scorch.Name, scorch.Name, nil)
	default:
		b.idx, err = bleve.NewUsing("", b.m, scorch.Name, scorch.Name, nil)
	}
	if err != nil {
		b.idx = nil
		return err
	}
	for bi, batch := range c.Batches {
		bt := b.idx.NewBatch()
		for _, op := range batch {
			if op.Del {
				bt.Delete(b.name(op.ID))
				continue
			}
			doc := map[string]interface{}{}
			var fs []interface{}
			for _, w := range op.F {
				fs = append(fs, vocab[w%len(vocab)])
			}
			if len(fs) > 0 {
				doc["f"] = fs
			}
			var ts []string
			for _, w := range op.T {
				ts = append(ts, words[w%len(words)])
			}
			if len(ts) > 0 {
				doc["t"] = strings.Join(ts, " ")
			}
			doc["n"] = op.N
			if len(op.G) == 2 {
				doc["g"] = map[string]interface{}{"lon": op.G[0], "lat": op.G[1]}
			}
			if err := bt.Index(b.name(op.ID), doc); err != nil {
				return err
			}
		}
		if err := b.idx.Batch(bt); err != nil {
			return err
		}
		if c.Engine == "scorch-disk" && c.MergeAfter > 0 && bi+1 == c.MergeAfter {
			forceMerge(b.idx)
		}
	}
	adv, err := b.idx.Advanced()
	if err != nil {
		return err
	}
	b.rd, err = adv.Reader()
	if err != nil {
		return err
	}
	if is, ok := b.rd.(*scorch.IndexSnapshot); ok {
		var run int64
		for _, seg := range is.Segments() {
			b.offs = append(b.offs, run)
			b.sizes = append(b.sizes, seg.FullSize())
			run += seg.FullSize()
			if d := seg.Deleted(); d != nil {
				b.ndel += int(d.GetCardinality())
			}
		}
	}
	return nil
}

// forceMerge waits (bounded) until the persister has written the in-memory segments, then asks
// the merger for a single-segment merge.
func forceMerge(idx bleve.Index) {
	adv, err := idx.Advanced()
	if err != nil {
		return
	}
	sc, ok := adv.(*scorch.Scorch)
	if !ok {
		return
	}
	for i := 0; i < 100; i++ {
		if n, ok := sc.StatsMap()["TotMemorySegmentsAtRoot"].(uint64); ok && n == 0 {
			break
		}
		time.Sleep(20 * time.Millisecond)
	}
	ctx, cancel := context.WithTimeout(context.Background(), 20*time.Second)
	_ = sc.ForceMerge(ctx, nil)
	cancel()
}

// ---------------------------------------------------------------- ids

func (b *built) idOf(d index.IndexInternalID) (int64, error) {
	if b.keys != nil {
		i := sort.Search(len(b.keys), func(i int) bool { return bytes.Compare(b.keys[i], d) >= 0 })
		if i == len(b.keys) || !bytes.Equal(b.keys[i], d) {
			return 0, fmt.Errorf("internal id %q is not in the key table", []byte(d))
		}
		return int64(i), nil
	}
	if b.engine == "upsidedown" {
		var k int64
		if len(d) != 4 || d[0] != 'd' {
			return 0, fmt.Errorf("unexpected internal id %q", []byte(d))
		}
		if _, err := fmt.Sscanf(string(d[1:]), "%d", &k); err != nil {
			return 0, err
		}
		return k, nil
	}
	if len(d) != 8 {
		return 0, fmt.Errorf("internal id of length %d", len(d))
	}
	return int64(d.Value()), nil
}

func (b *built) target(k int64) index.IndexInternalID {
	if k < 0 {
		k = 0
	}
	if b.keys != nil {
		if k >= int64(len(b.keys)) {
			k = int64(len(b.keys)) - 1
		}
		return index.IndexInternalID(b.keys[k])
	}
	if b.engine == "upsidedown" {
		if k > 999 {
			k = 999
		}
		return index.IndexInternalID(docID(int(k)))
	}
	return index.NewIndexInternalID(nil, uint64(k))
}

// ---------------------------------------------------------------- queries

func tq(term string) query.Query {
	q := bleve.NewTermQuery(term)
	q.SetField("f")
	return q
}

func (q *Q) build(name func(int) string) query.Query {
	switch q.K {
	case "term":
		return tq(vocab[q.Term%len(vocab)])
	case "conj":
		qs := make([]query.Query, len(q.Kids))
		for i, k := range q.Kids {
			qs[i] = k.build(name)
		}
		return bleve.NewConjunctionQuery(qs...)
	case "disj":
		qs := make([]query.Query, len(q.Kids))
		for i, k := range q.Kids {
			qs[i] = k.build(name)
		}
		d := bleve.NewDisjunctionQuery(qs...)
		d.SetMin(q.minF())
		return d
	case "bool":
		bq := bleve.NewBooleanQuery()
		for _, k := range q.Must {
			bq.AddMust(k.build(name))
		}
		for _, k := range q.Should {
			bq.AddShould(k.build(name))
		}
		for _, k := range q.MustNot {
			bq.AddMustNot(k.build(name))
		}
		if len(q.Should) > 0 {
			bq.SetMinShould(q.minShouldF())
		}
		if q.Filter != nil {
			bq.AddFilter(q.Filter.build(name))
		}
		return bq
	case "docids":
		ids := make([]string, len(q.IDs))
		for i, k := range q.IDs {
			ids[i] = name(k)
		}
		return bleve.NewDocIDQuery(ids)
	case "all":
		return bleve.NewMatchAllQuery()
	case "none":
		return bleve.NewMatchNoneQuery()
	case "prefix":
		p := bleve.NewPrefixQuery(q.Str)
		p.SetField("f")
		return p
	case "fuzzy":
		f := bleve.NewFuzzyQuery(q.Str)
		f.SetFuzziness(1)
		f.SetField("f")
		return f
	case "regexp":
		r := bleve.NewRegexpQuery(q.Str)
		r.SetField("f")
		return r
	case "wildcard":
		w := bleve.NewWildcardQuery(q.Str)
		w.SetField("f")
		return w
	case "termrange":
		t := bleve.NewTermRangeQuery("xab", "z")
		t.SetField("f")
		return t
	case "phrase":
		p := bleve.NewMatchPhraseQuery(q.Str)
		p.SetField("t")
		return p
	case "mphrase":
		var slots [][]string
		for _, sl := range q.Slots {
			var ws []string
			for _, w := range sl {
				ws = append(ws, words[w%len(words)])
			}
			slots = append(slots, ws)
		}
		return query.NewMultiPhraseQuery(slots, "t")
	case "match":
		p := bleve.NewMatchQuery(q.Str)
		p.SetField("t")
		return p
	case "numrange":
		lo, hi := q.Lo, q.Hi
		n := bleve.NewNumericRangeQuery(&lo, &hi)
		n.SetField("n")
		return n
	case "geobox":
		g := bleve.NewGeoBoundingBoxQuery(q.Lo, q.Hi, q.Lo+4, q.Hi-4)
		g.SetField("g")
		return g
	case "geodist":
		g := bleve.NewGeoDistanceQuery(q.Lo, q.Hi, "300km")
		g.SetField("g")
		return g
	}
	return bleve.NewMatchNoneQuery()
}

type sctx struct {
	b    *built
	opts search.SearcherOptions
}

func (c sctx) searcher(q query.Query) (search.Searcher, *search.SearchContext, error) {
	s, err := q.Searcher(context.Background(), c.b.rd, c.b.m, c.opts)
	if err != nil {
		return nil, nil, err
	}
	return s, &search.SearchContext{DocumentMatchPool: search.NewDocumentMatchPool(s.DocumentMatchPoolSize()+16, 0)}, nil
}

// enumerate: Next-only ids of a fresh searcher for q.
func (c sctx) enumerate(q query.Query) ([]int64, string, int, error) {
	s, ctx, err := c.searcher(q)
	if err != nil {
		return nil, "", 0, err
	}
	defer s.Close()
	var out []int64
	for len(out) < 100000 {
		d, err := s.Next(ctx)
		if err != nil {
			return nil, "", 0, err
		}
		if d == nil {
			break
		}
		id, err := c.b.idOf(d.IndexInternalID)
		if err != nil {
			return nil, "", 0, err
		}
		out = append(out, id)
	}
	return out, fmt.Sprintf("%T", s), s.Min(), nil
}

func zlist(xs []int64) cf.T { return cf.ListOf(xs, func(x int64) cf.T { return cf.Z(x) }) }

type desc struct {
	c       sctx
	leaves  [][]int64 // every leaf list handed to the model
	classes map[string]bool
	types   map[string]bool
}

func optTree(t cf.T, present bool) cf.T {
	if !present {
		return cf.None
	}
	return cf.Some(t)
}

func (d *desc) leaf(q query.Query) (cf.T, error) {
	l, tn, _, err := d.c.enumerate(q)
	if err != nil {
		return "", err
	}
	d.leaves = append(d.leaves, l)
	d.types["leaf:"+tn] = true
	return cf.App("Leaf", zlist(l)), nil
}

// describe returns the Coq stree of the searcher the query package builds for q, read off the
// concrete searcher types; anything that is not a modelled compound becomes a Leaf holding its
// own Next-only enumeration.
func (d *desc) describe(q *Q) (cf.T, error) {
	bq := q.build(d.c.b.name)
	s, _, err := d.c.searcher(bq)
	if err != nil {
		return "", err
	}
	tn := fmt.Sprintf("%T", s)
	_ = s.Close()
	d.types[tn] = true
	kids := func(qs []*Q) (cf.T, error) {
		ts := make([]cf.T, len(qs))
		for i, k := range qs {
			t, err := d.describe(k)
			if err != nil {
				return "", err
			}
			ts[i] = t
		}
		return cf.List(ts), nil
	}
	switch {
	case q.K == "conj" && tn == "*searcher.ConjunctionSearcher":
		ks, err := kids(q.Kids)
		if err != nil {
			return "", err
		}
		return cf.App("Conj", ks), nil
	case q.K == "disj" && tn == "*searcher.DisjunctionSliceSearcher":
		ks, err := kids(q.Kids)
		if err != nil {
			return "", err
		}
		return cf.App("DisjS", cf.Int(int(q.minF())), ks), nil
	case q.K == "disj" && tn == "*searcher.DisjunctionHeapSearcher":
		ks, err := kids(q.Kids)
		if err != nil {
			return "", err
		}
		return cf.App("DisjH", cf.Int(int(q.minF())), ks), nil
	case q.K == "bool" && tn == "*searcher.FilteringSearcher" && q.Filter != nil:
		inner := *q
		inner.Filter = nil
		var child cf.T
		if len(q.Must) == 0 && len(q.Should) == 0 && len(q.MustNot) == 0 {
			child, err = d.leaf(bleve.NewMatchAllQuery())
		} else {
			child, err = d.describe(&inner)
		}
		if err != nil {
			return "", err
		}
		fd := &desc{c: sctx{b: d.c.b, opts: search.SearcherOptions{Score: "none"}}, classes: d.classes, types: d.types}
		ft, err := fd.describe(q.Filter)
		if err != nil {
			return "", err
		}
		d.leaves = append(d.leaves, fd.leaves...)
		return cf.App("Filter", child, ft), nil
	case q.K == "bool" && tn == "*searcher.BooleanSearcher" && q.Filter == nil:
		clause := func(k string, qs []*Q, min int, negHalf bool) (cf.T, bool, int, error) {
			if len(qs) == 0 {
				return "", false, 0, nil
			}
			sub := &Q{K: k, Kids: qs, Min: min, NegHalf: negHalf}
			ss, _, err := d.c.searcher(sub.build(d.c.b.name))
			if err != nil {
				return "", false, 0, err
			}
			stn := fmt.Sprintf("%T", ss)
			smin := ss.Min()
			_ = ss.Close()
			if stn == "*searcher.MatchNoneSearcher" {
				return "", false, 0, nil
			}
			t, err := d.describe(sub)
			return t, true, smin, err
		}
		mt, mok, _, err := clause("conj", q.Must, 0, false)
		if err != nil {
			return "", err
		}
		st, sok, smin, err := clause("disj", q.Should, q.MinShould, q.ShouldNegHalf)
		if err != nil {
			return "", err
		}
		nt, nok, _, err := clause("disj", q.MustNot, 0, false)
		if err != nil {
			return "", err
		}
		if !mok && !sok && nok {
			mt, err = d.leaf(bleve.NewMatchAllQuery())
			if err != nil {
				return "", err
			}
			mok = true
		}
		if mok && sok && smin > 0 {
			d.classes["boolean-should-advance"] = true
		}
		// a should clause the query package replaced by one opaque searcher that still reports
		// Min() = 1 (score "none": a term-only disjunction with min 1 becomes a TermSearcher over
		// the OR-ed bitmaps and keeps its minimum).  A Leaf has Min() = 0 in the model, so it is
		// described as what it stands for: a disjunction with min 1 over that one posting list.
		// Any other opaque should clause with a non-zero minimum makes the whole node a leaf.
		// (Min() <= 0, e.g. -1 from a negative minimum, means "optional" like the Leaf's 0.)
		if sok && smin > 0 && strings.HasPrefix(string(st), "(Leaf") {
			if smin != 1 {
				return d.leaf(bq)
			}
			st = cf.App("DisjS", cf.Int(1), cf.List([]cf.T{st}))
			d.types["should:opaque-with-min-1"] = true
		}
		return cf.App("Bool", "false", optTree(mt, mok), optTree(st, sok), optTree(nt, nok)), nil
	case q.K == "bool" && q.Filter == nil && len(q.Must) > 0 && len(q.Should) == 0 && len(q.MustNot) == 0:
		return d.describe(&Q{K: "conj", Kids: q.Must})
	case q.K == "bool" && q.Filter == nil && len(q.Must) == 0 && len(q.Should) > 0 && len(q.MustNot) == 0:
		return d.describe(&Q{K: "disj", Kids: q.Should, Min: q.MinShould, NegHalf: q.ShouldNegHalf})
	}
	return d.leaf(bq)
}

// ---------------------------------------------------------------- programs

type runEnv struct {
	b     *built
	cands []int64 // sorted candidate ids (all leaf ids and all points of interest)
	maxID int64
	lists [][]int64      // points of interest (non-empty, each ascending); lists[0]: the query's own matches when it has any
	root  map[int64]bool // the ids of the query's own Next-only enumeration
}

// poi collects the "points of interest" for Advance targets: the Next-only enumeration of a real
// searcher for q and, recursively, for each of its subtrees; for phrase / multi-phrase / match
// leaves also the enumeration of every term and of the conjunction of all phrase positions (the
// phrase searcher's pre-condition searcher, whose next hit is its look-ahead candidate).  All
// lists are produced by real searchers; they only steer where programs aim, never what is expected.
func (c sctx) poi(q *Q, add func([]int64)) error {
	l, _, _, err := c.enumerate(q.build(c.b.name))
	if err != nil {
		return err
	}
	add(l)
	sub := func(qs ...*Q) error {
		for _, k := range qs {
			if k == nil {
				continue
			}
			if err := c.poi(k, add); err != nil {
				return err
			}
		}
		return nil
	}
	var slots [][]string
	switch q.K {
	case "conj", "disj":
		return sub(q.Kids...)
	case "bool":
		if err := sub(q.Must...); err != nil {
			return err
		}
		if err := sub(q.Should...); err != nil {
			return err
		}
		if err := sub(q.MustNot...); err != nil {
			return err
		}
		return sub(q.Filter)
	case "phrase", "match":
		for _, w := range strings.Fields(q.Str) {
			slots = append(slots, []string{w})
		}
	case "mphrase":
		for _, sl := range q.Slots {
			var ws []string
			for _, w := range sl {
				ws = append(ws, words[w%len(words)])
			}
			slots = append(slots, ws)
		}
	default:
		return nil
	}
	wt := func(w string) query.Query {
		t := bleve.NewTermQuery(w)
		t.SetField("t")
		return t
	}
	var all []query.Query
	seen := map[string]bool{}
	for _, sl := range slots {
		var alts []query.Query
		for _, w := range sl {
			alts = append(alts, wt(w))
			if !seen[w] {
				seen[w] = true
				l, _, _, err := c.enumerate(wt(w))
				if err != nil {
					return err
				}
				add(l)
			}
		}
		if len(alts) == 1 {
			all = append(all, alts[0])
		} else if len(alts) > 1 {
			all = append(all, bleve.NewDisjunctionQuery(alts...))
		}
	}
	if len(all) > 0 {
		l, _, _, err := c.enumerate(bleve.NewConjunctionQuery(all...))
		if err != nil {
			return err
		}
		add(l)
	}
	return nil
}

func (e *runEnv) resolve(op Op, last, wm int64) int64 {
	lb := last + 1
	if wm > lb {
		lb = wm
	}
	if lb < 0 {
		lb = 0
	}
	a := int64(op.A)
	if a < 0 {
		a = -a
	}
	pick := func() (int64, bool) {
		i := sort.Search(len(e.cands), func(i int) bool { return e.cands[i] >= lb })
		n := len(e.cands) - i
		if n <= 0 {
			return 0, false
		}
		return e.cands[i+int(a)%n], true
	}
	switch op.M {
	case 1:
		if c, ok := pick(); ok {
			return c
		}
	case 2:
		if c, ok := pick(); ok {
			return c + 1
		}
	case 3:
		if c, ok := pick(); ok && c-1 >= lb {
			return c - 1
		}
	case 4:
		var bs []int64
		for _, o := range e.b.offs {
			for _, x := range []int64{o - 1, o, o + 1} {
				if x >= lb {
					bs = append(bs, x)
				}
			}
		}
		if len(bs) > 0 {
			return bs[int(a)%len(bs)]
		}
	case 5:
		return int64(op.A)
	case 6:
		t := e.maxID + 1 + a%3
		if t >= lb {
			return t
		}
	case 7:
		if len(e.lists) == 0 {
			break
		}
		l := e.lists[op.L%len(e.lists)]
		i := sort.Search(len(l), func(i int) bool { return l[i] >= lb })
		if i == len(l) {
			break
		}
		switch ((op.A % 4) + 4) % 4 {
		case 1:
			if i+1 < len(l) {
				return l[i+1]
			}
		case 2:
			return l[len(l)-1]
		case 3:
			if l[0] >= lb {
				return l[0]
			}
		}
		return l[i]
	}
	return lb + a%7
}

// clip keeps a target inside the id space the case can name (the key table of a keyed index
// ends with two strings above every document id)
func (b *built) clip(t int64) int64 {
	if b.keys != nil && t >= int64(len(b.keys)) {
		return int64(len(b.keys)) - 1
	}
	return t
}

// run executes prog on a fresh searcher for q; returns the Coq program and result lists.
func (e *runEnv) run(c sctx, q query.Query, prog []Op) (cf.T, cf.T, []string, int, *vh.Direct) {
	var calls, ress []cf.T
	var hist []string
	nret := 0
	d := vh.Guard(30*time.Second, "Next/Advance program", func() {
		s, ctx, err := c.searcher(q)
		if err != nil {
			panic(err)
		}
		defer s.Close()
		last, wm := int64(-1), int64(-1)
		exhausted := false
		for i, op := range prog {
			var dm *search.DocumentMatch
			if op.K == "N" {
				calls = append(calls, "Next")
				dm, err = s.Next(ctx)
				if exhausted {
					hist = append(hist, "prog:next-after-exhaustion")
				}
			} else {
				t := e.b.clip(e.resolve(op, last, wm))
				calls = append(calls, cf.App("Advance", cf.Z(t)))
				if e.root[t] {
					hist = append(hist, "target:a-match-of-the-query")
				} else {
					hist = append(hist, "target:not-a-match")
				}
				if op.M == 7 && len(e.lists) > 0 {
					hist = append(hist, []string{"target:poi-next", "target:poi-second-next", "target:poi-last", "target:poi-first"}[((op.A%4)+4)%4])
				}
				dm, err = s.Advance(ctx, e.b.target(t))
				wm = t
				switch {
				case i == 0:
					hist = append(hist, "prog:advance-first")
				case exhausted:
					hist = append(hist, "prog:advance-after-exhaustion")
				}
				if t > e.maxID {
					hist = append(hist, "prog:advance-beyond-last")
				}
				if op.M == 4 {
					hist = append(hist, "prog:advance-segment-boundary")
				}
			}
			if err != nil {
				panic(fmt.Sprintf("searcher error: %v", err))
			}
			if dm == nil {
				ress = append(ress, cf.None)
				exhausted = true
				continue
			}
			id, err := e.b.idOf(dm.IndexInternalID)
			if err != nil {
				panic(err)
			}
			ress = append(ress, cf.Some(cf.Z(id)))
			last = id
			nret++
			ctx.DocumentMatchPool.Put(dm)
		}
	})
	return cf.List(calls), cf.List(ress), hist, nret, d
}

// idShape: histogram bucket of the external-id alphabet
func idShape(ids [][]byte) string {
	if len(ids) == 0 {
		return "fixed-length(d%03d)"
	}
	lens := map[int]bool{}
	bin := false
	for _, id := range ids {
		lens[len(id)] = true
		for _, c := range id {
			if c < 0x20 || c >= 0x7f {
				bin = true
			}
		}
	}
	s := "one-length"
	if len(lens) > 1 {
		s = "varying-length"
	}
	if bin {
		s += "+bytes-0x00/high"
	}
	return s
}

func splitSegments(b *built, global []int64) []cf.T {
	segs := make([][]int64, len(b.offs))
	for _, g := range global {
		j := sort.Search(len(b.offs), func(x int) bool { return b.offs[x] > g }) - 1
		if j >= 0 {
			segs[j] = append(segs[j], g-b.offs[j])
		}
	}
	out := make([]cf.T, len(segs))
	for i, s := range segs {
		out[i] = zlist(s)
	}
	return out
}

func hasAdvance(p []Op) bool {
	for _, o := range p {
		if o.K == "A" {
			return true
		}
	}
	return false
}

func exec(in In) vh.Result {
	b, err := acquire(in.Corpus)
	if err != nil {
		return vh.Result{Direct: &vh.Direct{Kind: "error", Detail: "index build: " + err.Error()}}
	}
	defer release(b)
	c := sctx{b: b, opts: search.SearcherOptions{Score: in.Score}}
	bq := in.Q.build(b.name)
	hist := []string{"kind:" + in.Kind, "engine:" + in.Corpus.Engine, "score:" + in.Score + "."}
	if in.Corpus.Engine == "upsidedown" {
		kv := in.Corpus.KV
		if kv == "" {
			kv = "gtreap"
		}
		hist = append(hist, "kv:"+kv)
	}
	hist = append(hist, "ids:"+idShape(b.ids))
	if b.offs != nil {
		hist = append(hist, fmt.Sprintf("segments:%d", min(len(b.offs), 6)))
		if b.ndel > 0 {
			hist = append(hist, "deletions:yes")
		} else {
			hist = append(hist, "deletions:no")
		}
	}
	fail := func(e error) vh.Result {
		return vh.Result{Direct: &vh.Direct{Kind: "error", Detail: e.Error()}}
	}
	var enum []int64
	var rootType string
	var res vh.Result
	if dd := vh.Guard(30*time.Second, "Next-only enumeration", func() {
		enum, rootType, _, err = c.enumerate(bq)
	}); dd != nil {
		return vh.Result{Direct: dd}
	}
	if err != nil {
		return fail(err)
	}
	hist = append(hist, "root:"+rootType)
	env := &runEnv{b: b, maxID: -1}
	class := ""
	var caseOf func(prog, ress cf.T) cf.T
	switch in.Kind {
	case "tree":
		d := &desc{c: c, classes: map[string]bool{}, types: map[string]bool{}}
		var tree cf.T
		if dd := vh.Guard(60*time.Second, "describe", func() { tree, err = d.describe(in.Q) }); dd != nil {
			return vh.Result{Direct: dd}
		}
		if err != nil {
			return fail(err)
		}
		for _, l := range d.leaves {
			env.cands = append(env.cands, l...)
		}
		for t := range d.types {
			hist = append(hist, "node:"+t)
		}
		if d.classes["boolean-should-advance"] && hasAdvance(in.Prog) {
			class = "boolean-should-advance"
		}
		caseOf = func(prog, ress cf.T) cf.T { return cf.App("CTree", tree, zlist(enum), prog, ress) }
	case "tfr", "did":
		if b.offs == nil {
			return vh.Result{Skip: true}
		}
		env.cands = append(env.cands, enum...)
		segs := cf.List(splitSegments(b, enum))
		offs := zlist(b.offs)
		ctor := map[string]string{"tfr": "CTfr", "did": "CDid"}[in.Kind]
		caseOf = func(prog, ress cf.T) cf.T { return cf.App(ctor, segs, offs, prog, ress) }
	case "una":
		if b.offs == nil || rootType != "*searcher.TermSearcher" || (in.Q.K != "conj" && in.Q.K != "disj") {
			return vh.Result{Skip: true}
		}
		var leaves []cf.T
		for _, k := range in.Q.Kids {
			l, _, _, err := c.enumerate(k.build(b.name))
			if err != nil {
				return fail(err)
			}
			env.cands = append(env.cands, l...)
			leaves = append(leaves, cf.List(splitSegments(b, l)))
		}
		offs := zlist(b.offs)
		caseOf = func(prog, ress cf.T) cf.T {
			return cf.App("CUna", cf.Bool(in.Q.K == "conj"), cf.List(leaves), offs, prog, ress)
		}
	default: // contract
		env.cands = append(env.cands, enum...)
		caseOf = func(prog, ress cf.T) cf.T { return cf.App("CContract", zlist(enum), prog, ress) }
	}
	// points of interest for Advance targets
	env.root = map[int64]bool{}
	for _, x := range enum {
		env.root[x] = true
	}
	if dd := vh.Guard(60*time.Second, "points of interest", func() {
		err = c.poi(in.Q, func(l []int64) {
			if len(l) > 0 {
				env.lists = append(env.lists, l)
				env.cands = append(env.cands, l...)
			}
		})
	}); dd != nil {
		return vh.Result{Direct: dd}
	}
	if err != nil {
		return fail(err)
	}
	if b.keys != nil {
		inner := caseOf
		// one number per key: the bytes in base 256 under a leading 1 (MachCorr.key_num)
		keys := cf.ListOf(b.keys, func(k []byte) cf.T {
			return cf.T(new(big.Int).SetBytes(append([]byte{1}, k...)).String())
		})
		caseOf = func(prog, ress cf.T) cf.T { return cf.App("CKeyed", keys, inner(prog, ress)) }
	}
	sort.Slice(env.cands, func(i, j int) bool { return env.cands[i] < env.cands[j] })
	for _, x := range env.cands {
		if x > env.maxID {
			env.maxID = x
		}
	}
	if b.offs != nil && len(b.offs) > 0 {
		if t := b.offs[len(b.offs)-1] + b.sizes[len(b.sizes)-1] - 1; t > env.maxID {
			env.maxID = t
		}
	}
	prog, ress, ph, nret, dd := env.run(c, bq, in.Prog)
	if dd != nil {
		cl := class
		if b.offs != nil && len(b.offs) == 0 && strings.Contains(dd.Detail, "index out of range [-1]") {
			cl = "tfr-advance-no-segments"
		}
		return vh.Result{Direct: dd, Class: cl}
	}
	hist = append(hist, ph...)
	res = vh.Result{Term: caseOf(prog, ress), Class: class, Hist: hist,
		Nontrivial: hasAdvance(in.Prog) && nret > 0}
	return res
}

// ---------------------------------------------------------------- generation

// genIDs: an external-id table for document numbers 0..n-1.
//
//	num: a prefix and an unpadded number (a1 a10 a11 a2 ...): different lengths, bytewise order
//	     differs from numeric order
//	var: strings of 1-4 bytes over a small alphabet with 0x00, 0x01, 0x7f, 0x80, 0xfe, grown so
//	     that many ids are proper prefixes of other ids
func genIDs(r *vrand.R, scheme string, n int) []string {
	seen := map[string]bool{}
	var out []string
	put := func(id []byte) bool {
		if len(id) == 0 || seen[string(id)] {
			return false
		}
		seen[string(id)] = true
		out = append(out, hex.EncodeToString(id))
		return true
	}
	switch scheme {
	case "num":
		var pool []int
		for k := 0; k <= 12; k++ {
			pool = append(pool, k)
		}
		for k := 95; k <= 135; k++ {
			pool = append(pool, k)
		}
		if r.Bool() {
			for k := 1000; k <= 1003; k++ {
				pool = append(pool, k)
			}
		}
		vrand.Shuffle(r, pool)
		pre := vrand.Pick(r, []string{"a", "doc-", "7"})
		for _, k := range pool {
			if len(out) < n {
				put([]byte(fmt.Sprintf("%s%d", pre, k)))
			}
		}
	default:
		alpha := []byte{'a', 'a', 'b', 'c', '0', '1', 0x00, 0x00, 0x01, 0x7f, 0x80, 0xfe}
		var made [][]byte
		for len(out) < n {
			var id []byte
			if len(made) > 0 && r.Chance(3, 5) {
				base := made[r.Intn(len(made))]
				if len(base) < 4 {
					id = append(append([]byte{}, base...), alpha[r.Intn(len(alpha))])
				}
			}
			if id == nil {
				for k := r.Range(1, 3); k > 0; k-- {
					id = append(id, alpha[r.Intn(len(alpha))])
				}
			}
			if put(id) {
				made = append(made, id)
			}
		}
	}
	return out
}

const idUniverse = 48 // document numbers a query may mention (doc-id queries name up to 45)

// genCorpus: engine is scorch-mem | scorch-disk | upsidedown | upsidedown/boltdb | upsidedown/moss;
// ids is "" (d%03d) | num | var (on scorch the external ids only reach the doc-id searcher, on
// upsidedown they ARE the internal ids)
func genCorpus(r *vrand.R, engine, ids string, ndocs int) Corpus {
	c := Corpus{Engine: engine}
	if i := strings.Index(engine, "/"); i >= 0 {
		c.Engine, c.KV = engine[:i], engine[i+1:]
	}
	engine = c.Engine
	if ids != "" {
		c.IDs = genIDs(r, ids, idUniverse)
	}
	nb := r.Range(2, 6)
	if engine == "scorch-disk" {
		nb = r.Range(3, 6)
	}
	if ndocs <= 6 {
		nb = r.Range(1, 3)
	}
	// per-word densities
	dens := make([]int, len(vocab))
	for i := range dens {
		dens[i] = r.Range(1, 9)
	}
	// the last three words are rare: each occurs in one or two documents only
	rare := map[int][]int{}
	for w := len(vocab) - 3; w < len(vocab); w++ {
		dens[w] = 0
		for k := r.Range(1, 2); k > 0; k-- {
			d := r.Intn(ndocs)
			rare[d] = append(rare[d], w)
		}
	}
	mk := func(id int) DocOp {
		op := DocOp{ID: id, N: float64(r.Range(0, 9))}
		for w := range vocab {
			if r.Chance(dens[w], 10) {
				op.F = append(op.F, w)
			}
		}
		op.F = append(op.F, rare[id]...)
		for k := r.Range(0, 8); k > 0; k-- {
			op.T = append(op.T, r.Intn(len(words)))
		}
		op.G = []float64{float64(r.Range(-8, 8)), float64(r.Range(-8, 8))}
		return op
	}
	next := 0
	for bi := 0; bi < nb; bi++ {
		var batch []DocOp
		n := ndocs/nb + r.Range(0, 2)
		for k := 0; k < n && next < ndocs; k++ {
			batch = append(batch, mk(next))
			next++
		}
		// updates and deletes of earlier docs
		if bi > 0 {
			for k := r.Range(0, 3); k > 0 && next > 0; k-- {
				id := r.Intn(next)
				if r.Chance(1, 2) {
					batch = append(batch, DocOp{ID: id, Del: true})
				} else {
					batch = append(batch, mk(id))
				}
			}
		}
		c.Batches = append(c.Batches, batch)
	}
	if engine == "scorch-disk" && len(c.Batches) >= 3 {
		c.MergeAfter = r.Range(2, len(c.Batches)-1)
	}
	return c
}

func termQ(r *vrand.R) *Q { return &Q{K: "term", Term: r.Intn(len(vocab))} }

// phraseQ: a phrase-family leaf on the text field: match-phrase of 2-3 words (PhraseSearcher),
// or a multi-phrase with alternatives at some position
func phraseQ(r *vrand.R) *Q {
	w := func() int { return r.Intn(len(words)) }
	if r.Chance(1, 3) {
		q := &Q{K: "mphrase"}
		for k := r.Range(2, 3); k > 0; k-- {
			sl := []int{w()}
			if r.Chance(1, 2) {
				sl = append(sl, w())
			}
			q.Slots = append(q.Slots, sl)
		}
		return q
	}
	str := words[w()] + " " + words[w()]
	if r.Chance(1, 5) {
		str += " " + words[w()]
	}
	return &Q{K: "phrase", Str: str}
}

// multiTermQ: leaves the query package turns into multi-term / range searchers
func multiTermQ(r *vrand.R) *Q {
	switch r.Intn(7) {
	case 0:
		return &Q{K: "prefix", Str: vrand.Pick(r, []string{"x", "xa", "z", "y"})}
	case 1:
		return &Q{K: "fuzzy", Str: vrand.Pick(r, []string{"xa", "xbb", "zc", "yc"})}
	case 2:
		return &Q{K: "regexp", Str: vrand.Pick(r, []string{"x[ab]+", "z.", "y.*"})}
	case 3:
		return &Q{K: "wildcard", Str: vrand.Pick(r, []string{"x*", "z?", "*b"})}
	case 4:
		return &Q{K: "termrange"}
	case 5:
		return &Q{K: "match", Str: words[r.Intn(len(words))] + " " + words[r.Intn(len(words))]}
	}
	lo := float64(r.Range(0, 6))
	return &Q{K: "numrange", Lo: lo, Hi: lo + float64(r.Range(1, 5))}
}

func genLeafish(r *vrand.R) *Q {
	switch r.Intn(14) {
	case 0:
		return &Q{K: "all"}
	case 1:
		var ids []int
		for k := r.Range(1, 6); k > 0; k-- {
			ids = append(ids, r.Intn(45))
		}
		return &Q{K: "docids", IDs: ids}
	case 2:
		return &Q{K: "none"}
	case 3, 4:
		// searchers without a machine: a Leaf holding their own Next-only enumeration; the
		// compound above them is still checked against its machine and the spec
		return phraseQ(r)
	case 5, 6:
		return multiTermQ(r)
	}
	return termQ(r)
}

// genMin: a minimum for a disjunction / should clause: 0..hi, or (one time in four) a negative one:
// -1, -2, -1000000, -0.5 (Validate() accepts them; they mean "optional" for a should clause, and a
// disjunction still needs one matching clause)
func genMin(r *vrand.R, hi int) (int, bool) {
	if r.Chance(1, 4) {
		switch r.Intn(4) {
		case 0:
			return 0, true
		case 1:
			return -2, false
		case 2:
			return -1000000, false
		}
		return -1, false
	}
	return r.Range(0, hi), false
}

func genTree(r *vrand.R, depth int) *Q {
	if depth <= 0 {
		return genLeafish(r)
	}
	sub := func() *Q {
		if r.Chance(1, 3) {
			return genTree(r, depth-1)
		}
		return genLeafish(r)
	}
	subs := func(lo, hi int) []*Q {
		n := r.Range(lo, hi)
		qs := make([]*Q, n)
		for i := range qs {
			qs[i] = sub()
		}
		return qs
	}
	switch r.Intn(9) {
	case 0, 1:
		return &Q{K: "conj", Kids: subs(1, 4)}
	case 2, 3:
		m, nh := genMin(r, 2)
		return &Q{K: "disj", Kids: subs(1, 5), Min: m, NegHalf: nh}
	case 4:
		// around DisjunctionHeapTakeover = 10
		n := r.Range(9, 13)
		qs := make([]*Q, n)
		for i := range qs {
			if r.Chance(1, 6) {
				qs[i] = sub()
			} else {
				qs[i] = termQ(r)
			}
		}
		m, nh := genMin(r, 2)
		return &Q{K: "disj", Kids: qs, Min: m, NegHalf: nh}
	default:
		q := &Q{K: "bool"}
		if r.Chance(2, 3) {
			q.Must = subs(1, 2)
		}
		if r.Chance(2, 3) {
			q.Should = subs(1, 3)
			q.MinShould, q.ShouldNegHalf = genMin(r, 2)
			if q.MinShould > len(q.Should) {
				q.MinShould = len(q.Should)
			}
		}
		if r.Chance(1, 2) {
			q.MustNot = subs(1, 2)
		}
		if r.Chance(1, 5) {
			q.Filter = sub()
		}
		if q.Must == nil && q.Should == nil && q.MustNot == nil && q.Filter == nil {
			q.Must = subs(1, 2)
		}
		return q
	}
}

func genProg(r *vrand.R, backward bool) []Op {
	poi := func() Op {
		op := Op{K: "A", M: 7, A: []int{0, 0, 0, 0, 1, 1, 2, 3}[r.Intn(8)], L: r.Intn(16)}
		if r.Chance(1, 3) {
			op.L = 0 // the query's own matches
		}
		return op
	}
	if !backward {
		switch r.Intn(6) {
		case 2:
			// around segment boundaries (scorch; elsewhere M=4 falls back to lb+k): k x Next, an
			// Advance to offset-1 / offset / offset+1 of a later segment, then a short tail
			var p []Op
			for k := r.Range(0, 4); k > 0; k-- {
				p = append(p, Op{K: "N"})
			}
			p = append(p, Op{K: "A", M: 4, A: r.Range(0, 12)})
			for k := r.Range(0, 3); k > 0; k-- {
				switch r.Intn(3) {
				case 0:
					p = append(p, Op{K: "N"})
				case 1:
					p = append(p, Op{K: "A", M: 4, A: r.Range(0, 12)})
				default:
					p = append(p, Op{K: "A", M: r.Range(2, 3), A: r.Range(0, 4)})
				}
			}
			return p
		case 0:
			// k x Next, then Advance exactly to the next entry of a list of interest (the next
			// match, the next candidate of a subtree, ...), then a short tail
			var p []Op
			for k := r.Range(0, 5); k > 0; k-- {
				p = append(p, Op{K: "N"})
			}
			a := poi()
			a.A = 0
			p = append(p, a)
			for k := r.Range(0, 3); k > 0; k-- {
				if r.Bool() {
					p = append(p, Op{K: "N"})
				} else {
					p = append(p, poi())
				}
			}
			return p
		case 1:
			// Advance as the first call: to the first / next / last entry of a list, then Next
			a := poi()
			a.A = []int{3, 3, 0, 2}[r.Intn(4)]
			p := []Op{a}
			for k := r.Range(0, 3); k > 0; k-- {
				p = append(p, Op{K: "N"})
			}
			if r.Bool() {
				p = append(p, poi())
			}
			return p
		}
	}
	n := r.Range(1, 9)
	p := make([]Op, n)
	for i := range p {
		if r.Chance(2, 5) {
			p[i] = Op{K: "N"}
			continue
		}
		m := []int{0, 0, 0, 1, 1, 2, 2, 3, 4, 4, 4, 6, 7, 7, 7, 7, 7, 7}[r.Intn(18)]
		if backward && r.Chance(1, 3) {
			p[i] = Op{K: "A", M: 5, A: r.Range(0, 50)}
			continue
		}
		if m == 7 {
			p[i] = poi()
			continue
		}
		p[i] = Op{K: "A", M: m, A: r.Range(0, 12)}
	}
	// make sure programs regularly run past exhaustion
	if r.Chance(1, 4) {
		p = append(p, Op{K: "A", M: 6, A: r.Intn(3)}, Op{K: "N"}, Op{K: "A", M: 0, A: r.Intn(5)})
	}
	return p
}

func unmodelled(r *vrand.R) *Q {
	switch r.Intn(8) {
	case 0, 1, 2, 3:
		return multiTermQ(r)
	case 4:
		return &Q{K: "geobox", Lo: float64(r.Range(-8, 2)), Hi: float64(r.Range(-2, 8))}
	case 5:
		return &Q{K: "geodist", Lo: float64(r.Range(-6, 6)), Hi: float64(r.Range(-6, 6))}
	case 6:
		// a modelled compound over unmodelled children, checked as a contract only
		return &Q{K: "conj", Kids: []*Q{{K: "prefix", Str: "x"}, {K: "numrange", Lo: 1, Hi: 8}}}
	}
	return &Q{K: "disj", Min: 1, Kids: []*Q{phraseQ(r), {K: "fuzzy", Str: "xa"}}}
}

// phraseTree: a phrase-family searcher as a clause of a conjunction / boolean / disjunction, next
// to term clauses of the dense keyword field (so that the sibling's next document is regularly
// the phrase searcher's own look-ahead candidate)
func phraseTree(r *vrand.R) *Q {
	ph := phraseQ(r)
	switch r.Intn(6) {
	case 0, 1:
		ks := []*Q{ph, termQ(r)}
		if r.Bool() {
			ks[0], ks[1] = ks[1], ks[0]
		}
		return &Q{K: "conj", Kids: ks}
	case 2:
		return &Q{K: "bool", Must: []*Q{ph, termQ(r)}}
	case 3:
		return &Q{K: "bool", Must: []*Q{termQ(r)}, Should: []*Q{ph, termQ(r)}, MinShould: r.Range(-1, 1), MustNot: []*Q{termQ(r)}}
	case 4:
		return &Q{K: "conj", Kids: []*Q{ph, phraseQ(r)}}
	}
	return &Q{K: "disj", Min: r.Range(1, 2), Kids: []*Q{ph, termQ(r), multiTermQ(r)}}
}

// the engine configurations a quick run cycles through (quick: 16 corpora = two rounds)
var layouts = []struct{ engine, ids string }{
	{"scorch-mem", ""}, {"upsidedown", "num"}, {"scorch-disk", "var"}, {"upsidedown/boltdb", "var"},
	{"scorch-mem", "num"}, {"upsidedown/moss", "num"}, {"scorch-disk", ""}, {"upsidedown", "var"},
	{"scorch-mem", "var"}, {"upsidedown/moss", "var"}, {"scorch-disk", "num"}, {"upsidedown", ""},
	{"scorch-mem", ""}, {"upsidedown/boltdb", "num"}, {"scorch-mem", "num"}, {"upsidedown", "var"},
}

func gen(f vh.Flags, r *vrand.R, emit func(In)) {
	ncorp := f.N(16, 480)
	for ci := 0; ci < ncorp; ci++ {
		lay := layouts[ci%len(layouts)]
		corp := genCorpus(r, lay.engine, lay.ids, r.Range(8, 40))
		scores := []string{"", "none"}
		// modelled trees (leaves: term / doc-id / match-all / match-none and, as opaque leaves,
		// phrase / multi-phrase / multi-term / range searchers)
		for k := 0; k < 10; k++ {
			q := genTree(r, 3)
			switch {
			case k < 2:
				// the shape of the boolean Advance defect and of the heap takeover, every corpus
				q = &Q{K: "bool", Must: []*Q{termQ(r)}, Should: []*Q{termQ(r), termQ(r)}, MinShould: 1 + k}
			case k < 4:
				q = phraseTree(r)
			}
			score := scores[k%2]
			nprog := 3
			if k >= 4 {
				nprog = 2
			}
			for p := 0; p < nprog; p++ {
				emit(In{Kind: "tree", Corpus: corp, Q: q, Score: score, Prog: genProg(r, false)})
			}
		}
		// readers (scorch): term / doc-id / match-all, with backward targets for the term reader;
		// upsidedown has no reader machine: its term field reader / doc-id reader / compounds of
		// them are driven directly and judged by the cursor contract
		udc := strings.HasPrefix(lay.engine, "upsidedown")
		rk := func(kind string) string {
			if udc {
				return "contract"
			}
			return kind
		}
		for k := 0; k < 3; k++ {
			emit(In{Kind: rk("tfr"), Corpus: corp, Q: termQ(r), Score: scores[k%2], Prog: genProg(r, k > 0 && !udc)})
			emit(In{Kind: rk("did"), Corpus: corp, Q: genLeafishDid(r), Prog: genProg(r, false)})
		}
		if !udc {
			// the doc-id reader over every segment (match-all), and under a conjunction / a
			// must-not-only boolean, where the parent chooses the targets
			emit(In{Kind: "did", Corpus: corp, Q: &Q{K: "all"}, Prog: genProg(r, false)})
			emit(In{Kind: "did", Corpus: corp, Q: &Q{K: "all"}, Prog: genProg(r, false)})
			emit(In{Kind: "tree", Corpus: corp, Q: &Q{K: "conj", Kids: []*Q{termQ(r), {K: "all"}}}, Score: scores[ci%2], Prog: genProg(r, false)})
			emit(In{Kind: "tree", Corpus: corp, Q: &Q{K: "bool", MustNot: []*Q{termQ(r)}}, Score: scores[ci%2], Prog: genProg(r, false)})
		}
		// unadorned AND / OR
		for k := 0; k < 4; k++ {
			n := r.Range(2, 4)
			qs := make([]*Q, n)
			for i := range qs {
				qs[i] = termQ(r)
			}
			q := &Q{K: "conj", Kids: qs}
			if k%2 == 1 {
				q = &Q{K: "disj", Kids: qs, Min: r.Range(-1, 1)}
			}
			emit(In{Kind: rk("una"), Corpus: corp, Q: q, Score: "none", Prog: genProg(r, k >= 2 && !udc)})
		}
		// contract only: bare phrase / multi-phrase searchers (two programs each), the other
		// searchers without a machine, a bare term searcher, a doc-id searcher
		for k := 0; k < 10; k++ {
			q := unmodelled(r)
			switch {
			case k < 3:
				q = phraseQ(r)
				emit(In{Kind: "contract", Corpus: corp, Q: q, Score: scores[k%2], Prog: genProg(r, false)})
			case k == 8:
				q = termQ(r)
			case k == 9:
				q = genLeafishDid(r)
			}
			emit(In{Kind: "contract", Corpus: corp, Q: q, Score: scores[k%2], Prog: genProg(r, false)})
		}
	}
	// searchers over an index without any segment (nothing indexed / everything deleted)
	for k := 0; k < 2; k++ {
		corp := Corpus{Engine: []string{"scorch-mem", "upsidedown"}[k]}
		emit(In{Kind: "contract", Corpus: corp, Q: &Q{K: "term", Term: 0}, Prog: []Op{{K: "A", M: 0, A: 0}, {K: "N"}}})
	}
	if f.Tier == "thorough" {
		genExhaustive(r, emit)
	}
}

func genLeafishDid(r *vrand.R) *Q {
	if r.Bool() {
		return &Q{K: "all"}
	}
	var ids []int
	for k := r.Range(1, 8); k > 0; k-- {
		ids = append(ids, r.Intn(45))
	}
	return &Q{K: "docids", IDs: ids}
}

// every forward program of length <= 4 over an id space of <= 6 documents; and, with targets
// taken from the lists of interest as well (next / second-next entry of the query's own matches and
// of two sub-lists), every program of length <= 3 over phrase searchers, bare and composed, and
// over upsidedown with ids of varying length
func genExhaustive(r *vrand.R, emit func(In)) {
	alphabet := []Op{{K: "N"}}
	for a := 0; a <= 6; a++ {
		alphabet = append(alphabet, Op{K: "A", M: 0, A: a})
	}
	all := func(alphabet []Op, n int) [][]Op {
		var progs [][]Op
		var rec func(p []Op, n int)
		rec = func(p []Op, n int) {
			if len(p) > 0 {
				progs = append(progs, append([]Op(nil), p...))
			}
			if n == 0 {
				return
			}
			for _, o := range alphabet {
				rec(append(p, o), n-1)
			}
		}
		rec(nil, n)
		return progs
	}
	progs := all(alphabet, 4)
	for _, eng := range []string{"scorch-mem", "upsidedown"} {
		for ci := 0; ci < 2; ci++ {
			corp := genCorpus(r, eng, "", 6)
			qs := []*Q{
				{K: "conj", Kids: []*Q{termQ(r), termQ(r)}},
				{K: "disj", Min: 1, Kids: []*Q{termQ(r), termQ(r), termQ(r)}},
				{K: "bool", Must: []*Q{termQ(r)}, Should: []*Q{termQ(r), termQ(r)}, MinShould: 1, MustNot: []*Q{termQ(r)}},
			}
			for _, q := range qs {
				for _, p := range progs {
					emit(In{Kind: "tree", Corpus: corp, Q: q, Prog: p})
				}
			}
		}
	}
	alphabet2 := []Op{{K: "N"}, {K: "A", M: 0, A: 0}, {K: "A", M: 0, A: 1}, {K: "A", M: 0, A: 3},
		{K: "A", M: 7, L: 0, A: 0}, {K: "A", M: 7, L: 0, A: 1}, {K: "A", M: 7, L: 1, A: 0},
		{K: "A", M: 7, L: 2, A: 0}, {K: "A", M: 7, L: 3, A: 0}}
	progs2 := all(alphabet2, 3)
	for _, lay := range []struct{ engine, ids string }{{"scorch-mem", ""}, {"upsidedown", "num"}, {"upsidedown/moss", "var"}, {"upsidedown/boltdb", "num"}} {
		for ci := 0; ci < 1; ci++ {
			corp := genCorpus(r, lay.engine, lay.ids, 12)
			ph := &Q{K: "phrase", Str: words[ci] + " " + words[ci+1]}
			qs := []*Q{
				ph,
				{K: "mphrase", Slots: [][]int{{ci, ci + 2}, {ci + 1}}},
				{K: "conj", Kids: []*Q{ph, termQ(r)}},
				{K: "bool", Must: []*Q{termQ(r)}, Should: []*Q{ph, termQ(r)}, MinShould: 1},
				termQ(r),
				{K: "conj", Kids: []*Q{termQ(r), termQ(r)}},
			}
			for qi, q := range qs {
				kind := "tree"
				if qi < 2 || qi == 4 {
					kind = "contract"
				}
				for _, p := range progs2 {
					emit(In{Kind: kind, Corpus: corp, Q: q, Prog: p})
				}
			}
		}
	}
}

func main() {
	defer closeAll()
	vh.Main(vh.Config{
		Property:  "C08",
		Imports:   []string{"Cursor.Cursor", "Cursor.Machines", "Cursor.MachCorr"},
		CaseType:  "MachCorr.case",
		CheckFn:   "MachCorr.check",
		ExplainFn: "MachCorr.explain",
		Rule: "corpora of 8-40 documents (13-word keyword field, text of 0-8 words out of 6, numeric/geo fields) indexed in 2-6 batches with updates and deletes on scorch (in memory, on disk) and upsidedown over gtreap, boltdb and moss; " +
			"external ids d%03d, or prefix+unpadded number (a1 a10 a11 a2), or 1-4 byte strings that are prefixes of each other with 0x00/0x01/0x7f/0x80/0xfe bytes (on upsidedown these are the internal ids: a CKeyed case names ids by their index in a key table that Coq re-checks to be strictly ascending bytewise; Advance targets also between ids: id+0x00, a proper prefix, a string with 0xff bytes just below, the empty string, above everything); " +
			"query trees to depth 3 of term / doc-id / match-all / match-none leaves and, as opaque leaves, phrase / multi-phrase / match / prefix / fuzzy / regexp / wildcard / term-range / numeric-range searchers, under conjunction, disjunction (1-13 children, min 0-2 and -0.5, -1, -2, -1000000), boolean (must/should/must-not/filter, min_should 0-2 and the same negative values), score default and none; phrase searchers as clauses of conjunctions / booleans / disjunctions next to dense term clauses; " +
			"kinds: tree (machine + spec), tfr / did (scorch readers with segment offsets; tfr also backward targets), una (unadorned AND/OR), contract (bare phrase / multi-phrase searchers, upsidedown term-field and doc-id readers, prefix, fuzzy, regexp, wildcard, term range, match, numeric range, geo, compounds over them); " +
			"programs of 1-12 Next/Advance calls, targets relative to the last returned id: +k, at / just after / just before an existing posting, at segment offsets, beyond the last id, as first call and after exhaustion, and exactly at the next / second-next / last / first entry of a list of interest (Next-only enumerations of real searchers for the query, each of its subtrees, each phrase term and the all-terms candidate conjunction of a phrase), in particular k x Next then Advance(next entry); " +
			"non-trivial: the program contains an Advance and the searcher returned at least one id",
		ShardSize: 100,
	}, gen, exec)
}
