// C08 correspondence harness: real searchers obtained from query.Searcher over multi-segment
// scorch readers (in memory and on disk, with updates and deletions) and over upsidedown are
// driven by forward Next/Advance programs; the ids they return are compared, inside Coq, with the
// machines of coq/Cursor/Machines.v and the cursor spec of coq/Cursor/Cursor.v.
//
// The harness never computes an expected answer: every list of ids it hands to Coq (leaf
// posting lists, Next-only enumerations) was produced by a real searcher, the tree shape is read
// off the concrete searcher types the query package returned, and Advance targets are derived
// from ids the implementation returned so far.
package main

import (
	"context"
	"crypto/sha1"
	"encoding/hex"
	"encoding/json"
	"fmt"
	"os"
	"sort"
	"strings"
	"sync"
	"time"

	"github.com/blevesearch/bleve/v2"
	"github.com/blevesearch/bleve/v2/index/scorch"
	"github.com/blevesearch/bleve/v2/index/upsidedown"
	"github.com/blevesearch/bleve/v2/index/upsidedown/store/gtreap"
	"github.com/blevesearch/bleve/v2/mapping"
	"github.com/blevesearch/bleve/v2/search"
	"github.com/blevesearch/bleve/v2/search/query"
	index "github.com/blevesearch/bleve_index_api"

	cf "verifharness/internal/coqfmt"
	"verifharness/internal/vh"
	"verifharness/internal/vrand"
)

// ---------------------------------------------------------------- inputs

type DocOp struct {
	ID  int       `json:"id"`
	Del bool      `json:"del,omitempty"`
	F   []int     `json:"f,omitempty"` // indices into vocab (keyword field f, multi-valued)
	T   []int     `json:"t,omitempty"` // indices into words (text field t, in order)
	N   float64   `json:"n,omitempty"`
	G   []float64 `json:"g,omitempty"` // lon, lat
}

type Corpus struct {
	Engine  string    `json:"engine"` // scorch-mem | scorch-disk | upsidedown
	Batches [][]DocOp `json:"batches"`
	// scorch-disk: after this many batches wait for the persister and force a merge (merged
	// segments use zapx's 1-hit encoding for single-document terms); 0 = never
	MergeAfter int `json:"merge_after,omitempty"`
}

type Q struct {
	K         string  `json:"k"` // term conj disj bool docids all none | prefix fuzzy regexp wildcard termrange phrase match numrange geobox geodist
	Term      int     `json:"term,omitempty"`
	Min       int     `json:"min,omitempty"`
	Kids      []*Q    `json:"kids,omitempty"`
	Must      []*Q    `json:"must,omitempty"`
	Should    []*Q    `json:"should,omitempty"`
	MustNot   []*Q    `json:"must_not,omitempty"`
	MinShould int     `json:"min_should,omitempty"`
	Filter    *Q      `json:"filter,omitempty"`
	IDs       []int   `json:"ids,omitempty"`
	Str       string  `json:"str,omitempty"`
	Lo        float64 `json:"lo,omitempty"`
	Hi        float64 `json:"hi,omitempty"`
}

// one call of a program.  Advance targets are resolved against what the searcher returned so
// far: lb = max(last returned id + 1, last target, 0).
//   M=0 lb+A | M=1 a candidate id >= lb | M=2 candidate+1 | M=3 candidate-1 (clipped to lb)
//   M=4 a segment offset (or offset-1) >= lb | M=5 absolute A (may be backward; reader kinds only)
//   M=6 beyond the greatest id (+A)
type Op struct {
	K string `json:"k"` // "N" | "A"
	M int    `json:"m,omitempty"`
	A int    `json:"a,omitempty"`
}

type In struct {
	Kind   string `json:"kind"` // tree | tfr | did | una | contract
	Corpus Corpus `json:"corpus"`
	Q      *Q     `json:"q"`
	Score  string `json:"score,omitempty"`
	Prog   []Op   `json:"prog"`
}

var vocab = []string{"xa", "xab", "xb", "xbc", "ya", "yb", "zc", "zd", "ze", "zf", "zg", "zh", "zi"}
var words = []string{"red", "green", "blue", "fast", "slow", "cat"}

// ---------------------------------------------------------------- index cache

type built struct {
	idx    bleve.Index
	rd     index.IndexReader
	m      mapping.IndexMapping
	path   string
	offs   []int64 // scorch: segment offsets; nil for upsidedown
	sizes  []int64
	ndel   int
	ref    int
	engine string
	err    error
	ready  chan struct{}
}

var (
	cacheMu sync.Mutex
	cache   = map[string]*built{}
	dirSeq  int
)

func buildMapping() mapping.IndexMapping {
	m := bleve.NewIndexMapping()
	dm := bleve.NewDocumentMapping()
	f := bleve.NewTextFieldMapping()
	f.Analyzer = "keyword"
	f.IncludeTermVectors = false // lets zapx use the 1-hit postings encoding in merged segments
	dm.AddFieldMappingsAt("f", f)
	t := bleve.NewTextFieldMapping()
	t.Analyzer = "standard"
	dm.AddFieldMappingsAt("t", t)
	dm.AddFieldMappingsAt("n", bleve.NewNumericFieldMapping())
	dm.AddFieldMappingsAt("g", bleve.NewGeoPointFieldMapping())
	m.DefaultMapping = dm
	return m
}

func docID(k int) string { return fmt.Sprintf("d%03d", k) }

func acquire(c Corpus) (*built, error) {
	js, _ := json.Marshal(c)
	h := sha1.Sum(js)
	key := hex.EncodeToString(h[:])
	cacheMu.Lock()
	b, ok := cache[key]
	if ok {
		b.ref++
		cacheMu.Unlock()
		<-b.ready
		return b, b.err
	}
	b = &built{ref: 1, ready: make(chan struct{}), engine: c.Engine}
	cache[key] = b
	// evict idle entries beyond a small working set
	if len(cache) > 24 {
		for k, e := range cache {
			if e.ref == 0 && k != key {
				select {
				case <-e.ready:
					e.close()
					delete(cache, k)
				default:
				}
			}
			if len(cache) <= 16 {
				break
			}
		}
	}
	dirSeq++
	seq := dirSeq
	cacheMu.Unlock()
	b.err = b.build(c, seq)
	close(b.ready)
	return b, b.err
}

func release(b *built) {
	cacheMu.Lock()
	b.ref--
	cacheMu.Unlock()
}

func (b *built) close() {
	if b.rd != nil {
		_ = b.rd.Close()
	}
	if b.idx != nil {
		_ = b.idx.Close()
	}
	if b.path != "" {
		_ = os.RemoveAll(b.path)
	}
}

func closeAll() {
	cacheMu.Lock()
	defer cacheMu.Unlock()
	for k, e := range cache {
		select {
		case <-e.ready:
			e.close()
		default:
		}
		delete(cache, k)
	}
}

func (b *built) build(c Corpus, seq int) error {
	b.m = buildMapping()
	var err error
	switch c.Engine {
	case "upsidedown":
		b.idx, err = bleve.NewUsing("", b.m, upsidedown.Name, gtreap.Name, nil)
	case "scorch-disk":
		b.path = fmt.Sprintf("/tmp/vh_c08_%d_%d", os.Getpid(), seq)
		_ = os.RemoveAll(b.path)
		b.idx, err = bleve.NewUsing(b.path, b.m, scorch.Name, scorch.Name, nil)
	default:
		b.idx, err = bleve.NewUsing("", b.m, scorch.Name, scorch.Name, nil)
	}
	if err != nil {
		b.idx = nil
		return err
	}
	for bi, batch := range c.Batches {
		bt := b.idx.NewBatch()
		for _, op := range batch {
			if op.Del {
				bt.Delete(docID(op.ID))
				continue
			}
			doc := map[string]interface{}{}
			var fs []interface{}
			for _, w := range op.F {
				fs = append(fs, vocab[w%len(vocab)])
			}
			if len(fs) > 0 {
				doc["f"] = fs
			}
			var ts []string
			for _, w := range op.T {
				ts = append(ts, words[w%len(words)])
			}
			if len(ts) > 0 {
				doc["t"] = strings.Join(ts, " ")
			}
			doc["n"] = op.N
			if len(op.G) == 2 {
				doc["g"] = map[string]interface{}{"lon": op.G[0], "lat": op.G[1]}
			}
			if err := bt.Index(docID(op.ID), doc); err != nil {
				return err
			}
		}
		if err := b.idx.Batch(bt); err != nil {
			return err
		}
		if c.Engine == "scorch-disk" && c.MergeAfter > 0 && bi+1 == c.MergeAfter {
			forceMerge(b.idx)
		}
	}
	adv, err := b.idx.Advanced()
	if err != nil {
		return err
	}
	b.rd, err = adv.Reader()
	if err != nil {
		return err
	}
	if is, ok := b.rd.(*scorch.IndexSnapshot); ok {
		var run int64
		for _, seg := range is.Segments() {
			b.offs = append(b.offs, run)
			b.sizes = append(b.sizes, seg.FullSize())
			run += seg.FullSize()
			if d := seg.Deleted(); d != nil {
				b.ndel += int(d.GetCardinality())
			}
		}
	}
	return nil
}

// forceMerge waits (bounded) until the persister has written the in-memory segments, then asks
// the merger for a single-segment merge.
func forceMerge(idx bleve.Index) {
	adv, err := idx.Advanced()
	if err != nil {
		return
	}
	sc, ok := adv.(*scorch.Scorch)
	if !ok {
		return
	}
	for i := 0; i < 100; i++ {
		if n, ok := sc.StatsMap()["TotMemorySegmentsAtRoot"].(uint64); ok && n == 0 {
			break
		}
		time.Sleep(20 * time.Millisecond)
	}
	ctx, cancel := context.WithTimeout(context.Background(), 20*time.Second)
	_ = sc.ForceMerge(ctx, nil)
	cancel()
}

// ---------------------------------------------------------------- ids

func (b *built) idOf(d index.IndexInternalID) (int64, error) {
	if b.engine == "upsidedown" {
		var k int64
		if len(d) != 4 || d[0] != 'd' {
			return 0, fmt.Errorf("unexpected internal id %q", []byte(d))
		}
		if _, err := fmt.Sscanf(string(d[1:]), "%d", &k); err != nil {
			return 0, err
		}
		return k, nil
	}
	if len(d) != 8 {
		return 0, fmt.Errorf("internal id of length %d", len(d))
	}
	return int64(d.Value()), nil
}

func (b *built) target(k int64) index.IndexInternalID {
	if k < 0 {
		k = 0
	}
	if b.engine == "upsidedown" {
		if k > 999 {
			k = 999
		}
		return index.IndexInternalID(docID(int(k)))
	}
	return index.NewIndexInternalID(nil, uint64(k))
}

// ---------------------------------------------------------------- queries

func tq(term string) query.Query {
	q := bleve.NewTermQuery(term)
	q.SetField("f")
	return q
}

func (q *Q) build() query.Query {
	switch q.K {
	case "term":
		return tq(vocab[q.Term%len(vocab)])
	case "conj":
		qs := make([]query.Query, len(q.Kids))
		for i, k := range q.Kids {
			qs[i] = k.build()
		}
		return bleve.NewConjunctionQuery(qs...)
	case "disj":
		qs := make([]query.Query, len(q.Kids))
		for i, k := range q.Kids {
			qs[i] = k.build()
		}
		d := bleve.NewDisjunctionQuery(qs...)
		d.SetMin(float64(q.Min))
		return d
	case "bool":
		bq := bleve.NewBooleanQuery()
		for _, k := range q.Must {
			bq.AddMust(k.build())
		}
		for _, k := range q.Should {
			bq.AddShould(k.build())
		}
		for _, k := range q.MustNot {
			bq.AddMustNot(k.build())
		}
		if len(q.Should) > 0 {
			bq.SetMinShould(float64(q.MinShould))
		}
		if q.Filter != nil {
			bq.AddFilter(q.Filter.build())
		}
		return bq
	case "docids":
		ids := make([]string, len(q.IDs))
		for i, k := range q.IDs {
			ids[i] = docID(k)
		}
		return bleve.NewDocIDQuery(ids)
	case "all":
		return bleve.NewMatchAllQuery()
	case "none":
		return bleve.NewMatchNoneQuery()
	case "prefix":
		p := bleve.NewPrefixQuery(q.Str)
		p.SetField("f")
		return p
	case "fuzzy":
		f := bleve.NewFuzzyQuery(q.Str)
		f.SetFuzziness(1)
		f.SetField("f")
		return f
	case "regexp":
		r := bleve.NewRegexpQuery(q.Str)
		r.SetField("f")
		return r
	case "wildcard":
		w := bleve.NewWildcardQuery(q.Str)
		w.SetField("f")
		return w
	case "termrange":
		t := bleve.NewTermRangeQuery("xab", "z")
		t.SetField("f")
		return t
	case "phrase":
		p := bleve.NewMatchPhraseQuery(q.Str)
		p.SetField("t")
		return p
	case "match":
		p := bleve.NewMatchQuery(q.Str)
		p.SetField("t")
		return p
	case "numrange":
		lo, hi := q.Lo, q.Hi
		n := bleve.NewNumericRangeQuery(&lo, &hi)
		n.SetField("n")
		return n
	case "geobox":
		g := bleve.NewGeoBoundingBoxQuery(q.Lo, q.Hi, q.Lo+4, q.Hi-4)
		g.SetField("g")
		return g
	case "geodist":
		g := bleve.NewGeoDistanceQuery(q.Lo, q.Hi, "300km")
		g.SetField("g")
		return g
	}
	return bleve.NewMatchNoneQuery()
}

type sctx struct {
	b    *built
	opts search.SearcherOptions
}

func (c sctx) searcher(q query.Query) (search.Searcher, *search.SearchContext, error) {
	s, err := q.Searcher(context.Background(), c.b.rd, c.b.m, c.opts)
	if err != nil {
		return nil, nil, err
	}
	return s, &search.SearchContext{DocumentMatchPool: search.NewDocumentMatchPool(s.DocumentMatchPoolSize()+16, 0)}, nil
}

// enumerate: Next-only ids of a fresh searcher for q.
func (c sctx) enumerate(q query.Query) ([]int64, string, int, error) {
	s, ctx, err := c.searcher(q)
	if err != nil {
		return nil, "", 0, err
	}
	defer s.Close()
	var out []int64
	for len(out) < 100000 {
		d, err := s.Next(ctx)
		if err != nil {
			return nil, "", 0, err
		}
		if d == nil {
			break
		}
		id, err := c.b.idOf(d.IndexInternalID)
		if err != nil {
			return nil, "", 0, err
		}
		out = append(out, id)
	}
	return out, fmt.Sprintf("%T", s), s.Min(), nil
}

func zlist(xs []int64) cf.T { return cf.ListOf(xs, func(x int64) cf.T { return cf.Z(x) }) }

type desc struct {
	c       sctx
	leaves  [][]int64 // every leaf list handed to the model
	classes map[string]bool
	types   map[string]bool
}

func optTree(t cf.T, present bool) cf.T {
	if !present {
		return cf.None
	}
	return cf.Some(t)
}

func (d *desc) leaf(q query.Query) (cf.T, error) {
	l, tn, _, err := d.c.enumerate(q)
	if err != nil {
		return "", err
	}
	d.leaves = append(d.leaves, l)
	d.types["leaf:"+tn] = true
	return cf.App("Leaf", zlist(l)), nil
}

// describe returns the Coq stree of the searcher the query package builds for q, read off the
// concrete searcher types; anything that is not a modelled compound becomes a Leaf holding its
// own Next-only enumeration.
func (d *desc) describe(q *Q) (cf.T, error) {
	bq := q.build()
	s, _, err := d.c.searcher(bq)
	if err != nil {
		return "", err
	}
	tn := fmt.Sprintf("%T", s)
	_ = s.Close()
	d.types[tn] = true
	kids := func(qs []*Q) (cf.T, error) {
		ts := make([]cf.T, len(qs))
		for i, k := range qs {
			t, err := d.describe(k)
			if err != nil {
				return "", err
			}
			ts[i] = t
		}
		return cf.List(ts), nil
	}
	switch {
	case q.K == "conj" && tn == "*searcher.ConjunctionSearcher":
		ks, err := kids(q.Kids)
		if err != nil {
			return "", err
		}
		return cf.App("Conj", ks), nil
	case q.K == "disj" && tn == "*searcher.DisjunctionSliceSearcher":
		ks, err := kids(q.Kids)
		if err != nil {
			return "", err
		}
		return cf.App("DisjS", cf.Int(q.Min), ks), nil
	case q.K == "disj" && tn == "*searcher.DisjunctionHeapSearcher":
		ks, err := kids(q.Kids)
		if err != nil {
			return "", err
		}
		return cf.App("DisjH", cf.Int(q.Min), ks), nil
	case q.K == "bool" && tn == "*searcher.FilteringSearcher" && q.Filter != nil:
		inner := *q
		inner.Filter = nil
		var child cf.T
		if len(q.Must) == 0 && len(q.Should) == 0 && len(q.MustNot) == 0 {
			child, err = d.leaf(bleve.NewMatchAllQuery())
		} else {
			child, err = d.describe(&inner)
		}
		if err != nil {
			return "", err
		}
		fd := &desc{c: sctx{b: d.c.b, opts: search.SearcherOptions{Score: "none"}}, classes: d.classes, types: d.types}
		ft, err := fd.describe(q.Filter)
		if err != nil {
			return "", err
		}
		d.leaves = append(d.leaves, fd.leaves...)
		return cf.App("Filter", child, ft), nil
	case q.K == "bool" && tn == "*searcher.BooleanSearcher" && q.Filter == nil:
		clause := func(k string, qs []*Q, min int) (cf.T, bool, int, error) {
			if len(qs) == 0 {
				return "", false, 0, nil
			}
			sub := &Q{K: k, Kids: qs, Min: min}
			ss, _, err := d.c.searcher(sub.build())
			if err != nil {
				return "", false, 0, err
			}
			stn := fmt.Sprintf("%T", ss)
			smin := ss.Min()
			_ = ss.Close()
			if stn == "*searcher.MatchNoneSearcher" {
				return "", false, 0, nil
			}
			t, err := d.describe(sub)
			return t, true, smin, err
		}
		mt, mok, _, err := clause("conj", q.Must, 0)
		if err != nil {
			return "", err
		}
		st, sok, smin, err := clause("disj", q.Should, q.MinShould)
		if err != nil {
			return "", err
		}
		nt, nok, _, err := clause("disj", q.MustNot, 0)
		if err != nil {
			return "", err
		}
		if !mok && !sok && nok {
			mt, err = d.leaf(bleve.NewMatchAllQuery())
			if err != nil {
				return "", err
			}
			mok = true
		}
		if mok && sok && smin != 0 {
			d.classes["boolean-should-advance"] = true
		}
		return cf.App("Bool", "false", optTree(mt, mok), optTree(st, sok), optTree(nt, nok)), nil
	case q.K == "bool" && q.Filter == nil && len(q.Must) > 0 && len(q.Should) == 0 && len(q.MustNot) == 0:
		return d.describe(&Q{K: "conj", Kids: q.Must})
	case q.K == "bool" && q.Filter == nil && len(q.Must) == 0 && len(q.Should) > 0 && len(q.MustNot) == 0:
		return d.describe(&Q{K: "disj", Kids: q.Should, Min: q.MinShould})
	}
	return d.leaf(bq)
}

// ---------------------------------------------------------------- programs

type runEnv struct {
	b     *built
	cands []int64 // sorted candidate ids (all leaf ids)
	maxID int64
}

func (e *runEnv) resolve(op Op, last, wm int64) int64 {
	lb := last + 1
	if wm > lb {
		lb = wm
	}
	if lb < 0 {
		lb = 0
	}
	a := int64(op.A)
	if a < 0 {
		a = -a
	}
	pick := func() (int64, bool) {
		i := sort.Search(len(e.cands), func(i int) bool { return e.cands[i] >= lb })
		n := len(e.cands) - i
		if n <= 0 {
			return 0, false
		}
		return e.cands[i+int(a)%n], true
	}
	switch op.M {
	case 1:
		if c, ok := pick(); ok {
			return c
		}
	case 2:
		if c, ok := pick(); ok {
			return c + 1
		}
	case 3:
		if c, ok := pick(); ok && c-1 >= lb {
			return c - 1
		}
	case 4:
		var bs []int64
		for _, o := range e.b.offs {
			for _, x := range []int64{o - 1, o, o + 1} {
				if x >= lb {
					bs = append(bs, x)
				}
			}
		}
		if len(bs) > 0 {
			return bs[int(a)%len(bs)]
		}
	case 5:
		return int64(op.A)
	case 6:
		t := e.maxID + 1 + a%3
		if t >= lb {
			return t
		}
	}
	return lb + a%7
}

// run executes prog on a fresh searcher for q; returns the Coq program and result lists.
func (e *runEnv) run(c sctx, q query.Query, prog []Op) (cf.T, cf.T, []string, int, *vh.Direct) {
	var calls, ress []cf.T
	var hist []string
	nret := 0
	d := vh.Guard(30*time.Second, "Next/Advance program", func() {
		s, ctx, err := c.searcher(q)
		if err != nil {
			panic(err)
		}
		defer s.Close()
		last, wm := int64(-1), int64(-1)
		exhausted := false
		for i, op := range prog {
			var dm *search.DocumentMatch
			if op.K == "N" {
				calls = append(calls, "Next")
				dm, err = s.Next(ctx)
				if exhausted {
					hist = append(hist, "prog:next-after-exhaustion")
				}
			} else {
				t := e.resolve(op, last, wm)
				calls = append(calls, cf.App("Advance", cf.Z(t)))
				dm, err = s.Advance(ctx, e.b.target(t))
				wm = t
				switch {
				case i == 0:
					hist = append(hist, "prog:advance-first")
				case exhausted:
					hist = append(hist, "prog:advance-after-exhaustion")
				}
				if t > e.maxID {
					hist = append(hist, "prog:advance-beyond-last")
				}
				if op.M == 4 {
					hist = append(hist, "prog:advance-segment-boundary")
				}
			}
			if err != nil {
				panic(fmt.Sprintf("searcher error: %v", err))
			}
			if dm == nil {
				ress = append(ress, cf.None)
				exhausted = true
				continue
			}
			id, err := e.b.idOf(dm.IndexInternalID)
			if err != nil {
				panic(err)
			}
			ress = append(ress, cf.Some(cf.Z(id)))
			last = id
			nret++
			ctx.DocumentMatchPool.Put(dm)
		}
	})
	return cf.List(calls), cf.List(ress), hist, nret, d
}

func splitSegments(b *built, global []int64) []cf.T {
	segs := make([][]int64, len(b.offs))
	for _, g := range global {
		j := sort.Search(len(b.offs), func(x int) bool { return b.offs[x] > g }) - 1
		if j >= 0 {
			segs[j] = append(segs[j], g-b.offs[j])
		}
	}
	out := make([]cf.T, len(segs))
	for i, s := range segs {
		out[i] = zlist(s)
	}
	return out
}

func hasAdvance(p []Op) bool {
	for _, o := range p {
		if o.K == "A" {
			return true
		}
	}
	return false
}

func exec(in In) vh.Result {
	b, err := acquire(in.Corpus)
	if err != nil {
		return vh.Result{Direct: &vh.Direct{Kind: "error", Detail: "index build: " + err.Error()}}
	}
	defer release(b)
	c := sctx{b: b, opts: search.SearcherOptions{Score: in.Score}}
	bq := in.Q.build()
	hist := []string{"kind:" + in.Kind, "engine:" + in.Corpus.Engine, "score:" + in.Score + "."}
	if b.offs != nil {
		hist = append(hist, fmt.Sprintf("segments:%d", min(len(b.offs), 6)))
		if b.ndel > 0 {
			hist = append(hist, "deletions:yes")
		} else {
			hist = append(hist, "deletions:no")
		}
	}
	fail := func(e error) vh.Result {
		return vh.Result{Direct: &vh.Direct{Kind: "error", Detail: e.Error()}}
	}
	var enum []int64
	var rootType string
	var res vh.Result
	if dd := vh.Guard(30*time.Second, "Next-only enumeration", func() {
		enum, rootType, _, err = c.enumerate(bq)
	}); dd != nil {
		return vh.Result{Direct: dd}
	}
	if err != nil {
		return fail(err)
	}
	hist = append(hist, "root:"+rootType)
	env := &runEnv{b: b, maxID: -1}
	class := ""
	var caseOf func(prog, ress cf.T) cf.T
	switch in.Kind {
	case "tree":
		d := &desc{c: c, classes: map[string]bool{}, types: map[string]bool{}}
		var tree cf.T
		if dd := vh.Guard(60*time.Second, "describe", func() { tree, err = d.describe(in.Q) }); dd != nil {
			return vh.Result{Direct: dd}
		}
		if err != nil {
			return fail(err)
		}
		for _, l := range d.leaves {
			env.cands = append(env.cands, l...)
		}
		for t := range d.types {
			hist = append(hist, "node:"+t)
		}
		if d.classes["boolean-should-advance"] && hasAdvance(in.Prog) {
			class = "boolean-should-advance"
		}
		caseOf = func(prog, ress cf.T) cf.T { return cf.App("CTree", tree, zlist(enum), prog, ress) }
	case "tfr", "did":
		if b.offs == nil {
			return vh.Result{Skip: true}
		}
		env.cands = append(env.cands, enum...)
		segs := cf.List(splitSegments(b, enum))
		offs := zlist(b.offs)
		ctor := map[string]string{"tfr": "CTfr", "did": "CDid"}[in.Kind]
		caseOf = func(prog, ress cf.T) cf.T { return cf.App(ctor, segs, offs, prog, ress) }
	case "una":
		if b.offs == nil || rootType != "*searcher.TermSearcher" || (in.Q.K != "conj" && in.Q.K != "disj") {
			return vh.Result{Skip: true}
		}
		var leaves []cf.T
		for _, k := range in.Q.Kids {
			l, _, _, err := c.enumerate(k.build())
			if err != nil {
				return fail(err)
			}
			env.cands = append(env.cands, l...)
			leaves = append(leaves, cf.List(splitSegments(b, l)))
		}
		offs := zlist(b.offs)
		caseOf = func(prog, ress cf.T) cf.T {
			return cf.App("CUna", cf.Bool(in.Q.K == "conj"), cf.List(leaves), offs, prog, ress)
		}
	default: // contract
		env.cands = append(env.cands, enum...)
		caseOf = func(prog, ress cf.T) cf.T { return cf.App("CContract", zlist(enum), prog, ress) }
	}
	sort.Slice(env.cands, func(i, j int) bool { return env.cands[i] < env.cands[j] })
	for _, x := range env.cands {
		if x > env.maxID {
			env.maxID = x
		}
	}
	if b.offs != nil && len(b.offs) > 0 {
		if t := b.offs[len(b.offs)-1] + b.sizes[len(b.sizes)-1] - 1; t > env.maxID {
			env.maxID = t
		}
	}
	prog, ress, ph, nret, dd := env.run(c, bq, in.Prog)
	if dd != nil {
		cl := class
		if b.offs != nil && len(b.offs) == 0 && strings.Contains(dd.Detail, "index out of range [-1]") {
			cl = "tfr-advance-no-segments"
		}
		return vh.Result{Direct: dd, Class: cl}
	}
	hist = append(hist, ph...)
	res = vh.Result{Term: caseOf(prog, ress), Class: class, Hist: hist,
		Nontrivial: hasAdvance(in.Prog) && nret > 0}
	return res
}

// ---------------------------------------------------------------- generation

func genCorpus(r *vrand.R, engine string, ndocs int) Corpus {
	c := Corpus{Engine: engine}
	nb := r.Range(2, 6)
	if engine == "scorch-disk" {
		nb = r.Range(3, 6)
	}
	if ndocs <= 6 {
		nb = r.Range(1, 3)
	}
	// per-word densities
	dens := make([]int, len(vocab))
	for i := range dens {
		dens[i] = r.Range(1, 9)
	}
	// the last three words are rare: each occurs in one or two documents only
	rare := map[int][]int{}
	for w := len(vocab) - 3; w < len(vocab); w++ {
		dens[w] = 0
		for k := r.Range(1, 2); k > 0; k-- {
			d := r.Intn(ndocs)
			rare[d] = append(rare[d], w)
		}
	}
	mk := func(id int) DocOp {
		op := DocOp{ID: id, N: float64(r.Range(0, 9))}
		for w := range vocab {
			if r.Chance(dens[w], 10) {
				op.F = append(op.F, w)
			}
		}
		op.F = append(op.F, rare[id]...)
		for k := r.Range(0, 5); k > 0; k-- {
			op.T = append(op.T, r.Intn(len(words)))
		}
		op.G = []float64{float64(r.Range(-8, 8)), float64(r.Range(-8, 8))}
		return op
	}
	next := 0
	for bi := 0; bi < nb; bi++ {
		var batch []DocOp
		n := ndocs/nb + r.Range(0, 2)
		for k := 0; k < n && next < ndocs; k++ {
			batch = append(batch, mk(next))
			next++
		}
		// updates and deletes of earlier docs
		if bi > 0 {
			for k := r.Range(0, 3); k > 0 && next > 0; k-- {
				id := r.Intn(next)
				if r.Chance(1, 2) {
					batch = append(batch, DocOp{ID: id, Del: true})
				} else {
					batch = append(batch, mk(id))
				}
			}
		}
		c.Batches = append(c.Batches, batch)
	}
	if engine == "scorch-disk" && len(c.Batches) >= 3 {
		c.MergeAfter = r.Range(2, len(c.Batches)-1)
	}
	return c
}

func termQ(r *vrand.R) *Q { return &Q{K: "term", Term: r.Intn(len(vocab))} }

func genLeafish(r *vrand.R) *Q {
	switch r.Intn(10) {
	case 0:
		return &Q{K: "all"}
	case 1:
		var ids []int
		for k := r.Range(1, 6); k > 0; k-- {
			ids = append(ids, r.Intn(45))
		}
		return &Q{K: "docids", IDs: ids}
	case 2:
		return &Q{K: "none"}
	}
	return termQ(r)
}

func genTree(r *vrand.R, depth int) *Q {
	if depth <= 0 {
		return genLeafish(r)
	}
	sub := func() *Q {
		if r.Chance(1, 3) {
			return genTree(r, depth-1)
		}
		return genLeafish(r)
	}
	subs := func(lo, hi int) []*Q {
		n := r.Range(lo, hi)
		qs := make([]*Q, n)
		for i := range qs {
			qs[i] = sub()
		}
		return qs
	}
	switch r.Intn(9) {
	case 0, 1:
		return &Q{K: "conj", Kids: subs(1, 4)}
	case 2, 3:
		return &Q{K: "disj", Kids: subs(1, 5), Min: r.Range(0, 2)}
	case 4:
		// around DisjunctionHeapTakeover = 10
		n := r.Range(9, 13)
		qs := make([]*Q, n)
		for i := range qs {
			if r.Chance(1, 6) {
				qs[i] = sub()
			} else {
				qs[i] = termQ(r)
			}
		}
		return &Q{K: "disj", Kids: qs, Min: r.Range(0, 2)}
	default:
		q := &Q{K: "bool"}
		if r.Chance(2, 3) {
			q.Must = subs(1, 2)
		}
		if r.Chance(2, 3) {
			q.Should = subs(1, 3)
			q.MinShould = r.Range(0, 2)
			if q.MinShould > len(q.Should) {
				q.MinShould = len(q.Should)
			}
		}
		if r.Chance(1, 2) {
			q.MustNot = subs(1, 2)
		}
		if r.Chance(1, 5) {
			q.Filter = sub()
		}
		if q.Must == nil && q.Should == nil && q.MustNot == nil && q.Filter == nil {
			q.Must = subs(1, 2)
		}
		return q
	}
}

func genProg(r *vrand.R, backward bool) []Op {
	n := r.Range(1, 9)
	p := make([]Op, n)
	for i := range p {
		if r.Chance(2, 5) {
			p[i] = Op{K: "N"}
			continue
		}
		m := []int{0, 0, 0, 1, 1, 1, 2, 2, 3, 4, 4, 6}[r.Intn(12)]
		if backward && r.Chance(1, 3) {
			p[i] = Op{K: "A", M: 5, A: r.Range(0, 50)}
			continue
		}
		p[i] = Op{K: "A", M: m, A: r.Range(0, 12)}
	}
	// make sure programs regularly run past exhaustion
	if r.Chance(1, 4) {
		p = append(p, Op{K: "A", M: 6, A: r.Intn(3)}, Op{K: "N"}, Op{K: "A", M: 0, A: r.Intn(5)})
	}
	return p
}

func unmodelled(r *vrand.R) *Q {
	switch r.Intn(12) {
	case 0:
		return &Q{K: "prefix", Str: vrand.Pick(r, []string{"x", "xa", "z", "y"})}
	case 1:
		return &Q{K: "fuzzy", Str: vrand.Pick(r, []string{"xa", "xbb", "zc", "yc"})}
	case 2:
		return &Q{K: "regexp", Str: vrand.Pick(r, []string{"x[ab]+", "z.", "y.*"})}
	case 3:
		return &Q{K: "wildcard", Str: vrand.Pick(r, []string{"x*", "z?", "*b"})}
	case 4:
		return &Q{K: "termrange"}
	case 5:
		return &Q{K: "phrase", Str: words[r.Intn(len(words))] + " " + words[r.Intn(len(words))]}
	case 6:
		return &Q{K: "match", Str: words[r.Intn(len(words))] + " " + words[r.Intn(len(words))]}
	case 7:
		lo := float64(r.Range(0, 6))
		return &Q{K: "numrange", Lo: lo, Hi: lo + float64(r.Range(1, 5))}
	case 8:
		return &Q{K: "geobox", Lo: float64(r.Range(-8, 2)), Hi: float64(r.Range(-2, 8))}
	case 9:
		return &Q{K: "geodist", Lo: float64(r.Range(-6, 6)), Hi: float64(r.Range(-6, 6))}
	case 10:
		// a modelled compound over unmodelled children, checked as a contract only
		return &Q{K: "conj", Kids: []*Q{{K: "prefix", Str: "x"}, {K: "numrange", Lo: 1, Hi: 8}}}
	}
	return &Q{K: "disj", Min: 1, Kids: []*Q{{K: "phrase", Str: words[r.Intn(len(words))] + " " + words[r.Intn(len(words))]}, {K: "fuzzy", Str: "xa"}}}
}

func gen(f vh.Flags, r *vrand.R, emit func(In)) {
	engines := []string{"scorch-mem", "scorch-mem", "scorch-disk", "upsidedown"}
	ncorp := f.N(12, 600)
	for ci := 0; ci < ncorp; ci++ {
		eng := engines[ci%len(engines)]
		corp := genCorpus(r, eng, r.Range(8, 40))
		scores := []string{"", "none"}
		// modelled trees
		for k := 0; k < 10; k++ {
			q := genTree(r, 3)
			if k < 2 {
				// the shape of the boolean Advance defect and of the heap takeover, every corpus
				q = &Q{K: "bool", Must: []*Q{termQ(r)}, Should: []*Q{termQ(r), termQ(r)}, MinShould: 1 + k}
			}
			score := scores[k%2]
			for p := 0; p < 3; p++ {
				emit(In{Kind: "tree", Corpus: corp, Q: q, Score: score, Prog: genProg(r, false)})
			}
		}
		// readers (scorch): term / doc-id / match-all, with backward targets for the term reader
		for k := 0; k < 3; k++ {
			emit(In{Kind: "tfr", Corpus: corp, Q: termQ(r), Score: scores[k%2], Prog: genProg(r, k > 0)})
			emit(In{Kind: "did", Corpus: corp, Q: genLeafishDid(r), Prog: genProg(r, false)})
		}
		// unadorned AND / OR
		for k := 0; k < 4; k++ {
			n := r.Range(2, 4)
			qs := make([]*Q, n)
			for i := range qs {
				qs[i] = termQ(r)
			}
			q := &Q{K: "conj", Kids: qs}
			if k%2 == 1 {
				q = &Q{K: "disj", Kids: qs, Min: r.Range(0, 1)}
			}
			emit(In{Kind: "una", Corpus: corp, Q: q, Score: "none", Prog: genProg(r, k >= 2)})
		}
		// contract only
		for k := 0; k < 8; k++ {
			q := unmodelled(r)
			if k == 7 {
				q = termQ(r)
			}
			emit(In{Kind: "contract", Corpus: corp, Q: q, Score: scores[k%2], Prog: genProg(r, false)})
		}
	}
	// searchers over an index without any segment (nothing indexed / everything deleted)
	for k := 0; k < 2; k++ {
		corp := Corpus{Engine: []string{"scorch-mem", "upsidedown"}[k]}
		emit(In{Kind: "contract", Corpus: corp, Q: &Q{K: "term", Term: 0}, Prog: []Op{{K: "A", M: 0, A: 0}, {K: "N"}}})
	}
	if f.Tier == "thorough" {
		genExhaustive(r, emit)
	}
}

func genLeafishDid(r *vrand.R) *Q {
	if r.Bool() {
		return &Q{K: "all"}
	}
	var ids []int
	for k := r.Range(1, 8); k > 0; k-- {
		ids = append(ids, r.Intn(45))
	}
	return &Q{K: "docids", IDs: ids}
}

// every forward program of length <= 4 over an id space of <= 6 documents
func genExhaustive(r *vrand.R, emit func(In)) {
	alphabet := []Op{{K: "N"}}
	for a := 0; a <= 6; a++ {
		alphabet = append(alphabet, Op{K: "A", M: 0, A: a})
	}
	var progs [][]Op
	var rec func(p []Op, n int)
	rec = func(p []Op, n int) {
		if len(p) > 0 {
			progs = append(progs, append([]Op(nil), p...))
		}
		if n == 0 {
			return
		}
		for _, o := range alphabet {
			rec(append(p, o), n-1)
		}
	}
	rec(nil, 4)
	for _, eng := range []string{"scorch-mem", "upsidedown"} {
		for ci := 0; ci < 2; ci++ {
			corp := genCorpus(r, eng, 6)
			qs := []*Q{
				{K: "conj", Kids: []*Q{termQ(r), termQ(r)}},
				{K: "disj", Min: 1, Kids: []*Q{termQ(r), termQ(r), termQ(r)}},
				{K: "bool", Must: []*Q{termQ(r)}, Should: []*Q{termQ(r), termQ(r)}, MinShould: 1, MustNot: []*Q{termQ(r)}},
			}
			for _, q := range qs {
				for _, p := range progs {
					emit(In{Kind: "tree", Corpus: corp, Q: q, Prog: p})
				}
			}
		}
	}
}

func main() {
	defer closeAll()
	vh.Main(vh.Config{
		Property:  "C08",
		Imports:   []string{"Cursor.Cursor", "Cursor.Machines", "Cursor.MachCorr"},
		CaseType:  "MachCorr.case",
		CheckFn:   "MachCorr.check",
		ExplainFn: "MachCorr.explain",
		Rule: "corpora of 8-40 documents (13-word keyword field, text/numeric/geo fields) indexed in 2-6 batches with updates and deletes on scorch (in memory, on disk) and upsidedown; " +
			"query trees to depth 3 of term / doc-id / match-all / match-none leaves under conjunction, disjunction (1-13 children, min 0-2), boolean (must/should/must-not/min_should/filter), score default and none; " +
			"kinds: tree (machine + spec), tfr / did (scorch readers with segment offsets; tfr also backward targets), una (unadorned AND/OR), contract (prefix, fuzzy, regexp, wildcard, term range, phrase, match, numeric range, geo, compounds over them); " +
			"programs of 1-12 Next/Advance calls, targets relative to the last returned id: +k, at / just after / just before an existing posting, at segment offsets, beyond the last id, as first call and after exhaustion; " +
			"non-trivial: the program contains an Advance and the searcher returned at least one id",
		ShardSize: 150,
	}, gen, exec)
}
