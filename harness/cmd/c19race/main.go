// C19, the binary built with the race detector (checks/C19.json runs it with -mode conc):
// highlight calls overlapping in time on the shared registered highlighters; see ../c19/core/conc.go.
package main

import "verifharness/cmd/c19/core"

func main() { core.Main() }
