// C11 harness: many goroutines call the public index API at random on one index (Index, Delete,
// Batch, SetInternal, Search with and without deadline, SearchInContext with a context cancelled at
// a random moment, Document, DocCount, FieldDict, Fields, GetInternal, Stats/StatsMap, ForceMerge
// via Advanced(), CopyTo) while Close is issued at a random moment (also several concurrent and
// repeated Close calls), with seeded delays at the scorch hook points.  A second kind of run
// ("backup") is about online backups: several goroutines call CopyTo at the same moment, again and
// again, while writers and forced merges give the merger and the purger work.  Every run happens in
// a CHILD process (this binary, VH_CHILD set) built with -race, so that a data-race report, a
// runtime fatal error or a hang of the whole process is observed by the parent.
//
// Watched on the implementation alone (vh.Direct): panic, data race (exit code 66 / "WARNING: DATA
// RACE" / the runtime's "fatal error: concurrent map writes"), any other runtime fatal error, a call
// or Close outliving the watchdog, goroutines left after Close, a search that returns the context's
// error (or none) too long after the later of the cancellation and its entry into the index (a
// search that waited for the index lock behind Close and returned "index is closed" is judged by the
// closed-index rules instead; the allowance grows with the scheduling latency measured in the
// child meanwhile).  Sent to Coq: the per-goroutine log of (operation, phase, result class)
// judged by Protocol/Corr.v's spec, the deterministic cancellation experiment judged by the
// collector model, and (scorch-disk) the hook-event trace judged by the protocol monitor (whose
// instance has one hidden ForceMerge caller per ForceMerge call issued).
package main

import (
	"encoding/json"
	"fmt"
	"os"
	"os/exec"
	"strings"
	"time"

	cf "verifharness/internal/coqfmt"
	"verifharness/internal/sw"
	"verifharness/internal/vh"
	"verifharness/internal/vrand"
)

type In struct {
	Mode   string    `json:"mode"` // stress | bulk | backup | cancel | close-at | dropwriter
	Layout sw.Layout `json:"layout"`
	// scorch-disk: an explicit persister / merge-planner option set (instead of the one named by Layout.Opts)
	Scorch    *scorchOpts `json:"scorch,omitempty"`
	Workers   int         `json:"workers"`
	Seed      uint64      `json:"seed"`
	DelayUS   int         `json:"delay_us"`   // max seeded delay at a hook point
	CloseMS   int         `json:"close_ms"`   // Close is issued after this long
	Closers   int         `json:"closers"`    // concurrent Close calls
	LateClose bool        `json:"late_close"` // one more Close after the first returned
	Preload   int         `json:"preload"`    // documents indexed before the workers start
	// cancel mode
	NDocs    int `json:"ndocs,omitempty"`
	CancelAt int `json:"cancel_at,omitempty"`
	// close-at mode: Close is issued when this hook event is seen for the n-th time, and the
	// goroutine that hit the hook is held for HoldMS
	Point  string `json:"point,omitempty"`
	Occ    int    `json:"occ,omitempty"`
	HoldMS int    `json:"hold_ms,omitempty"`
	// backup mode: of the Workers goroutines the first Copiers call CopyTo in a loop, the next Writers
	// write (pausing up to WriterNapUS between operations), the rest read
	Copiers     int `json:"copiers,omitempty"`
	Writers     int `json:"writers,omitempty"`
	WriterNapUS int `json:"writer_nap_us,omitempty"`
	// the reading goroutine also forces merges
	ForceMerges bool `json:"force_merges,omitempty"`
	// documents per batch: BatchMin..BatchMax (0: the 2-4 of the stress mix).  In bulk mode the first
	// Writers goroutines do nothing but issue such batches, one after the other
	BatchMin int `json:"batch_min,omitempty"`
	BatchMax int `json:"batch_max,omitempty"`
}

// scorchOpts is a scorchPersisterOptions / scorchMergePlanOptions pair (zero merge-planner fields
// keep the library defaults).
type scorchOpts struct {
	NapUnder    int     `json:"nap_under"` // PersisterNapUnderNumFiles: with at least this many files the persister waits for the merger
	NapMS       int     `json:"nap_ms"`    // PersisterNapTimeMSec
	PWorkers    int     `json:"pworkers"`  // NumPersisterWorkers
	MaxMem      int     `json:"max_mem"`   // MaxSizeInMemoryMergePerWorker
	SegsPerTier int     `json:"segs_per_tier,omitempty"`
	TierGrowth  float64 `json:"tier_growth,omitempty"`
	SegsPerTask int     `json:"segs_per_task,omitempty"`
	FloorSize   int64   `json:"floor_size,omitempty"`
	// a slow merger: the index's event callback sleeps up to this long before every merge round
	// (EventKindPreMergeCheck) and turns one round in four down (the merger then asks again)
	SlowMergerUS int `json:"slow_merger_us,omitempty"`
}

// randScorchOpts draws an option set; pausing = the persister is made to wait for the merger (low
// PersisterNapUnderNumFiles) and the merger is kept busy (it merges whenever there are two segments).
func randScorchOpts(r *vrand.R, pausing bool) *scorchOpts {
	o := &scorchOpts{
		NapUnder: vrand.Pick(r, []int{0, 1, 1, 2, 3, 5, 1000}),
		NapMS:    vrand.Pick(r, []int{0, 0, 1, 5}),
		PWorkers: vrand.Pick(r, []int{1, 1, 2, 4}),
	}
	if o.PWorkers > 1 {
		o.MaxMem = vrand.Pick(r, []int{1, 1000, 100000})
	} else {
		o.MaxMem = vrand.Pick(r, []int{0, 0, 1, 1000})
	}
	switch r.Intn(5) {
	case 0: // library defaults
	case 1: // merges as soon as there are two segments, two at a time: a merger that is always busy
		o.SegsPerTier, o.SegsPerTask, o.FloorSize = 1, 2, 1
	case 2:
		o.SegsPerTier, o.TierGrowth, o.SegsPerTask, o.FloorSize = 2, 2.0, 3, 1
	case 3: // few, large merges
		o.SegsPerTier, o.TierGrowth, o.SegsPerTask, o.FloorSize = 1, 3.0, 8, 1
	case 4: // merges deferred until many segments have piled up
		o.SegsPerTier, o.SegsPerTask, o.FloorSize = 6, 6, 1
	}
	o.SlowMergerUS = vrand.Pick(r, []int{0, 0, 2000, 10000, 30000})
	if pausing {
		o.SlowMergerUS = vrand.Pick(r, []int{5000, 20000, 40000})
		o.NapUnder = vrand.Pick(r, []int{1, 1, 2, 3})
		if o.SegsPerTier == 0 || o.SegsPerTier > 2 {
			o.SegsPerTier, o.SegsPerTask, o.FloorSize = 1, vrand.Pick(r, []int{2, 3, 8}), 1
		}
	}
	return o
}

type opRec struct {
	K  string `json:"k"`
	Ph int    `json:"ph"`
	R  int    `json:"r"`
}

type direct struct {
	Kind   string `json:"kind"`
	Class  string `json:"class,omitempty"`
	Detail string `json:"detail"`
}

type pev struct {
	K string `json:"k"`
	A uint64 `json:"a,omitempty"`
	B uint64 `json:"b,omitempty"`
}

type childOut struct {
	Logs      [][]opRec `json:"logs"`
	Directs   []direct  `json:"directs"`
	OtherErrs []string  `json:"other_errs"` // texts of results classified 3
	Events    []pev     `json:"events"`
	Safe      bool      `json:"safe"`
	// cancel mode
	Handled    int  `json:"handled"`
	Cancelled  bool `json:"cancelled"`
	CountAfter int  `json:"count_after"`
	// statistics
	PostCloseOps    int  `json:"post_close_ops"`
	OverlapOps      int  `json:"overlap_ops"`
	Merges          int  `json:"merges"`
	Persists        int  `json:"persists"`
	ClosedAtHook    bool `json:"closed_at_hook"`
	CopiesOK        int  `json:"copies_ok"`        // backup mode: CopyTo calls that returned nil; bulk mode: batches that returned nil
	SyncRounds      int  `json:"sync_rounds"`      // backup mode: rounds in which all copiers entered CopyTo together
	MaxFlight       int  `json:"max_flight"`       // backup mode: most CopyTo calls in progress at one moment; bulk mode: most Batch calls
	PersisterPauses int  `json:"persister_pauses"` // bulk mode: times the persister began to wait for the merger
	ZapRemoved      int  `json:"zap_removed"`      // segment files the purger removed during the run
}

var opNames = map[string]string{
	"index": "OIndex", "delete": "ODelete", "batch": "OBatch", "setinternal": "OSetInternal", "search": "OSearch",
	"search_deadline": "OSearchDeadline", "search_cancel": "OSearchCancel", "document": "ODocument",
	"doccount": "ODocCount", "fielddict": "OFieldDict", "fields": "OFields", "getinternal": "OGetInternal",
	"stats": "OStats", "forcemerge": "OForceMerge", "copyto": "OCopyTo", "close": "OClose",
}

func gen(f vh.Flags, r *vrand.R, emit func(In)) {
	layouts := []sw.Layout{
		{Config: "scorch-disk", Opts: 2, Unsafe: false},
		{Config: "scorch-mem"},
		{Config: "scorch-disk", Opts: 1, Unsafe: true},
		{Config: "udc-gtreap"},
		{Config: "scorch-disk", Opts: 3, Unsafe: false},
		{Config: "udc-moss"},
		{Config: "scorch-disk", Opts: 0, Unsafe: true},
		{Config: "udc-boltdb"},
	}
	n := f.N(6, 240)
	for k := 0; k < n; k++ {
		l := layouts[k%len(layouts)]
		var so *scorchOpts
		if f.Tier == "thorough" && l.Config == "scorch-disk" {
			l.Opts = r.Intn(5)
			l.Unsafe = r.Chance(1, 2)
		}
		// every other scorch-disk run gets a random persister / merge-planner option set
		if l.Config == "scorch-disk" && k%4 == 2 {
			so = randScorchOpts(r, r.Chance(1, 2))
		}
		in := In{Mode: "stress", Layout: l, Scorch: so, Workers: r.Range(5, 8), Seed: r.U64(), DelayUS: vrand.Pick(r, []int{0, 100, 400, 1500}),
			CloseMS: r.Range(120, 700), Closers: vrand.Pick(r, []int{1, 1, 2, 3}), LateClose: r.Chance(1, 2), Preload: r.Range(10, 60)}
		// one run in four issues large batches (more than the 64 analysis results an index may buffer)
		if r.Chance(1, 4) {
			in.BatchMin, in.BatchMax = 40, 200
		}
		emit(in)
	}
	// Close issued exactly at a rendezvous of the background loops (the goroutine at the hook is held)
	points := []struct {
		p      string
		unsafe bool
	}{{"persist_prepared", true}, {"merge_start", true}, {"persist_pick", true}, {"persist_release_waiters", true},
		{"persist_prepared", false}, {"introduce", true}, {"persist_intro", true}, {"merge_finish", true},
		{"memmerge_written", true}, {"filemerge_written", true}, {"persist_before_commit", true}}
	np := f.N(2, len(points)*4)
	for k := 0; k < np; k++ {
		pt := points[k%len(points)]
		emit(In{Mode: "close-at", Layout: sw.Layout{Config: "scorch-disk", Opts: vrand.Pick(r, []int{0, 1, 2}), Unsafe: pt.unsafe},
			Workers: 3, Seed: r.U64(), Point: pt.p, Occ: r.Range(1, 4), HoldMS: 40, Closers: 1, Preload: 5, CloseMS: 1500})
	}
	// deterministic cancellation inside the collector
	nc := f.N(2, 24)
	for k := 0; k < nc; k++ {
		cfgs := []string{"scorch-mem", "udc-gtreap", "scorch-disk"}
		nd := r.Range(1100, 3300)
		seed, at := r.U64(), r.Range(1, nd+200)
		if k%2 == 0 && at > 1024 {
			// every other case cancels within the first CheckDoneEvery (1024) hits, more hits follow, and
			// so the collector must notice (a collector that does not look at the context is caught)
			at = at%1024 + 1
		}
		emit(In{Mode: "cancel", Layout: sw.Layout{Config: cfgs[k%len(cfgs)], Unsafe: true}, Seed: seed, NDocs: nd, CancelAt: at})
	}
	// the DropFileWriterIDs error path (outside C11's operation list; its own class)
	emit(In{Mode: "dropwriter", Layout: sw.Layout{Config: "scorch-disk", Unsafe: true}, Seed: r.U64()})
	// bulk loading: 2-6 goroutines do nothing but issue batches of 65-300 documents, one after the
	// other, a reader searches and counts, and Close comes in the middle of it (no settle time).  On
	// the upsidedown stores, and on scorch with option sets under which the persister has to wait for
	// the merger
	bulk := []sw.Layout{{Config: "udc-gtreap"}, {Config: "scorch-disk", Unsafe: true}, {Config: "udc-boltdb"}, {Config: "scorch-disk"},
		{Config: "udc-moss"}, {Config: "scorch-mem"}}
	nbulk := f.N(2, 36)
	for k := 0; k < nbulk; k++ {
		l := bulk[k%len(bulk)]
		var so *scorchOpts
		if l.Config == "scorch-disk" {
			so = randScorchOpts(r, true)
		}
		wr := r.Range(2, 6)
		emit(In{Mode: "bulk", Layout: l, Scorch: so, Workers: wr + 1, Writers: wr, BatchMin: 65, BatchMax: 300, Seed: r.U64(),
			DelayUS: vrand.Pick(r, []int{0, 0, 100}), CloseMS: r.Range(300, 800), Closers: vrand.Pick(r, []int{1, 1, 2}), LateClose: r.Chance(1, 2),
			Preload: r.Range(10, 40)})
	}
	// concurrent online backups: 3-4 goroutines call CopyTo in tight loops (two calls of three entered
	// together) while writers with small persister / merge-plan options and forced merges keep the
	// merger and the purger busy (files that left the root are what removeOldZapFiles looks up in the
	// backup reference counts); then Close
	bopts := []int{3, 3, 2, 3, 4, 3} // 3: the persister runs the purger in every round
	nb := f.N(2, 32)
	for k := 0; k < nb; k++ {
		cp := 3 + k%2
		wr := 2 + r.Intn(2)
		emit(In{Mode: "backup", Layout: sw.Layout{Config: "scorch-disk", Opts: bopts[k%len(bopts)], Unsafe: k%2 == 1, Keep: 1},
			Workers: cp + wr + 1, Copiers: cp, Writers: wr, ForceMerges: k%2 == 0, WriterNapUS: vrand.Pick(r, []int{500, 2000, 4000}), Seed: r.U64(),
			DelayUS: vrand.Pick(r, []int{0, 0, 100}), CloseMS: r.Range(500, 900), Closers: vrand.Pick(r, []int{1, 2}), LateClose: r.Chance(1, 2),
			Preload: r.Range(10, 40)})
	}
}

func exec1(in In) vh.Result {
	sj, _ := json.Marshal(in)
	// everything the child creates (index, copies) lives under one scratch directory removed here,
	// also when the child is killed or exits from its watchdog
	scratch, err := os.MkdirTemp("", "vh_c11_run_")
	if err != nil {
		return vh.Result{Direct: &vh.Direct{Kind: "error", Detail: "tempdir: " + err.Error()}}
	}
	defer os.RemoveAll(scratch)
	cmd := exec.Command(os.Args[0])
	cmd.Env = append(os.Environ(), "VH_CHILD="+string(sj), "GORACE=halt_on_error=0 exitcode=66", "TMPDIR="+scratch)
	var ob, eb strings.Builder
	cmd.Stdout = &ob
	cmd.Stderr = &eb
	if err := cmd.Start(); err != nil {
		return vh.Result{Direct: &vh.Direct{Kind: "error", Detail: "cannot start child: " + err.Error()}}
	}
	done := make(chan error, 1)
	go func() { done <- cmd.Wait() }()
	var werr error
	killed := false
	select {
	case werr = <-done:
	case <-time.After(150 * time.Second):
		killed = true
		_ = cmd.Process.Signal(os.Interrupt)
		select {
		case werr = <-done:
		case <-time.After(5 * time.Second):
			_ = cmd.Process.Kill()
			werr = <-done
		}
	}
	code := 0
	if werr != nil {
		if ee, ok := werr.(*exec.ExitError); ok {
			code = ee.ExitCode()
		} else {
			code = -1
		}
	}
	stderr := eb.String()
	hist := []string{"mode:" + in.Mode, "run:" + in.Mode + ":" + in.Layout.Config}
	var out childOut
	parsed := json.Unmarshal([]byte(lastLine(ob.String())), &out) == nil && out.Logs != nil
	res := vh.Result{Hist: hist}
	var ds []direct
	if strings.Contains(stderr, "WARNING: DATA RACE") || code == 66 {
		ds = append(ds, direct{Kind: "data-race", Class: raceClass(stderr), Detail: clip(raceReport(stderr), 6000)})
	}
	if killed {
		ds = append(ds, direct{Kind: "deadlock", Detail: "the child process did not finish within 150 s; stderr tail: " + clip(tail(stderr, 60), 5000)})
	}
	// the runtime's own detection of unsynchronised map access ("fatal error: concurrent map writes",
	// "concurrent map read and map write", ...: the process dies with exit status 2) is a data race
	// that was caught in the act; any other runtime fatal error is a crash of the implementation
	if ft, ex := fatalError(stderr); ft != "" {
		kind, class := "fatal-error", "fatal:"+ft
		if strings.HasPrefix(ft, "concurrent map") {
			kind = "data-race"
		}
		ds = append(ds, direct{Kind: kind, Class: class, Detail: fmt.Sprintf("the child process died (exit status %d) with a runtime fatal error; stderr from there:\n%s", code, clip(ex, 6000))})
	} else if !parsed && !killed {
		kind := "panic"
		if !strings.Contains(stderr, "panic:") {
			kind = "child-failed"
		}
		if len(ds) == 0 || kind == "panic" {
			ds = append(ds, direct{Kind: kind, Detail: fmt.Sprintf("child exited %d without a result; stderr: %s", code, clip(tail(stderr, 80), 6000))})
		}
	}
	ds = append(ds, out.Directs...)
	if len(ds) > 0 {
		d := ds[0]
		detail := d.Detail
		for _, o := range ds[1:] {
			detail += "\n--- also: " + o.Kind + ": " + clip(o.Detail, 800)
		}
		res.Direct = &vh.Direct{Kind: d.Kind, Detail: detail}
		res.Class = d.Class
	}
	if !parsed {
		return res
	}
	switch in.Mode {
	case "cancel":
		res.Term = cf.App("CCancel", cf.Int(in.NDocs), cf.Int(in.CancelAt), cf.Int(out.Handled), cf.Bool(out.Cancelled), cf.Int(out.CountAfter))
		res.Nontrivial = out.Cancelled
		res.Hist = append(res.Hist, fmt.Sprintf("cancelled=%v", out.Cancelled))
	case "dropwriter":
		res.Term = cf.App("CLog", cf.List(nil))
	default:
		logs := cf.ListOf(out.Logs, func(l []opRec) cf.T {
			return cf.ListOf(l, func(o opRec) cf.T { return cf.App("Op", cf.T(opNames[o.K]), cf.Int(o.Ph), cf.Int(o.R)) })
		})
		cases := []cf.T{cf.App("CLog", logs)}
		if in.Layout.Config == "scorch-disk" && len(out.Events) > 0 {
			// ForceMerge has no hook: the monitor's instance gets one (hidden) ForceMerge caller machine
			// per call that was issued
			nfm := 0
			for _, l := range out.Logs {
				for _, o := range l {
					if o.K == "forcemerge" {
						nfm++
					}
				}
			}
			cases = append(cases, cf.App("CTrace", cf.Bool(out.Safe), cf.Int(nfm), cf.ListOf(out.Events, evTerm)))
			res.Hist = append(res.Hist, "traced")
		}
		res.Term = cf.App("CMulti", cf.List(cases))
		nops := 0
		for _, l := range out.Logs {
			nops += len(l)
		}
		res.Hist = append(res.Hist, fmt.Sprintf("ops~%d", nops/200*200), fmt.Sprintf("post_close_ops>0=%v", out.PostCloseOps > 0),
			fmt.Sprintf("overlap_ops>0=%v", out.OverlapOps > 0))
		if in.Mode == "close-at" {
			res.Hist = append(res.Hist, fmt.Sprintf("closed_at:%s=%v", in.Point, out.ClosedAtHook))
			res.Nontrivial = out.ClosedAtHook
		} else if in.Mode == "bulk" {
			res.Hist = append(res.Hist, fmt.Sprintf("bulk:batches_in_flight=%d", min(out.MaxFlight, 4)), fmt.Sprintf("bulk:batches~%d", out.CopiesOK/10*10))
			if in.Scorch != nil {
				res.Hist = append(res.Hist, fmt.Sprintf("bulk:closed_while_persister_waits_for_merger=%v", out.ClosedAtHook),
					fmt.Sprintf("bulk:persister_waited_for_merger=%v", out.PersisterPauses > 0))
			}
			res.Nontrivial = out.MaxFlight >= 2 && out.CopiesOK >= 4 && out.PostCloseOps >= 3 && out.OverlapOps >= 1
		} else if in.Mode == "backup" {
			res.Hist = append(res.Hist, fmt.Sprintf("backup:copies~%d", out.CopiesOK/20*20), fmt.Sprintf("backup:sync_rounds>=2=%v", out.SyncRounds >= 2),
				fmt.Sprintf("backup:max_in_flight=%d", out.MaxFlight), fmt.Sprintf("backup:purger_removed_files=%v", out.ZapRemoved > 0),
				fmt.Sprintf("backup:merges>0=%v", out.Merges > 0))
			res.Nontrivial = out.SyncRounds >= 2 && out.MaxFlight >= 2 && out.ZapRemoved > 0 && out.PostCloseOps >= 3
		} else {
			res.Nontrivial = out.PostCloseOps >= 3 && out.OverlapOps >= 1
		}
		if in.Scorch != nil {
			res.Hist = append(res.Hist, "scorch_option_set", fmt.Sprintf("persister_nap_under_files<=3=%v", in.Scorch.NapUnder >= 1 && in.Scorch.NapUnder <= 3))
		}
		if in.BatchMax > 0 {
			res.Hist = append(res.Hist, "large_batches")
		}
		if len(out.OtherErrs) > 0 {
			res.Hist = append(res.Hist, "other_errors")
			fmt.Fprintf(os.Stderr, "c11: unexpected error texts in %s run: %v\n", in.Layout.Config, out.OtherErrs[:min(len(out.OtherErrs), 5)])
		}
	}
	return res
}

func evTerm(e pev) cf.T {
	switch e.K {
	case "batch_send":
		return cf.App("EvSend", cf.U(e.A))
	case "introduce":
		return cf.App("EvIntroduce", cf.U(e.A))
	case "batch_applied":
		return cf.App("EvApplied", cf.U(e.A))
	case "batch_persisted":
		return cf.App("EvPersisted", cf.U(e.A))
	case "persist_pick":
		return cf.App("EvPick", cf.U(e.B))
	case "persist_intro":
		return "EvPersistIntro"
	case "persist_introduced":
		return "EvPersistIntroduced"
	case "persist_release_waiters":
		return cf.App("EvRelease", cf.U(e.B))
	case "merge_start":
		return cf.App("EvMergeStart", cf.Bool(e.A == 1))
	case "merge_finish":
		return cf.App("EvMergeFinish", cf.Bool(e.A == 1))
	case "memmerge_introduced":
		return cf.App("EvMergeIntroduced", cf.Bool(false))
	case "filemerge_introduced":
		return cf.App("EvMergeIntroduced", cf.Bool(true))
	case "close_begin":
		return "EvCloseBegin"
	case "close_tasks_done":
		return "EvCloseTasksDone"
	}
	return cf.App("EvOther", cf.Str(e.K))
}

func lastLine(s string) string {
	s = strings.TrimRight(s, "\n")
	if i := strings.LastIndexByte(s, '\n'); i >= 0 {
		return s[i+1:]
	}
	return s
}

func tail(s string, n int) string {
	ls := strings.Split(strings.TrimRight(s, "\n"), "\n")
	if len(ls) > n {
		ls = ls[len(ls)-n:]
	}
	return strings.Join(ls, "\n")
}

func clip(s string, n int) string {
	if len(s) > n {
		return s[:n] + " …"
	}
	return s
}

// fatalError finds a runtime "fatal error: ..." line in the child's stderr: its text and the stderr
// from that line on (the message and the first goroutine stacks).
func fatalError(s string) (text, excerpt string) {
	i := -1
	if strings.HasPrefix(s, "fatal error: ") {
		i = 0
	} else if j := strings.Index(s, "\nfatal error: "); j >= 0 {
		i = j + 1
	}
	if i < 0 {
		return "", ""
	}
	rest := s[i:]
	line := rest
	if j := strings.IndexByte(line, '\n'); j >= 0 {
		line = line[:j]
	}
	return strings.TrimSpace(strings.TrimPrefix(line, "fatal error: ")), rest
}

// raceReport returns the first race report of the child's stderr.
func raceReport(s string) string {
	i := strings.Index(s, "WARNING: DATA RACE")
	if i < 0 {
		return "exit code 66 (race detector) without a report on stderr: " + tail(s, 30)
	}
	r := s[i:]
	if j := strings.Index(r, "=================="); j > 0 {
		r = r[:j]
	}
	return r
}

// raceClass names the topmost frame outside the Go runtime of each of the two racing accesses
// (stable across runs).
func raceClass(s string) string {
	rep := raceReport(s)
	var fr []string
	ls := strings.Split(rep, "\n")
	for i, l := range ls {
		if strings.HasPrefix(l, "Write at") || strings.HasPrefix(l, "Read at") || strings.HasPrefix(l, "Previous write at") ||
			strings.HasPrefix(l, "Previous read at") {
			// frames come as "  function(args)" followed by "      file:line +0x.."
			top := ""
			for j := i + 1; j < len(ls) && strings.TrimSpace(ls[j]) != ""; j += 2 {
				f := strings.TrimSpace(ls[j])
				if k := strings.LastIndex(f, "("); k > 0 { // the argument list, not a "(*T)" receiver
					f = f[:k]
				}
				if top == "" {
					top = f
				}
				if !strings.HasPrefix(f, "runtime.") && !strings.HasPrefix(f, "internal/") {
					top = f
					break
				}
			}
			if top != "" {
				fr = append(fr, top)
			}
		}
	}
	return "race:" + strings.Join(fr, "|")
}

func main() {
	if sj := os.Getenv("VH_CHILD"); sj != "" {
		childMain(sj)
		return
	}
	vh.Main(vh.Config{
		Property:  "C11",
		Imports:   []string{"Common.Bytes", "Protocol.Model", "Protocol.Corr", "Protocol.CorrTrace"},
		CaseType:  "CorrTrace.case",
		CheckFn:   "CorrTrace.check",
		ExplainFn: "CorrTrace.explain",
		Rule: "stress: 5-8 goroutines issue random public operations (Index, Delete, Batch, SetInternal, Search, Search with a 0-3 ms deadline, SearchInContext cancelled after 0-500 us, Document, DocCount, FieldDict, Fields, GetInternal, Stats/StatsMap, ForceMerge via Advanced, CopyTo) on scorch-disk (4 option variants, safe/unsafe), scorch-mem and upsidedown (gtreap, moss, boltdb), with seeded delays of up to 1.5 ms at every scorch hook point; Close is issued after 120-700 ms by 1-3 concurrent closers, optionally once more afterwards, and the workers go on for at least 3 operations each after it returned; every run is a child process built with -race. " +
			"Every other scorch-disk stress run uses a random scorchPersisterOptions / scorchMergePlanOptions set (PersisterNapUnderNumFiles 0-5 or 1000, PersisterNapTimeMSec 0-5, NumPersisterWorkers 1-4, MaxSizeInMemoryMergePerWorker, five merge-planner shapes from 'always merging' to 'merges deferred', a merger slowed and turned down at EventKindPreMergeCheck by up to 30 ms; half of them with PersisterNapUnderNumFiles 1-3 and a slow busy merger, so that the persister waits for the merger); one stress run in four issues batches of 40-200 documents. " +
			"bulk: 2-6 goroutines do nothing but issue batches of 65-300 documents one after the other on upsidedown (gtreap, boltdb, moss), scorch-disk (option sets under which the persister waits for the merger; Close is then issued at a moment at which it is waiting) and scorch-mem, a reader searches and counts; Close after 0.3-0.8 s in the middle of the load (later, up to 2.5 s, until as many batches as writers are through and two were in progress at once). " +
			"backup (scorch-disk, small persister / merge-plan options, numSnapshotsToKeep 1): 3-4 goroutines call CopyTo to distinct directories in tight loops, two calls of three entered together through a gate, while 2-3 writers issue small batches, updates and deletions (pausing up to 0.5-4 ms) and one goroutine searches, counts and (every other run) forces merges; Close after 0.5-0.9 s (later, up to 2 s, while fewer than 4 rounds of copiers entering together or fewer than 2 files removed by the purger have been seen), all go on for at least 4 operations afterwards; a runtime 'fatal error: concurrent map ...' of the child counts as a data race. " +
			"close-at: Close is issued exactly when a background loop reaches a named hook point (persist_prepared, merge_start, persist_pick, ...) and that goroutine is held for 40 ms. cancel: n = 1100-3300 matching documents, the context is cancelled by the hit handler at its c-th call (c in 1..n+200; in every other case c <= 1024, so that the collector must notice); handled hits and the result are compared with the collector model. " +
			"A search that returned the context's error or none more than max(2 s, 20 x the worst goroutine wake-up latency measured in the child meanwhile) after the later of the cancellation and its entry into the index (first look at the context's values, which indexImpl does right after taking the read lock) is reported as cancel-slow; hook-event traces go to the protocol monitor with one hidden ForceMerge caller machine per ForceMerge call issued. " +
			"Non-trivial: (stress) at least 3 operations were started after Close returned and at least one overlapped it; (bulk) two batches in progress at one moment, at least 4 batches completed, at least 3 operations started after Close returned and one overlapping it; (backup) at least 2 rounds in which all copiers entered CopyTo together, at least 2 CopyTo calls in progress at one moment, the purger removed at least one segment file during the run and at least 3 operations were started after Close returned; (close-at) Close was issued at the hook; (cancel) the search was cancelled",
		ShardSize: 4,
		Workers:   2,
	}, gen, exec1)
}
