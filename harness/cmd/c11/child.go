package main

import (
	"context"
	"encoding/json"
	"errors"
	"fmt"
	"os"
	"path/filepath"
	"regexp"
	"runtime"
	"runtime/debug"
	"sort"
	"strings"
	"sync"
	"sync/atomic"
	"time"

	"github.com/blevesearch/bleve/v2"
	"github.com/blevesearch/bleve/v2/index/scorch"
	"github.com/blevesearch/bleve/v2/search"
	"github.com/blevesearch/bleve/v2/search/collector"

	"verifharness/internal/strace"
	"verifharness/internal/sw"
	"verifharness/internal/vrand"
)

const (
	callWatchdog  = 20 * time.Second // a single API call / Close may not take longer
	cancelBound   = 2 * time.Second  // a cancelled search must be back within this (see judgeCancel)
	leakGrace     = 3 * time.Second
	runHardLimit  = 60 * time.Second
	postCloseOps  = 4
	maxCopiesARun = 2
	bulkMaxRun    = 2500 * time.Millisecond // ... and so does a bulk-mode run
	backupMaxRun  = 2000 * time.Millisecond // a backup-mode run issues Close at the latest after this long
)

type child struct {
	in  In
	out childOut
	mu  sync.Mutex // protects out.Directs / out.OtherErrs
}

func (c *child) direct(kind, class, detail string) {
	c.mu.Lock()
	c.out.Directs = append(c.out.Directs, direct{Kind: kind, Class: class, Detail: detail})
	c.mu.Unlock()
}

func (c *child) finish() {
	c.mu.Lock()
	b, _ := json.Marshal(&c.out)
	c.mu.Unlock()
	os.Stdout.Write(append([]byte("\n"), append(b, '\n')...))
	os.Exit(0)
}

func childMain(sj string) {
	c := &child{}
	if err := json.Unmarshal([]byte(sj), &c.in); err != nil {
		fmt.Fprintln(os.Stderr, "child: bad spec:", err)
		os.Exit(2)
	}
	c.out.Logs = [][]opRec{}
	startLatMon()
	go func() { // whole-run limit: report what we have, with a goroutine dump
		time.Sleep(runHardLimit)
		c.direct("deadlock", "", "the run did not finish within "+runHardLimit.String()+"\n"+allStacks(12000))
		c.finish()
	}()
	switch c.in.Mode {
	case "cancel":
		c.runCancel()
	case "dropwriter":
		c.runDropWriter()
	default:
		c.runStress()
	}
	c.finish()
}

func allStacks(limit int) string {
	buf := make([]byte, 1<<20)
	n := runtime.Stack(buf, true)
	s := string(buf[:n])
	if len(s) > limit {
		s = s[:limit] + " …"
	}
	return s
}

// ---------------------------------------------------------------- goroutine census

var hexArgs = regexp.MustCompile(`\(0x[0-9a-f, x.{}]*\)|\+0x[0-9a-f]+|goroutine \d+`)

// census counts the goroutines of library code by creation site.
func census() (map[string]int, map[string]string) {
	buf := make([]byte, 4<<20)
	n := runtime.Stack(buf, true)
	counts := map[string]int{}
	sample := map[string]string{}
	for _, blk := range strings.Split(string(buf[:n]), "\n\n") {
		// a goroutine belongs to the library if it was CREATED by library code
		sig := ""
		ls := strings.Split(blk, "\n")
		for i := len(ls) - 1; i >= 0; i-- {
			if strings.HasPrefix(ls[i], "created by ") {
				sig = hexArgs.ReplaceAllString(ls[i], "")
				if j := strings.Index(sig, " in goroutine"); j > 0 {
					sig = sig[:j]
				}
				break
			}
		}
		if !strings.Contains(sig, "blevesearch/") && !strings.Contains(sig, "bbolt") && !strings.Contains(sig, "couchbase/") {
			continue
		}
		counts[sig]++
		sample[sig] = blk
	}
	return counts, sample
}

// ---------------------------------------------------------------- promptness of a cancelled search

var processStart = time.Now()

// mono is the time since the process started (monotonic clock).
func mono() time.Duration { return time.Since(processStart) }

// probeCtx notes when the callee first looks at the context's values: indexImpl.SearchInContext does
// that right after it has taken the index read lock, seen the index open and opened its reader (and
// never before), so this is the moment the search has entered the index.
type probeCtx struct {
	context.Context
	entered atomic.Int64 // mono() of the first Value call; 0 = none
}

func (p *probeCtx) Value(key any) any {
	if p.entered.Load() == 0 {
		p.entered.CompareAndSwap(0, int64(mono()))
	}
	return p.Context.Value(key)
}

// latMon measures how late this process' goroutines are woken: a goroutine sleeps latTick over and
// over and records by how much each sleep overran.  On a machine whose CPUs are oversubscribed (or
// when the process is stopped for a while) the overruns are what any other goroutine suffers too.
type latSample struct{ from, to, over time.Duration }

const latTick = 2 * time.Millisecond

var latMon struct {
	mu      sync.Mutex
	samples []latSample
	cur     atomic.Int64 // start of the sleep in progress
}

func startLatMon() {
	latMon.cur.Store(int64(mono()))
	go func() {
		for {
			t := mono()
			latMon.cur.Store(int64(t))
			time.Sleep(latTick)
			e := mono()
			if over := e - t - latTick; over > time.Millisecond {
				latMon.mu.Lock()
				if len(latMon.samples) < 1<<16 {
					latMon.samples = append(latMon.samples, latSample{t, e, over})
				}
				latMon.mu.Unlock()
			}
		}
	}()
}

// worstLatency is the largest overrun of a sleep that overlapped [from, to] (including the one still
// in progress).
func worstLatency(from, to time.Duration) time.Duration {
	var w time.Duration
	if cur := time.Duration(latMon.cur.Load()); cur <= to {
		if over := mono() - cur - latTick; over > w {
			w = over
		}
	}
	latMon.mu.Lock()
	defer latMon.mu.Unlock()
	for i := len(latMon.samples) - 1; i >= 0; i-- {
		sm := latMon.samples[i]
		if sm.to < from {
			break
		}
		if sm.from <= to && sm.over > w {
			w = sm.over
		}
	}
	return w
}

// judgeCancel: a search whose context has been cancelled must return promptly.  Judged are the
// calls that returned the context's error or no error (a call that returned "index is closed" never
// searched: it waited for the index lock behind Close and is judged by the closed-index rules of
// Corr.v).  The clock starts at the later of the cancellation and the moment the search entered the
// index, and the allowance is cancelBound or, on a starved machine, 20 times the worst wake-up
// latency this process measured in that interval.
func (c *child) judgeCancel(err error, start, cancelAt, entered, ret time.Duration, what string) {
	if cancelAt == 0 || !(err == nil || errors.Is(err, context.Canceled) || errors.Is(err, context.DeadlineExceeded)) {
		return
	}
	from := max(cancelAt, entered, start)
	el := ret - from
	if el <= cancelBound {
		return
	}
	lat := worstLatency(from, ret)
	if bound := max(cancelBound, 20*lat); el > bound {
		c.direct("cancel-slow", "", fmt.Sprintf("%s returned %v after the later of the cancellation and its entry into the index (err=%v; call started at %v, entered the index at %v, cancelled at %v, returned at %v; worst scheduling latency measured meanwhile %v, allowance %v)",
			what, el, err, start, entered, cancelAt, ret, lat, bound))
	}
}

// ---------------------------------------------------------------- classification

func (c *child) classify(err error) int {
	switch {
	case err == nil:
		return 0
	case err == bleve.ErrorIndexClosed:
		return 1
	case errors.Is(err, context.Canceled) || errors.Is(err, context.DeadlineExceeded):
		return 2
	}
	c.mu.Lock()
	if len(c.out.OtherErrs) < 20 {
		c.out.OtherErrs = append(c.out.OtherErrs, err.Error())
	}
	c.mu.Unlock()
	return 3
}

// ---------------------------------------------------------------- stress / close-at

type curOp struct {
	kind  string
	start time.Time
}

type runCtx struct {
	c             *child
	idx           bleve.Index
	closeIssued   atomic.Int64
	closeReturned atomic.Int64
	cur           []atomic.Pointer[curOp]
	copies        atomic.Int32
	stop          atomic.Bool
	tmp           string
	// backup mode
	gate       *gate
	inflight   atomic.Int32 // CopyTo calls in progress
	maxFlight  atomic.Int32
	copiesOK   atomic.Int32 // CopyTo calls that returned nil
	syncRounds atomic.Int32 // rounds in which all copiers were released together
	zapRemoved atomic.Int32 // segment files removed by the purger so far
}

func (rc *runCtx) do(g int, log *[]opRec, kind string, fn func() error) {
	cr := rc.closeReturned.Load()
	rc.cur[g].Store(&curOp{kind, time.Now()})
	var err error
	func() {
		defer func() {
			if e := recover(); e != nil {
				class := ""
				if kind == "close" && cr == 0 && fmt.Sprint(e) == "close of closed channel" {
					class = "double-close-panic"
				}
				rc.c.direct("panic", class, fmt.Sprintf("%s panicked: %v\n%s", kind, e, clip(string(debug.Stack()), 5000)))
				err = nil
			}
		}()
		err = fn()
	}()
	rc.cur[g].Store(nil)
	ci := rc.closeIssued.Load()
	ph := 1
	if cr != 0 {
		ph = 2
	} else if ci == 0 {
		ph = 0
	}
	*log = append(*log, opRec{K: kind, Ph: ph, R: rc.c.classify(err)})
}

func (c *child) runStress() {
	in := c.in
	before, _ := census()
	tmp, _ := os.MkdirTemp("", "vh_c11_copy_")
	defer os.RemoveAll(tmp)
	c.out.Safe = in.Layout.Config == "scorch-disk" && !in.Layout.Unsafe
	W := in.Workers
	nClosers := max(in.Closers, 1)
	total := W + nClosers + 1
	rc := &runCtx{c: c, cur: make([]atomic.Pointer[curOp], total), tmp: tmp}
	if in.Mode == "backup" {
		rc.gate = newGate(in.Copiers)
	}
	logs := make([][]opRec, total)

	// hook events: record, delay, and (close-at mode) trigger Close
	closeNow := make(chan struct{})
	closeBegun := make(chan struct{})
	var closeOnce, beganOnce sync.Once
	var rec *strace.Recorder
	var idx bleve.Index
	var err error
	if in.Layout.Config == "scorch-disk" {
		// the recorder and its callback must be in place before the index (and its loops) exist
		dir, derr := os.MkdirTemp("", "vh_c11_idx_")
		if derr != nil {
			c.direct("error", "", "tempdir: "+derr.Error())
			return
		}
		defer os.RemoveAll(dir)
		path := filepath.Join(dir, "idx")
		rec = strace.Start(path)
		defer rec.Stop()
		var dmu sync.Mutex
		dr := vrand.New(in.Seed ^ 0x9e3779b97f4a7c15)
		seen := 0
		rec.OnEvent = func(ev *scorch.VerifEvent) {
			name := ev.Kind
			if ev.Kind == "point" {
				name = ev.Name
			}
			dmu.Lock()
			d := 0
			if in.DelayUS > 0 && !dr.Chance(2, 3) {
				d = dr.Intn(in.DelayUS)
			}
			hit := false
			if in.Mode == "close-at" && name == in.Point && rc.closeIssued.Load() == 0 {
				seen++
				hit = seen == in.Occ
			}
			dmu.Unlock()
			if name == "zap_remove" {
				rc.zapRemoved.Add(1)
			}
			if name == "close_begin" {
				beganOnce.Do(func() { close(closeBegun) })
			}
			if hit {
				// hold this goroutine until Scorch.Close is under way (closeCh about to be closed), then a
				// little longer so that the other loops take their closeCh arms first
				c.out.ClosedAtHook = true
				closeOnce.Do(func() { close(closeNow) })
				select {
				case <-closeBegun:
				case <-time.After(3 * time.Second):
				}
				time.Sleep(time.Duration(in.HoldMS) * time.Millisecond)
				return
			}
			if d > 0 {
				time.Sleep(time.Duration(d) * time.Microsecond)
			}
		}
		idx, err = bleve.NewUsing(path, sw.Mapping(), scorch.Name, scorch.Name, scorchConfig(in))
	} else {
		var dir string
		idx, _, dir, err = sw.Open(in.Layout)
		if dir != "" {
			defer os.RemoveAll(dir)
		}
	}
	if err != nil {
		c.direct("error", "", "open: "+err.Error())
		return
	}
	rc.idx = idx

	// preload
	b := idx.NewBatch()
	for i := 0; i < in.Preload; i++ {
		_ = b.Index(sw.DocName(i), sw.DocFor(i, 1))
	}
	if err := idx.Batch(b); err != nil {
		c.direct("error", "", "preload: "+err.Error())
		return
	}

	// watchdog over individual calls
	wdStop := make(chan struct{})
	go func() {
		t := time.NewTicker(100 * time.Millisecond)
		defer t.Stop()
		for {
			select {
			case <-wdStop:
				return
			case <-t.C:
				for g := range rc.cur {
					if op := rc.cur[g].Load(); op != nil && time.Since(op.start) > callWatchdog {
						c.direct("deadlock", "", fmt.Sprintf("%s (goroutine %d) has not returned after %v (Close issued: %v, returned: %v)\n%s",
							op.kind, g, callWatchdog, rc.closeIssued.Load() != 0, rc.closeReturned.Load() != 0, allStacks(14000)))
						rc.stop.Store(true)
						c.out.Logs = [][]opRec{} // logs of blocked goroutines are not safe to read
						c.finish()
					}
				}
			}
		}
	}()

	var wg sync.WaitGroup
	for g := 0; g < W; g++ {
		wg.Add(1)
		go func(g int) {
			defer wg.Done()
			r := vrand.New(in.Seed + uint64(g)*7919)
			if in.Mode == "backup" {
				rc.backupWorker(g, &logs[g], r)
			} else if in.Mode == "bulk" {
				rc.bulkWorker(g, &logs[g], r)
			} else {
				rc.worker(g, &logs[g], r)
			}
		}(g)
	}
	if in.Mode == "backup" {
		// Close after CloseMS, but (on a slow or busy machine) not before the copiers have entered
		// CopyTo together a few times and the purger has removed files; never later than backupMaxRun
		go func() {
			t0 := time.Now()
			for {
				el := time.Since(t0)
				if el >= time.Duration(in.CloseMS)*time.Millisecond && rc.syncRounds.Load() >= 4 && rc.zapRemoved.Load() >= 2 {
					break
				}
				if el >= backupMaxRun || rc.stop.Load() {
					break
				}
				time.Sleep(10 * time.Millisecond)
			}
			closeOnce.Do(func() { close(closeNow) })
		}()
	}
	if in.Mode == "bulk" {
		// Close after CloseMS, in the middle of the load, but (on a slow or busy machine) not before as many
		// batches as there are writers have got through and two were in progress at once; when the option
		// set makes the persister wait for the merger, Close is issued at a moment at which it is
		// waiting (its pause / resume counters differ).  Never later than bulkMaxRun
		wantPause := in.Layout.Config == "scorch-disk" && in.Scorch != nil && in.Scorch.NapUnder >= 1 && in.Scorch.NapUnder <= 3
		var st *scorch.Stats
		if adv, err := idx.Advanced(); err == nil {
			if sc, ok := adv.(*scorch.Scorch); ok {
				st, _ = sc.Stats().(*scorch.Stats)
			}
		}
		paused := func() bool {
			return st != nil && atomic.LoadUint64(&st.TotPersisterSlowMergerPause) > atomic.LoadUint64(&st.TotPersisterSlowMergerResume)
		}
		defer func() {
			if st != nil {
				c.out.PersisterPauses = int(atomic.LoadUint64(&st.TotPersisterSlowMergerPause))
			}
		}()
		go func() {
			t0 := time.Now()
			for {
				el := time.Since(t0)
				enough := int(rc.copiesOK.Load()) >= in.Writers && rc.maxFlight.Load() >= 2
				if el >= time.Duration(in.CloseMS)*time.Millisecond && enough && (!wantPause || paused()) {
					if wantPause {
						c.out.ClosedAtHook = true
					}
					break
				}
				if el >= bulkMaxRun || rc.stop.Load() {
					break
				}
				time.Sleep(200 * time.Microsecond)
			}
			closeOnce.Do(func() { close(closeNow) })
		}()
	}
	// closers
	var cg sync.WaitGroup
	for k := 0; k < nClosers; k++ {
		cg.Add(1)
		go func(k int) {
			defer cg.Done()
			closeAfter := time.Duration(in.CloseMS) * time.Millisecond
			if in.Mode == "backup" || in.Mode == "bulk" {
				closeAfter = bulkMaxRun // closeNow comes earlier, as soon as the run has seen enough
			}
			select {
			case <-closeNow:
			case <-time.After(closeAfter):
			}
			rc.closeIssued.CompareAndSwap(0, 1)
			rc.do(W+k, &logs[W+k], "close", func() error { return idx.Close() })
			rc.closeReturned.CompareAndSwap(0, 1)
		}(k)
	}
	cg.Wait()
	if in.LateClose {
		rc.do(W+nClosers, &logs[W+nClosers], "close", func() error { return idx.Close() })
	}
	wg.Wait()
	close(wdStop)
	// the workers are done and Close has returned: nothing of the index may be running
	deadline := time.Now().Add(leakGrace)
	for {
		after, sample := census()
		var leaks []string
		for sig, n := range after {
			if n > before[sig] {
				leaks = append(leaks, fmt.Sprintf("%d x %s\n%s", n-before[sig], sig, clip(sample[sig], 1500)))
			}
		}
		if len(leaks) == 0 {
			break
		}
		if time.Now().After(deadline) {
			sort.Strings(leaks)
			c.direct("goroutine-leak", "", fmt.Sprintf("goroutines still alive %v after Close returned:\n%s", leakGrace, strings.Join(leaks, "\n")))
			break
		}
		time.Sleep(50 * time.Millisecond)
	}
	c.out.Logs = logs
	for _, l := range logs {
		for _, o := range l {
			if o.Ph == 2 {
				c.out.PostCloseOps++
			}
			if o.Ph == 1 {
				c.out.OverlapOps++
			}
		}
	}
	if rec != nil {
		c.out.Events = linearize(rec.Events())
		for _, p := range c.out.Events {
			switch p.K {
			case "merge_finish":
				c.out.Merges++
			case "persist_intro":
				c.out.Persists++
			}
		}
	}
	c.out.ZapRemoved = int(rc.zapRemoved.Load())
	c.out.CopiesOK = int(rc.copiesOK.Load())
	c.out.SyncRounds = int(rc.syncRounds.Load())
	c.out.MaxFlight = int(rc.maxFlight.Load())
}

// linearize projects the recorded events and repairs the one place where the recording order can
// differ from the order of the steps: the introducer reports a root swap AFTER releasing rootLock,
// so a persist_pick that already saw that root (its epoch is >= the swap's) may be recorded first.
// Introducer events whose epoch the pick has seen are moved in front of it.  Introduction ids are
// renamed to 0,1,2,... in order of their batch_send.
func linearize(evs []*scorch.VerifEvent) []pev {
	type item struct {
		p     pev
		epoch uint64
		intro bool
		used  bool
	}
	var items []*item
	for _, ev := range evs {
		if p, ok := project(ev); ok {
			it := &item{p: p}
			switch p.K {
			case "introduce", "persist_intro", "merge_finish":
				it.intro, it.epoch = true, ev.Epoch
			case "persist_pick":
				it.epoch = p.A
			}
			items = append(items, it)
		}
	}
	var out []pev
	for i, it := range items {
		if it.used {
			continue
		}
		if it.p.K == "persist_pick" {
			for _, later := range items[i+1:] {
				if later.intro && !later.used && later.epoch <= it.epoch {
					later.used = true
					out = append(out, later.p)
				}
			}
		}
		it.used = true
		out = append(out, it.p)
	}
	ids := map[uint64]uint64{}
	var res []pev
	for _, p := range out {
		switch p.K {
		case "batch_send":
			ids[p.A] = uint64(len(ids))
			p.A = ids[p.A]
		case "introduce", "batch_applied", "batch_persisted":
			n, ok := ids[p.A]
			if !ok {
				p = pev{K: "unknown_" + p.K, A: p.A}
			} else {
				p.A = n
			}
		}
		res = append(res, p)
	}
	return res
}

func project(ev *scorch.VerifEvent) (pev, bool) {
	arg := func(i int) uint64 {
		if i < len(ev.Args) {
			return ev.Args[i]
		}
		return 0
	}
	b2u := func(b bool) uint64 {
		if b {
			return 1
		}
		return 0
	}
	switch ev.Kind {
	case "point":
		switch ev.Name {
		case "batch_send", "batch_applied", "batch_persisted":
			return pev{K: ev.Name, A: arg(0)}, true
		case "persist_pick", "persist_release_waiters":
			return pev{K: ev.Name, A: arg(0), B: arg(1)}, true
		case "persist_introduced", "memmerge_introduced", "filemerge_introduced", "close_begin", "close_tasks_done":
			return pev{K: ev.Name}, true
		}
	case "introduce":
		return pev{K: "introduce", A: ev.IntroID}, true
	case "persist_intro":
		return pev{K: "persist_intro"}, true
	case "merge_start":
		return pev{K: "merge_start", A: b2u(ev.FileMerge)}, true
	case "merge_finish":
		return pev{K: "merge_finish", A: b2u(ev.FileMerge)}, true
	}
	return pev{}, false
}

var opWeights = []struct {
	k string
	w int
}{{"index", 14}, {"delete", 6}, {"batch", 10}, {"setinternal", 3}, {"search", 14}, {"search_deadline", 8}, {"search_cancel", 8},
	{"document", 8}, {"doccount", 8}, {"fielddict", 5}, {"fields", 3}, {"getinternal", 4}, {"stats", 4}, {"forcemerge", 2}, {"copyto", 1}}

func (rc *runCtx) worker(g int, log *[]opRec, r *vrand.R) {
	idx := rc.idx
	in := rc.c.in
	disk := in.Layout.Config == "scorch-disk"
	totalW := 0
	for _, ow := range opWeights {
		totalW += ow.w
	}
	after := 0
	start := time.Now()
	ver := int64(1)
	for !rc.stop.Load() {
		if rc.closeReturned.Load() != 0 {
			after++
			if after > postCloseOps+g%3 {
				return
			}
		}
		if time.Since(start) > 30*time.Second {
			return
		}
		x := r.Intn(totalW)
		kind := ""
		for _, ow := range opWeights {
			if x < ow.w {
				kind = ow.k
				break
			}
			x -= ow.w
		}
		id := r.Intn(48)
		ver++
		switch kind {
		case "index":
			rc.do(g, log, kind, func() error { return idx.Index(sw.DocName(id), sw.DocFor(id, ver)) })
		case "delete":
			rc.do(g, log, kind, func() error { return idx.Delete(sw.DocName(id)) })
		case "batch":
			if in.BatchMax > 0 {
				n := r.Range(in.BatchMin, in.BatchMax)
				rc.do(g, log, kind, func() error { return rc.bigBatch(g, id, n, ver) })
				continue
			}
			rc.do(g, log, kind, func() error {
				b := idx.NewBatch()
				for k := 0; k < 2+id%3; k++ {
					if (id+k)%4 == 0 {
						b.Delete(sw.DocName((id + k) % 48))
					} else if err := b.Index(sw.DocName((id+k)%48), sw.DocFor(id+k, ver)); err != nil {
						return err
					}
				}
				b.SetInternal([]byte(sw.KeyName(g)), []byte(fmt.Sprint(ver)))
				return idx.Batch(b)
			})
		case "setinternal":
			rc.do(g, log, kind, func() error { return idx.SetInternal([]byte(sw.KeyName(g)), []byte(fmt.Sprint(ver))) })
		case "search":
			rc.do(g, log, kind, func() error {
				_, err := idx.Search(rc.request(id))
				return err
			})
		case "search_deadline":
			d := time.Duration(r.Intn(3000)) * time.Microsecond
			rc.do(g, log, kind, func() error {
				ctx, cancel := context.WithTimeout(context.Background(), d)
				defer cancel()
				_, err := idx.SearchInContext(ctx, rc.request(id))
				return err
			})
		case "search_cancel":
			d := time.Duration(r.Intn(500)) * time.Microsecond
			rc.do(g, log, kind, func() error {
				ctx, cancel := context.WithCancel(context.Background())
				defer cancel()
				pc := &probeCtx{Context: ctx}
				var cancelAt atomic.Int64
				doCancel := func() {
					cancelAt.CompareAndSwap(0, int64(mono()))
					cancel()
				}
				start := mono()
				if d == 0 {
					doCancel()
				} else {
					t := time.AfterFunc(d, doCancel)
					defer t.Stop()
				}
				_, err := idx.SearchInContext(pc, rc.request(id))
				rc.c.judgeCancel(err, start, time.Duration(cancelAt.Load()), time.Duration(pc.entered.Load()), mono(),
					fmt.Sprintf("SearchInContext with a context cancelled %v after the call", d))
				return err
			})
			// the index stays usable
			rc.do(g, log, "doccount", func() error { _, err := idx.DocCount(); return err })
		case "document":
			rc.do(g, log, kind, func() error { _, err := idx.Document(sw.DocName(id)); return err })
		case "doccount":
			rc.do(g, log, kind, func() error { _, err := idx.DocCount(); return err })
		case "fielddict":
			rc.do(g, log, kind, func() error {
				fd, err := idx.FieldDict("body")
				if err != nil {
					return err
				}
				for k := 0; k < 5; k++ {
					if e, err := fd.Next(); err != nil || e == nil {
						break
					}
				}
				return fd.Close() // releases the index read lock
			})
		case "fields":
			rc.do(g, log, kind, func() error { _, err := idx.Fields(); return err })
		case "getinternal":
			rc.do(g, log, kind, func() error { _, err := idx.GetInternal([]byte(sw.KeyName(id % 8))); return err })
		case "stats":
			rc.do(g, log, kind, func() error {
				st := idx.Stats()
				if st != nil {
					if _, err := json.Marshal(st); err != nil {
						return err
					}
				}
				_ = idx.StatsMap()
				return nil
			})
		case "forcemerge":
			if !disk {
				continue // on an in-memory scorch index ForceMerge waits for Close (no merger goroutine)
			}
			rc.do(g, log, kind, func() error { sw.ForceMerge(idx); return nil })
		case "copyto":
			if !disk || rc.copies.Add(1) > maxCopiesARun {
				continue
			}
			dst := filepath.Join(rc.tmp, fmt.Sprintf("c%d-%d", g, ver))
			rc.do(g, log, kind, func() error { return idx.(bleve.IndexCopyable).CopyTo(bleve.FileSystemDirectory(dst)) })
			os.RemoveAll(dst)
		}
	}
}

// ---------------------------------------------------------------- scorch option sets, bulk mode

// scorchConfig: the configuration of a scorch-disk index; an explicit option set replaces the one
// named by Layout.Opts.
func scorchConfig(in In) map[string]interface{} {
	kvc := sw.ScorchConfig(in.Layout)
	if o := in.Scorch; o != nil {
		kvc["scorchPersisterOptions"] = map[string]interface{}{"PersisterNapUnderNumFiles": o.NapUnder, "PersisterNapTimeMSec": o.NapMS,
			"NumPersisterWorkers": o.PWorkers, "MaxSizeInMemoryMergePerWorker": o.MaxMem}
		delete(kvc, "scorchMergePlanOptions")
		mo := map[string]interface{}{}
		if o.SegsPerTier > 0 {
			mo["MaxSegmentsPerTier"] = o.SegsPerTier
		}
		if o.TierGrowth > 0 {
			mo["TierGrowth"] = o.TierGrowth
		}
		if o.SegsPerTask > 0 {
			mo["SegmentsPerMergeTask"] = o.SegsPerTask
		}
		if o.FloorSize > 0 {
			mo["FloorSegmentSize"] = o.FloorSize
		}
		if len(mo) > 0 {
			kvc["scorchMergePlanOptions"] = mo
		}
		if o.SlowMergerUS > 0 {
			var mu sync.Mutex
			er := vrand.New(in.Seed ^ 0x51ed270b0b1f7a3d)
			scorch.RegistryEventCallbacks["c11-slow-merger"] = func(ev scorch.Event) bool {
				if ev.Kind != scorch.EventKindPreMergeCheck {
					return true
				}
				mu.Lock()
				d, goOn := er.Intn(o.SlowMergerUS), !er.Chance(1, 4)
				mu.Unlock()
				time.Sleep(time.Duration(d) * time.Microsecond)
				return goOn
			}
			kvc["eventCallbackName"] = "c11-slow-merger"
		}
	}
	return kvc
}

const bulkIDs = 600 // document ids used by large batches

// bigBatch issues one batch of n operations (mostly updates, some deletions) over bulkIDs ids.
func (rc *runCtx) bigBatch(g, id, n int, ver int64) error {
	b := rc.idx.NewBatch()
	for k := 0; k < n; k++ {
		d := (id*131 + k*7) % bulkIDs
		if k%11 == 10 {
			b.Delete(sw.DocName(d))
		} else if err := b.Index(sw.DocName(d), sw.DocFor(d, ver)); err != nil {
			return err
		}
	}
	b.SetInternal([]byte(sw.KeyName(g)), []byte(fmt.Sprint(ver)))
	nf := rc.inflight.Add(1)
	for {
		m := rc.maxFlight.Load()
		if nf <= m || rc.maxFlight.CompareAndSwap(m, nf) {
			break
		}
	}
	err := rc.idx.Batch(b)
	rc.inflight.Add(-1)
	if err == nil {
		rc.copiesOK.Add(1)
	}
	return err
}

// bulkWorker: goroutines 0..Writers-1 issue large batches one after the other (no pause), the others
// search and count.  All go on for a few operations after Close has returned.
func (rc *runCtx) bulkWorker(g int, log *[]opRec, r *vrand.R) {
	idx := rc.idx
	in := rc.c.in
	after := 0
	start := time.Now()
	ver := int64(1)
	for it := 0; !rc.stop.Load(); it++ {
		closed := rc.closeReturned.Load() != 0
		if closed {
			after++
			if after > postCloseOps+g%3 {
				return
			}
		}
		if time.Since(start) > 30*time.Second {
			return
		}
		id := r.Intn(bulkIDs)
		ver++
		if g < in.Writers {
			n := r.Range(in.BatchMin, in.BatchMax)
			rc.do(g, log, "batch", func() error { return rc.bigBatch(g, id, n, ver) })
			continue
		}
		if it%2 == 0 {
			rc.do(g, log, "search", func() error {
				_, err := idx.Search(rc.request(id))
				return err
			})
		} else {
			rc.do(g, log, "doccount", func() error { _, err := idx.DocCount(); return err })
		}
		if !closed {
			time.Sleep(time.Duration(r.Intn(2000)) * time.Microsecond)
		}
	}
}

// ---------------------------------------------------------------- backup mode

// gate releases its n parties together: the k-th arrival of a round opens it for all.  A party
// that has waited for gateWait goes on alone (the others may have left after Close).
type gate struct {
	mu sync.Mutex
	n  int
	in int
	ch chan struct{}
}

const gateWait = 40 * time.Millisecond

func newGate(n int) *gate { return &gate{n: n, ch: make(chan struct{})} }

// arrive reports whether the whole round was released together (full) and whether the caller was
// the one that opened it (last).
func (gt *gate) arrive() (full bool, last bool) {
	gt.mu.Lock()
	gt.in++
	if gt.in >= gt.n {
		close(gt.ch)
		gt.ch = make(chan struct{})
		gt.in = 0
		gt.mu.Unlock()
		return true, true
	}
	ch := gt.ch
	gt.mu.Unlock()
	t := time.NewTimer(gateWait)
	defer t.Stop()
	select {
	case <-ch:
		return true, false
	case <-t.C:
	}
	gt.mu.Lock()
	defer gt.mu.Unlock()
	if gt.ch == ch { // the round is still open: leave it
		gt.in--
		return false, false
	}
	return true, false
}

// backupWorker: goroutines 0..Copiers-1 call CopyTo in a tight loop (two calls of three are started
// together with the other copiers' through the gate), the next Writers goroutines produce small
// segments (batches, single updates, deletions), the remaining ones search, count and (ForceMerges)
// force merges, so that the merger and the purger have work.  All go on for a few operations after Close has
// returned.
func (rc *runCtx) backupWorker(g int, log *[]opRec, r *vrand.R) {
	idx := rc.idx
	in := rc.c.in
	after := 0
	start := time.Now()
	ver := int64(1)
	for it := 0; !rc.stop.Load(); it++ {
		closed := rc.closeReturned.Load() != 0
		if closed {
			after++
			if after > postCloseOps+g%3 {
				return
			}
		}
		if time.Since(start) > 30*time.Second {
			return
		}
		id := r.Intn(48)
		ver++
		switch {
		case g < in.Copiers:
			if it%3 != 2 && !closed {
				if full, last := rc.gate.arrive(); full && last {
					rc.syncRounds.Add(1)
				}
			}
			dst := filepath.Join(rc.tmp, fmt.Sprintf("b%d-%d", g, it))
			rc.do(g, log, "copyto", func() error {
				n := rc.inflight.Add(1)
				for {
					m := rc.maxFlight.Load()
					if n <= m || rc.maxFlight.CompareAndSwap(m, n) {
						break
					}
				}
				err := idx.(bleve.IndexCopyable).CopyTo(bleve.FileSystemDirectory(dst))
				rc.inflight.Add(-1)
				if err == nil {
					rc.copiesOK.Add(1)
				}
				return err
			})
			os.RemoveAll(dst)
		case g < in.Copiers+in.Writers:
			switch x := r.Intn(10); {
			case x < 6:
				rc.do(g, log, "batch", func() error {
					b := idx.NewBatch()
					for k := 0; k < 2+id%3; k++ {
						if (id+k)%5 == 0 {
							b.Delete(sw.DocName((id + k) % 48))
						} else if err := b.Index(sw.DocName((id+k)%48), sw.DocFor(id+k, ver)); err != nil {
							return err
						}
					}
					b.SetInternal([]byte(sw.KeyName(g)), []byte(fmt.Sprint(ver)))
					return idx.Batch(b)
				})
			case x < 9:
				rc.do(g, log, "index", func() error { return idx.Index(sw.DocName(id), sw.DocFor(id, ver)) })
			default:
				rc.do(g, log, "delete", func() error { return idx.Delete(sw.DocName(id)) })
			}
			if !closed {
				time.Sleep(time.Duration(r.Intn(in.WriterNapUS+1)) * time.Microsecond)
			}
		default:
			k := it % 4
			if k == 3 && !in.ForceMerges {
				k = 1
			}
			switch k {
			case 0, 2:
				rc.do(g, log, "search", func() error {
					_, err := idx.Search(rc.request(id))
					return err
				})
			case 1:
				rc.do(g, log, "doccount", func() error { _, err := idx.DocCount(); return err })
			default:
				// a forced merge of what the writers have produced: the merged-away files are what the
				// purger looks at next
				rc.do(g, log, "forcemerge", func() error { sw.ForceMerge(idx); return nil })
			}
			if !closed {
				time.Sleep(time.Duration(r.Intn(2000)) * time.Microsecond)
			}
		}
	}
}

func (rc *runCtx) request(id int) *bleve.SearchRequest {
	var req *bleve.SearchRequest
	switch id % 4 {
	case 0:
		req = bleve.NewSearchRequestOptions(bleve.NewMatchAllQuery(), 10, 0, false)
	case 1:
		req = bleve.NewSearchRequestOptions(bleve.NewMatchQuery(sw.Words[id%len(sw.Words)]), 10, 0, false)
		req.Fields = []string{"v"}
	case 2:
		q := bleve.NewTermQuery(sw.Words[id%3])
		q.SetField("tag")
		req = bleve.NewSearchRequestOptions(q, 5, 1, false)
		req.AddFacet("tags", bleve.NewFacetRequest("tag", 3))
	default:
		mn, mx := 1.0, 5.0
		req = bleve.NewSearchRequestOptions(bleve.NewNumericRangeQuery(&mn, &mx), 10, 0, false)
		req.SortBy([]string{"-n", "_id"})
	}
	return req
}

// ---------------------------------------------------------------- deterministic cancellation

func (c *child) runCancel() {
	in := c.in
	idx, _, dir, err := sw.Open(in.Layout)
	if dir != "" {
		defer os.RemoveAll(dir)
	}
	if err != nil {
		c.direct("error", "", "open: "+err.Error())
		return
	}
	defer idx.Close()
	for lo := 0; lo < in.NDocs; lo += 500 {
		b := idx.NewBatch()
		for i := lo; i < min(lo+500, in.NDocs); i++ {
			_ = b.Index(sw.DocName(i), map[string]interface{}{"tag": "x"})
		}
		if err := idx.Batch(b); err != nil {
			c.direct("error", "", "index: "+err.Error())
			return
		}
	}
	ctx, cancel := context.WithCancel(context.Background())
	defer cancel()
	handled := 0
	var cancelAt time.Duration // set by the hit handler, on the searching goroutine
	maker := func(sc *search.SearchContext) (search.DocumentMatchHandler, bool, error) {
		inner, loadID, err := collector.MakeTopNDocumentMatchHandler(sc)
		if err != nil {
			return nil, false, err
		}
		return func(d *search.DocumentMatch) error {
			if d != nil {
				handled++
				if handled == in.CancelAt {
					cancelAt = mono()
					cancel()
				}
			}
			return inner(d)
		}, loadID, nil
	}
	ctx2 := context.WithValue(ctx, search.MakeDocumentMatchHandlerKey, search.MakeDocumentMatchHandler(maker))
	var serr error
	pc := &probeCtx{Context: ctx2}
	start := mono()
	func() {
		defer func() {
			if e := recover(); e != nil {
				c.direct("panic", "", fmt.Sprintf("cancelled search panicked: %v\n%s", e, clip(string(debug.Stack()), 4000)))
			}
		}()
		_, serr = idx.SearchInContext(pc, bleve.NewSearchRequestOptions(bleve.NewMatchAllQuery(), 10, 0, false))
	}()
	c.judgeCancel(serr, start, cancelAt, time.Duration(pc.entered.Load()), mono(),
		fmt.Sprintf("search over %d documents with the context cancelled by the handler of hit %d", in.NDocs, in.CancelAt))
	c.out.Handled = handled
	switch c.classify(serr) {
	case 2:
		c.out.Cancelled = true
	case 0:
	default:
		c.direct("error", "", fmt.Sprintf("cancelled search returned %v", serr))
	}
	n, err := idx.DocCount()
	if err != nil {
		c.direct("error", "", "the index did not answer after a cancelled search: "+err.Error())
	}
	c.out.CountAfter = int(n)
	c.out.Logs = [][]opRec{}
}

// ---------------------------------------------------------------- DropFileWriterIDs error path

// DropFileWriterIDs takes the index write lock and returns without releasing it when rewriting
// index_meta.json fails (here: the temp file already exists).  Not one of C11's operations: reported
// under its own class.
func (c *child) runDropWriter() {
	idx, path, dir, err := sw.Open(c.in.Layout)
	if dir != "" {
		defer os.RemoveAll(dir)
	}
	if err != nil {
		c.direct("error", "", "open: "+err.Error())
		return
	}
	type dropper interface {
		FileWriterIDsInUse() (map[string]struct{}, error)
		DropFileWriterIDs(ids map[string]struct{}) error
	}
	dw, ok := idx.(dropper)
	if !ok {
		return
	}
	ids, err := dw.FileWriterIDsInUse()
	if err != nil {
		return
	}
	_ = os.WriteFile(filepath.Join(path, "index_meta.json_temp"), []byte("{}"), 0o600)
	derr := dw.DropFileWriterIDs(ids)
	done := make(chan error, 1)
	go func() { _, err := idx.DocCount(); done <- err }()
	select {
	case <-done:
		idx.Close()
	case <-time.After(3 * time.Second):
		c.direct("deadlock", "dropwriter-error-path-lock-leak",
			fmt.Sprintf("DropFileWriterIDs(%v) returned %v (index_meta.json_temp pre-existing) and left indexImpl.mutex write-locked: a following DocCount() did not return within 3 s", keys(ids), derr))
	}
}

func keys(m map[string]struct{}) []string {
	var ks []string
	for k := range m {
		ks = append(ks, k)
	}
	sort.Strings(ks)
	return ks
}
