// C09 correspondence harness: a corpus is indexed (a) into 1..5 real in-memory member indexes
// (scorch and upsidedown mixed) reached through a tree of index aliases and (b) into one index
// holding every document.  One case = one request run through the alias root and on the single
// index, together with every member's own matches (ids, sort keys, stored fields, HitNumber),
// MaxScore and facet results (the inputs of the alias layer).  The harness computes no expected
// answer: the Coq side evaluates the MultiSearch model and the property oracle (Collect/ShardsCorr.v).
//
// Pre-search worlds: the mapping additionally has a text field "t" with a synonym source (and possibly
// BM25 scoring); the corpus then consists of documents AND synonym definitions, the definitions placed
// on the members in any way (split per term, replicated, all on one member).  Aliases carry the mapping
// (SetIndexMapping: the alias then runs the synonym / BM25 pre-search) or not.  Every member is asked
// the pre-search request itself (public API: context key search.PreSearchKey) and is listed under the
// PreSearchData that reaches it; which data that is, is re-derived by the Coq model (ShardsPre.resolve)
// from the members' pre-search answers and compared — the harness' own walk is only a proposal.
package main

import (
	"crypto/sha1"
	"encoding/hex"
	"encoding/json"
	"fmt"
	"math"
	"sort"
	"strings"
	"sync"
	"time"

	"context"

	"github.com/blevesearch/bleve/v2"
	"github.com/blevesearch/bleve/v2/analysis/lang/en"
	"github.com/blevesearch/bleve/v2/index/scorch"
	"github.com/blevesearch/bleve/v2/index/upsidedown"
	"github.com/blevesearch/bleve/v2/index/upsidedown/store/gtreap"
	"github.com/blevesearch/bleve/v2/mapping"
	"github.com/blevesearch/bleve/v2/search"
	"github.com/blevesearch/bleve/v2/search/query"
	index "github.com/blevesearch/bleve_index_api"

	cf "verifharness/internal/coqfmt"
	"verifharness/internal/vh"
	"verifharness/internal/vrand"
)

// ---------------------------------------------------------------- inputs

type Doc struct {
	ID  string   `json:"id"`
	Q   string   `json:"q"`             // keyword, always present: "a" | "b"
	Cat *string  `json:"cat,omitempty"` // keyword, single valued, sometimes absent (sort + facet field)
	Tag []string `json:"tag,omitempty"` // keyword, 0..3 values (facet field)
	N   *float64 `json:"n,omitempty"`   // numeric, sometimes absent (sort + range facet field)
	T   string   `json:"t,omitempty"`   // text (analyzer en, synonym source), pre-search worlds only
}

// SynDef is one synonym definition of the corpus and the members that hold it.
type SynDef struct {
	ID       string   `json:"id"`
	Input    []string `json:"input,omitempty"` // empty: equivalence definition
	Synonyms []string `json:"synonyms"`
	Shards   []int    `json:"shards"`
}

// Tree is an alias tree: a leaf names a shard, an inner node is an alias of its kids.
type Tree struct {
	Shard *int   `json:"shard,omitempty"`
	Kids  []Tree `json:"kids,omitempty"`
	// AddLater: the last AddLater kids are attached with alias.Add after construction
	AddLater int `json:"add_later,omitempty"`
	// Mapped: the alias is given the shared mapping with SetIndexMapping
	Mapped bool `json:"mapped,omitempty"`
}

type World struct {
	Docs    []Doc    `json:"docs"`
	Assign  []int    `json:"assign"`  // document i lives in shard Assign[i]
	Engines []string `json:"engines"` // engine of every shard
	Single  string   `json:"single"`  // engine of the index holding everything
	Tree    Tree     `json:"tree"`
	// pre-search worlds (scorch members only)
	Pre     bool     `json:"pre,omitempty"`     // the mapping has the text field "t" with a synonym source
	Defs    []SynDef `json:"defs,omitempty"`    // synonym definitions, part of the corpus
	Scoring string   `json:"scoring,omitempty"` // "" | "bm25": the mapping's scoring model
	Named   bool     `json:"named,omitempty"`   // indexes and aliases get distinct names (else all are "")
}

type Facet struct {
	Name   string       `json:"name"`
	Field  string       `json:"field"`
	Size   int          `json:"size"`
	Prefix string       `json:"prefix,omitempty"` // terms facet: TermPrefix filter (Other then counts the other terms)
	Ranges [][2]*float64 `json:"ranges,omitempty"` // numeric ranges [min,max), named r0, r1, ...
}

type Req struct {
	// "all" | "q=a" | "q=b" | "n<3" | "none" | "matchnone" | on the text field: "t:<kind>:<words>" with kind
	// match | matchand | term | phrase | prefix | fuzzy | qs | and-q (match AND q=a) | or-q (match OR q=b)
	Query  string   `json:"query"`
	Sort   []string `json:"sort"`
	From   int      `json:"from"`
	Size   int      `json:"size"`
	// paging relative to a hit of the full listing (index modulo the number of matches) ...
	AfterIdx  *int `json:"after_idx,omitempty"`
	BeforeIdx *int `json:"before_idx,omitempty"`
	// ... or literal keys
	AfterRaw  []string `json:"after_raw,omitempty"`
	BeforeRaw []string `json:"before_raw,omitempty"`
	Facets    []Facet  `json:"facets,omitempty"`
	// Global: the context asks for global scoring (search.SearchTypeKey = search.GlobalScoring)
	Global bool `json:"global,omitempty"`
}

type In struct {
	World World `json:"world"`
	Req   Req   `json:"req"`
}

// ---------------------------------------------------------------- generation

var cats = []string{"red", "green", "blue", "x"}
var tags = []string{"ta1", "ta2", "ta3", "tb1", "tb2", "tb3"}

var sorts = [][]string{
	{"_id"}, {"-_id"}, {"cat", "_id"}, {"-cat", "_id"}, {"cat", "-_id"}, {"n", "_id"}, {"-n", "-_id"}, {"-n", "_id"}, {"cat", "-n", "_id"},
}

func genTree(r *vrand.R, shards []int, depth int) Tree {
	// a leaf
	if len(shards) == 1 && (depth >= 3 || r.Chance(2, 3)) {
		s := shards[0]
		return Tree{Shard: &s}
	}
	if depth >= 3 {
		// no deeper nesting: a flat alias of the remaining shards
		var t Tree
		for _, s := range shards {
			s := s
			t.Kids = append(t.Kids, Tree{Shard: &s})
		}
		if len(t.Kids) > 1 && r.Chance(1, 3) {
			t.AddLater = r.Range(1, len(t.Kids)-1)
		}
		return t
	}
	// split the shards into 1..k groups, each group a kid
	k := r.Range(1, len(shards))
	if len(shards) == 1 {
		k = 1
	}
	groups := make([][]int, k)
	for i, s := range shards {
		g := i
		if i >= k {
			g = r.Intn(k)
		}
		groups[g] = append(groups[g], s)
	}
	var t Tree
	for _, g := range groups {
		t.Kids = append(t.Kids, genTree(r, g, depth+1))
	}
	if len(t.Kids) > 1 && r.Chance(1, 4) {
		t.AddLater = r.Range(1, len(t.Kids)-1)
	}
	return t
}

var words = []string{"car", "cart", "automobile", "auto", "vehicle", "motorcar", "truck", "lorry", "van", "bike", "bicycle", "cycle"}

// setMapped decides which aliases of the tree are given the mapping.
func setMapped(r *vrand.R, t *Tree, mode int, root bool) {
	if t.Shard != nil {
		return
	}
	switch mode {
	case 0:
		t.Mapped = true
	case 1:
		t.Mapped = false
	case 2:
		t.Mapped = root
	default:
		t.Mapped = r.Chance(2, 3)
	}
	for i := range t.Kids {
		setMapped(r, &t.Kids[i], mode, false)
	}
}

// genDefs makes the synonym definitions of a pre-search world and places them on the ns members.
func genDefs(r *vrand.R, ns int) []SynDef {
	nd := r.Range(3, 8)
	if r.Chance(1, 10) {
		nd = r.Range(0, 1)
	}
	// a few input terms get several definitions (with different synonyms)
	hot := []string{vrand.Pick(r, words), vrand.Pick(r, words)}
	// placement: 0 every definition on one random member (definitions of a term split over members),
	// 1 every definition on every member, 2 all on one member, 3 any non-empty subset
	place := vrand.Pick(r, []int{0, 0, 0, 1, 2, 3, 3})
	one := r.Intn(ns)
	var defs []SynDef
	for i := 0; i < nd; i++ {
		d := SynDef{ID: fmt.Sprintf("syn%02d", i)}
		if r.Chance(2, 3) {
			in := vrand.Pick(r, words)
			if r.Chance(2, 3) {
				in = vrand.Pick(r, hot)
			}
			d.Input = []string{in}
			if r.Chance(1, 6) {
				d.Input = append(d.Input, vrand.Pick(r, words))
			}
			for k := r.Range(1, 3); k > 0; k-- {
				d.Synonyms = append(d.Synonyms, vrand.Pick(r, words))
			}
		} else {
			for k := r.Range(2, 4); k > 0; k-- {
				d.Synonyms = append(d.Synonyms, vrand.Pick(r, words))
			}
			if r.Chance(1, 2) {
				d.Synonyms[0] = vrand.Pick(r, hot)
			}
		}
		switch place {
		case 0:
			d.Shards = []int{r.Intn(ns)}
		case 1:
			for sh := 0; sh < ns; sh++ {
				d.Shards = append(d.Shards, sh)
			}
		case 2:
			d.Shards = []int{one}
		default:
			for sh := 0; sh < ns; sh++ {
				if r.Bool() {
					d.Shards = append(d.Shards, sh)
				}
			}
			if len(d.Shards) == 0 {
				d.Shards = []int{r.Intn(ns)}
			}
		}
		defs = append(defs, d)
	}
	return defs
}

func genWorld(r *vrand.R, pre bool) World {
	var w World
	w.Pre = pre
	n := r.Range(5, 40)
	if pre {
		n = r.Range(5, 26)
	}
	if r.Chance(1, 12) {
		n = r.Range(0, 4)
	}
	ns := r.Range(1, 5)
	if pre && r.Chance(3, 4) {
		ns = r.Range(2, 5)
	}
	skew := r.Chance(1, 3)
	for i := 0; i < n; i++ {
		d := Doc{ID: fmt.Sprintf("d%02d", i), Q: "a"}
		if r.Chance(1, 4) {
			d.Q = "b"
		}
		if !r.Chance(1, 5) {
			c := vrand.Pick(r, cats)
			d.Cat = &c
		}
		for k := r.Intn(4); k > 0; k-- {
			d.Tag = append(d.Tag, vrand.Pick(r, tags))
		}
		if !r.Chance(1, 5) {
			f := float64(r.Range(-2, 6))
			if r.Chance(1, 4) {
				f += 0.5
			}
			d.N = &f
		}
		if pre && !r.Chance(1, 6) {
			var ws []string
			for k := r.Range(1, 3); k > 0; k-- {
				ws = append(ws, vrand.Pick(r, words))
			}
			d.T = strings.Join(ws, " ")
		}
		w.Docs = append(w.Docs, d)
		sh := r.Intn(ns)
		if skew && r.Chance(2, 3) {
			sh = 0 // skewed partition; some shards stay empty
		}
		w.Assign = append(w.Assign, sh)
	}
	// ids are not inserted in order everywhere
	vrand.Shuffle(r, w.Docs)
	for i := 0; i < ns; i++ {
		w.Engines = append(w.Engines, vrand.Pick(r, []string{"scorch", "upsidedown"}))
	}
	w.Single = vrand.Pick(r, []string{"scorch", "upsidedown"})
	if pre {
		// synonym definitions and BM25 statistics exist in scorch only
		for i := range w.Engines {
			w.Engines[i] = "scorch"
		}
		w.Single = "scorch"
		w.Defs = genDefs(r, ns)
		if r.Chance(1, 3) {
			w.Scoring = "bm25"
		}
		w.Named = r.Bool()
	}
	sh := make([]int, ns)
	for i := range sh {
		sh[i] = i
	}
	vrand.Shuffle(r, sh)
	w.Tree = genTree(r, sh, 1)
	if w.Tree.Shard != nil {
		// the root is always an alias
		w.Tree = Tree{Kids: []Tree{w.Tree}}
	}
	// which aliases carry the mapping: all / none / the root only / any
	mode := vrand.Pick(r, []int{0, 0, 0, 0, 1, 2, 3, 3})
	setMapped(r, &w.Tree, mode, true)
	return w
}

func genFacets(r *vrand.R) []Facet {
	var fs []Facet
	if r.Chance(1, 2) {
		return nil
	}
	if r.Chance(3, 4) {
		fs = append(fs, Facet{Name: "tags", Field: "tag", Size: r.Range(len(tags), len(tags)+4)})
	}
	if r.Chance(1, 2) {
		fs = append(fs, Facet{Name: "cats", Field: "cat", Size: r.Range(len(cats), len(cats)+2)})
	}
	if r.Chance(1, 2) {
		a, b, c := 0.0, 3.0, 1.5
		f := Facet{Name: "nums", Field: "n", Size: 4}
		f.Ranges = [][2]*float64{{nil, &a}, {&a, &b}, {&b, nil}}
		if r.Chance(1, 2) {
			f.Ranges = append(f.Ranges, [2]*float64{&c, &b})
		}
		fs = append(fs, f)
	}
	if r.Chance(1, 3) {
		// prefix-filtered terms facet: 3 terms can pass, the size is larger; Other = the terms filtered out
		fs = append(fs, Facet{Name: "pre", Field: "tag", Size: r.Range(4, 6), Prefix: vrand.Pick(r, []string{"ta", "tb", "ta1"})})
	}
	if r.Chance(1, 6) {
		// a size that does NOT cover the buckets: only the model correspondence is checked on it
		fs = append(fs, Facet{Name: "few", Field: "tag", Size: r.Range(1, 3)})
	}
	return fs
}

func genReqs(r *vrand.R, w World, emit func(Req)) {
	n := len(w.Docs)
	// terms with definitions, and those whose definitions sit on more than one member
	var defined, spread []string
	{
		on := map[string]map[int]bool{}
		for _, d := range w.Defs {
			ts := d.Input
			if len(ts) == 0 {
				ts = d.Synonyms
			}
			for _, t := range ts {
				if on[t] == nil {
					on[t] = map[int]bool{}
					defined = append(defined, t)
				}
				for _, sh := range d.Shards {
					on[t][sh] = true
				}
			}
		}
		for _, t := range defined {
			if len(on[t]) > 1 {
				spread = append(spread, t)
			}
		}
	}
	textQ := func() string {
		w1, w2 := vrand.Pick(r, words), vrand.Pick(r, words)
		if len(spread) > 0 && r.Chance(3, 5) {
			w1 = vrand.Pick(r, spread)
		} else if len(defined) > 0 && r.Chance(3, 4) {
			w1 = vrand.Pick(r, defined)
		}
		switch r.Intn(12) {
		case 0, 1, 2:
			return "t:match:" + w1
		case 3:
			return "t:match:" + w1 + " " + w2
		case 4:
			return "t:matchand:" + w1 + " " + w2
		case 5:
			return "t:term:" + w1
		case 6:
			// a phrase some document may hold (through a synonym of its first word too)
			if n > 0 {
				if ws := strings.Fields(w.Docs[r.Intn(n)].T); len(ws) >= 2 && r.Chance(1, 2) {
					return "t:phrase:" + ws[0] + " " + ws[1]
				} else if len(ws) >= 2 {
					return "t:phrase:" + w1 + " " + ws[1]
				}
			}
			return "t:phrase:" + w1 + " " + w2
		case 7:
			return "t:prefix:" + w1[:r.Range(1, len(w1))]
		case 8:
			return "t:fuzzy:" + w1
		case 9:
			return "t:qs:" + w1
		case 10:
			return "t:and-q:" + w1
		}
		return "t:or-q:" + w1
	}
	pickQ0 := func() string {
		if w.Pre && r.Chance(4, 5) {
			return textQ()
		}
		if r.Chance(1, 40) {
			return "matchnone"
		}
		switch r.Intn(8) {
		case 0, 1:
			return "q=a"
		case 2:
			return "q=b"
		case 3:
			return "n<3"
		case 4:
			if r.Chance(1, 3) {
				return "none"
			}
		}
		return "all"
	}
	// match-all also returns the synonym definition documents themselves: a definition held by several
	// members is then a document held by several members, which is no partition of the corpus
	replicated := false
	for _, d := range w.Defs {
		replicated = replicated || len(d.Shards) > 1
	}
	pickQ := func() string {
		q := pickQ0()
		if replicated && q == "all" {
			q = "q=a"
		}
		return q
	}
	base := func() Req {
		q := Req{Query: pickQ(), Sort: vrand.Pick(r, sorts), Facets: genFacets(r)}
		if w.Scoring == "bm25" || r.Chance(1, 10) {
			q.Global = r.Bool()
		}
		return q
	}
	// ordinary pages
	for i := 0; i < 4; i++ {
		q := base()
		q.Size = vrand.Pick(r, []int{1, 2, 3, 5, 10, 11, n, n + 5})
		q.From = vrand.Pick(r, []int{0, 0, 1, 2, 3, 7, 9, 10, n / 2, n - 1, n, n + 3})
		if q.From < 0 {
			q.From = 0
		}
		emit(q)
	}
	// Size = 0: From = 0, From > 0 (the class alias-size0-from), From beyond the end
	{
		q := base()
		q.Size, q.From = 0, 0
		emit(q)
		q = base()
		q.Size, q.From = 0, vrand.Pick(r, []int{1, 2, 3, 5, n/2 + 1})
		emit(q)
		if r.Chance(1, 2) {
			q = base()
			q.Size, q.From = 0, n+r.Range(1, 4)
			emit(q)
		}
	}
	// From beyond the end with Size > 0
	{
		q := base()
		q.Size, q.From = r.Range(1, 4), n+r.Range(0, 3)
		emit(q)
	}
	// SearchAfter / SearchBefore relative to a hit of the listing (From = 0 as Validate demands)
	for i := 0; i < 3; i++ {
		q := base()
		q.Size = vrand.Pick(r, []int{1, 2, 3, 5, n + 1})
		idx := r.Intn(n + 1)
		if r.Chance(1, 4) {
			idx = vrand.Pick(r, []int{0, n - 1})
			if idx < 0 {
				idx = 0
			}
		}
		if i%2 == 0 {
			q.AfterIdx = &idx
		} else {
			q.BeforeIdx = &idx
		}
		if i == 2 && r.Chance(1, 2) {
			q.AfterIdx, q.BeforeIdx = nil, &idx
		}
		emit(q)
	}
	// literal keys that belong to no document
	{
		q := base()
		q.Sort = vrand.Pick(r, [][]string{{"_id"}, {"-_id"}})
		q.Size = r.Range(1, 4)
		k := []string{fmt.Sprintf("d%02dx", r.Intn(n+2))}
		if r.Chance(1, 5) {
			k = []string{vrand.Pick(r, []string{"", "a", "e", "d"})}
		}
		if r.Bool() {
			q.AfterRaw = k
		} else {
			q.BeforeRaw = k
		}
		emit(q)
	}
}

func gen(f vh.Flags, r *vrand.R, emit func(In)) {
	nw := f.N(26, 1040)
	for i := 0; i < nw; i++ {
		wr := r.Fork()
		// every other world has the synonym-enabled text field and synonym definitions
		w := genWorld(wr, i%2 == 1)
		genReqs(wr, w, func(q Req) { emit(In{World: w, Req: q}) })
	}
}

// ---------------------------------------------------------------- worlds (real indexes), cached

type world struct {
	key    string
	shards []bleve.Index
	single bleve.Index
	root   bleve.Index
	leaves int
	depth  int
	refs   int
	stamp  int64
	err    error
	once   sync.Once
}

var (
	wmu    sync.Mutex
	worlds = map[string]*world{}
	wclock int64
)

const maxWorlds = 12

const synCollection, synSource = "coll", "thes"

func buildMapping(spec World) mapping.IndexMapping {
	m := bleve.NewIndexMapping()
	dm := bleve.NewDocumentMapping()
	dm.AddFieldMappingsAt("q", bleve.NewKeywordFieldMapping())
	dm.AddFieldMappingsAt("cat", bleve.NewKeywordFieldMapping())
	dm.AddFieldMappingsAt("tag", bleve.NewKeywordFieldMapping())
	dm.AddFieldMappingsAt("n", bleve.NewNumericFieldMapping())
	if spec.Pre {
		tf := bleve.NewTextFieldMapping()
		tf.Analyzer = en.AnalyzerName
		tf.SynonymSource = synSource
		tf.Store = true
		dm.AddFieldMappingsAt("t", tf)
		if err := m.AddSynonymSource(synSource, map[string]interface{}{"collection": synCollection, "analyzer": en.AnalyzerName}); err != nil {
			panic(err)
		}
	}
	if spec.Scoring == "bm25" {
		m.ScoringModel = index.BM25Scoring
	}
	m.DefaultMapping = dm
	if err := m.Validate(); err != nil {
		panic(err)
	}
	return m
}

func newIndex(engine string, m mapping.IndexMapping) (bleve.Index, error) {
	if engine == "upsidedown" {
		return bleve.NewUsing("", m, upsidedown.Name, gtreap.Name, nil)
	}
	return bleve.NewUsing("", m, scorch.Name, scorch.Name, nil)
}

func synDef(d SynDef) *bleve.SynonymDefinition {
	return &bleve.SynonymDefinition{Input: d.Input, Synonyms: d.Synonyms}
}

func docBody(d Doc) map[string]interface{} {
	b := map[string]interface{}{"q": d.Q}
	if d.Cat != nil {
		b["cat"] = *d.Cat
	}
	if len(d.Tag) == 1 {
		b["tag"] = d.Tag[0]
	} else if len(d.Tag) > 1 {
		vs := make([]interface{}, len(d.Tag))
		for i, t := range d.Tag {
			vs[i] = t
		}
		b["tag"] = vs
	}
	if d.N != nil {
		b["n"] = *d.N
	}
	if d.T != "" {
		b["t"] = d.T
	}
	return b
}

func (w *world) build(spec World) {
	defer func() {
		if e := recover(); e != nil {
			w.err = fmt.Errorf("building the world: %v", e)
		}
	}()
	ns := len(spec.Engines)
	// one mapping object per index / alias, all the same
	for i := 0; i < ns; i++ {
		ix, err := newIndex(spec.Engines[i], buildMapping(spec))
		if err != nil {
			w.err = err
			return
		}
		if spec.Named {
			ix.SetName(fmt.Sprintf("%s-s%d", w.key[:8], i))
		}
		w.shards = append(w.shards, ix)
	}
	var err error
	if w.single, err = newIndex(spec.Single, buildMapping(spec)); err != nil {
		w.err = err
		return
	}
	if spec.Named {
		w.single.SetName(w.key[:8] + "-single")
	}
	// synonym definitions: some before the documents, the rest after; singly or in a batch
	putDefs := func(lo, hi int) error {
		sb := w.single.NewBatch()
		for k := lo; k < hi; k++ {
			d := spec.Defs[k]
			for _, sh := range d.Shards {
				if sh < 0 || sh >= ns {
					return fmt.Errorf("bad definition placement")
				}
				if k%2 == 0 {
					si, ok := w.shards[sh].(bleve.SynonymIndex)
					if !ok {
						return fmt.Errorf("member is no SynonymIndex")
					}
					if err := si.IndexSynonym(d.ID, synCollection, synDef(d)); err != nil {
						return err
					}
				} else {
					b := w.shards[sh].NewBatch()
					if err := b.IndexSynonym(d.ID, synCollection, synDef(d)); err != nil {
						return err
					}
					if err := w.shards[sh].Batch(b); err != nil {
						return err
					}
				}
			}
			if err := sb.IndexSynonym(d.ID, synCollection, synDef(d)); err != nil {
				return err
			}
		}
		return w.single.Batch(sb)
	}
	if !spec.Pre && len(spec.Defs) > 0 {
		w.err = fmt.Errorf("definitions without a synonym source")
		return
	}
	half := len(spec.Defs) / 2
	if err := putDefs(0, half); err != nil {
		w.err = err
		return
	}
	// documents go in small batches and single calls, mixed
	batches := make([]*bleve.Batch, ns)
	sb := w.single.NewBatch()
	for i, d := range spec.Docs {
		sh := spec.Assign[i]
		if sh < 0 || sh >= ns {
			w.err = fmt.Errorf("bad assignment")
			return
		}
		if i%3 == 0 {
			if err := w.shards[sh].Index(d.ID, docBody(d)); err != nil {
				w.err = err
				return
			}
		} else {
			if batches[sh] == nil {
				batches[sh] = w.shards[sh].NewBatch()
			}
			if err := batches[sh].Index(d.ID, docBody(d)); err != nil {
				w.err = err
				return
			}
			if batches[sh].Size() >= 4 {
				if err := w.shards[sh].Batch(batches[sh]); err != nil {
					w.err = err
					return
				}
				batches[sh] = nil
			}
		}
		if err := sb.Index(d.ID, docBody(d)); err != nil {
			w.err = err
			return
		}
		if sb.Size() >= 7 {
			if err := w.single.Batch(sb); err != nil {
				w.err = err
				return
			}
			sb = w.single.NewBatch()
		}
	}
	for sh, b := range batches {
		if b != nil {
			if err := w.shards[sh].Batch(b); err != nil {
				w.err = err
				return
			}
		}
	}
	if err := w.single.Batch(sb); err != nil {
		w.err = err
		return
	}
	if err := putDefs(half, len(spec.Defs)); err != nil {
		w.err = err
		return
	}
	nalias := 0
	var mk func(t Tree, depth int) (bleve.Index, error)
	mk = func(t Tree, depth int) (bleve.Index, error) {
		if depth > w.depth {
			w.depth = depth
		}
		if t.Shard != nil {
			if *t.Shard < 0 || *t.Shard >= ns {
				return nil, fmt.Errorf("bad shard in tree")
			}
			w.leaves++
			return w.shards[*t.Shard], nil
		}
		var kids []bleve.Index
		for _, k := range t.Kids {
			ix, err := mk(k, depth+1)
			if err != nil {
				return nil, err
			}
			kids = append(kids, ix)
		}
		later := t.AddLater
		if later < 0 || later >= len(kids) {
			later = 0
		}
		al := bleve.NewIndexAlias(kids[:len(kids)-later]...)
		for _, k := range kids[len(kids)-later:] {
			al.Add(k)
		}
		if spec.Named {
			al.SetName(fmt.Sprintf("%s-a%d", w.key[:8], nalias))
			nalias++
		}
		if t.Mapped {
			if err := al.SetIndexMapping(buildMapping(spec)); err != nil {
				return nil, err
			}
		}
		return al, nil
	}
	w.root, w.err = mk(spec.Tree, 0)
}

func (w *world) close() {
	for _, s := range w.shards {
		s.Close()
	}
	if w.single != nil {
		w.single.Close()
	}
}

func getWorld(spec World) *world {
	js, _ := json.Marshal(spec)
	h := sha1.Sum(js)
	key := hex.EncodeToString(h[:])
	wmu.Lock()
	w := worlds[key]
	if w == nil {
		w = &world{key: key}
		worlds[key] = w
		// evict idle worlds
		if len(worlds) > maxWorlds {
			var idle []*world
			for _, x := range worlds {
				if x.refs == 0 && x != w {
					idle = append(idle, x)
				}
			}
			sort.Slice(idle, func(i, j int) bool { return idle[i].stamp < idle[j].stamp })
			for _, x := range idle {
				if len(worlds) <= maxWorlds {
					break
				}
				delete(worlds, x.key)
				go x.close()
			}
		}
	}
	w.refs++
	wclock++
	w.stamp = wclock
	wmu.Unlock()
	w.once.Do(func() { w.build(spec) })
	return w
}

func putWorld(w *world) {
	wmu.Lock()
	w.refs--
	wmu.Unlock()
}

// skipCase marks a panic inside vh.Guard as "this input cannot be executed" rather than a finding.
const skipMarker = "@@skip-case:"

func skipCase(why string) error { return fmt.Errorf("%s %s", skipMarker, why) }

func allAliasesMapped(t Tree) bool {
	if t.Shard != nil {
		return true
	}
	if !t.Mapped {
		return false
	}
	for _, k := range t.Kids {
		if !allAliasesMapped(k) {
			return false
		}
	}
	return true
}

// ---------------------------------------------------------------- requests

func mkQuery(q string) query.Query {
	if parts := strings.SplitN(q, ":", 3); len(parts) == 3 && parts[0] == "t" {
		kind, arg := parts[1], parts[2]
		match := func() *query.MatchQuery {
			mq := bleve.NewMatchQuery(arg)
			mq.SetField("t")
			return mq
		}
		qterm := func(v string) query.Query {
			tq := bleve.NewTermQuery(v)
			tq.SetField("q")
			return tq
		}
		switch kind {
		case "matchand":
			mq := match()
			mq.SetOperator(query.MatchQueryOperatorAnd)
			return mq
		case "term":
			tq := bleve.NewTermQuery(arg)
			tq.SetField("t")
			return tq
		case "phrase":
			pq := bleve.NewMatchPhraseQuery(arg)
			pq.SetField("t")
			return pq
		case "prefix":
			pq := bleve.NewPrefixQuery(arg)
			pq.SetField("t")
			return pq
		case "fuzzy":
			mq := match()
			mq.SetFuzziness(1)
			return mq
		case "qs":
			return bleve.NewQueryStringQuery("t:" + arg)
		case "and-q":
			return bleve.NewConjunctionQuery(match(), qterm("a"))
		case "or-q":
			return bleve.NewDisjunctionQuery(match(), qterm("b"))
		}
		return match()
	}
	switch q {
	case "matchnone":
		return bleve.NewMatchNoneQuery()
	case "q=a", "q=b":
		tq := bleve.NewTermQuery(q[2:])
		tq.SetField("q")
		return tq
	case "n<3":
		hi := 3.0
		nq := bleve.NewNumericRangeQuery(nil, &hi)
		nq.SetField("n")
		return nq
	case "none":
		tq := bleve.NewTermQuery("zzz")
		tq.SetField("q")
		return tq
	}
	return bleve.NewMatchAllQuery()
}

func addFacets(req *bleve.SearchRequest, fs []Facet) {
	for _, f := range fs {
		fr := bleve.NewFacetRequest(f.Field, f.Size)
		if f.Prefix != "" {
			fr.SetPrefixFilter(f.Prefix)
		}
		for i, rg := range f.Ranges {
			fr.AddNumericRange(fmt.Sprintf("r%d", i), rg[0], rg[1])
		}
		req.AddFacet(f.Name, fr)
	}
}

func mkReq(q Req, size, from int, order search.SortOrder, after, before []string) *bleve.SearchRequest {
	req := bleve.NewSearchRequestOptions(mkQuery(q.Query), size, from, false)
	req.SortByCustom(order)
	req.Fields = []string{"*"}
	addFacets(req, q.Facets)
	if after != nil {
		req.SetSearchAfter(after)
	}
	if before != nil {
		req.SetSearchBefore(before)
	}
	return req
}

// ---------------------------------------------------------------- Coq terms

func fbits(f float64) cf.T { return cf.U(math.Float64bits(f)) }

func keysT(ks []string) cf.T { return cf.ListOf(ks, func(s string) cf.T { return cf.Str(s) }) }

func fieldsT(fs map[string]interface{}) cf.T {
	names := make([]string, 0, len(fs))
	for n := range fs {
		names = append(names, n)
	}
	sort.Strings(names)
	return cf.ListOf(names, func(n string) cf.T { return cf.Pair(cf.Str(n), cf.Str(fmt.Sprintf("%v", fs[n]))) })
}

func hitT(h *search.DocumentMatch) cf.T {
	return cf.App("Build_hit", keysT(h.Sort), cf.Str(h.ID), cf.U(h.HitNumber), fieldsT(h.Fields))
}

func obsT(h *search.DocumentMatch) cf.T {
	return cf.Tuple(keysT(h.Sort), cf.Str(h.ID), fieldsT(h.Fields))
}

func optF(p *float64) cf.T {
	if p == nil {
		return cf.None
	}
	return cf.Some(fbits(*p))
}

func facetsT(fr search.FacetResults) cf.T {
	names := make([]string, 0, len(fr))
	for n := range fr {
		names = append(names, n)
	}
	sort.Strings(names)
	return cf.ListOf(names, func(n string) cf.T {
		r := fr[n]
		terms, nrs := cf.None, cf.None
		if r.Terms != nil {
			terms = cf.Some(cf.ListOf(r.Terms.Terms(), func(t *search.TermFacet) cf.T {
				return cf.Pair(cf.Str(t.Term), cf.Int(t.Count))
			}))
		}
		if r.NumericRanges != nil {
			nrs = cf.Some(cf.ListOf([]*search.NumericRangeFacet(r.NumericRanges), func(x *search.NumericRangeFacet) cf.T {
				return cf.App("Build_nrange", cf.Str(x.Name), optF(x.Min), optF(x.Max), cf.Int(x.Count))
			}))
		}
		return cf.Pair(cf.Str(n), cf.App("Build_fres", cf.Int(r.Total), cf.Int(r.Missing), cf.Int(r.Other), terms, nrs))
	})
}

func oresultT(r *bleve.SearchResult, err error) cf.T {
	if err != nil || r == nil {
		return cf.None
	}
	return cf.Some(cf.App("Build_oresult",
		cf.ListOf([]*search.DocumentMatch(r.Hits), obsT), cf.U(r.Total), fbits(r.MaxScore), facetsT(r.Facets)))
}

func optKeys(ks []string) cf.T {
	if ks == nil {
		return cf.None
	}
	return cf.Some(keysT(ks))
}

// ---------------------------------------------------------------- pre-search data

// pres is what an index / alias answers to a pre-search request (nil = Go nil).
type pres struct {
	syn search.FieldTermSynonymMap
	bm  *search.BM25Stats
}

// pdata is the PreSearchData handed to a member.
type pdata struct {
	hasSyn bool
	syn    search.FieldTermSynonymMap
	bm     *search.BM25Stats
}

func ftsT(f search.FieldTermSynonymMap) cf.T {
	fields := make([]string, 0, len(f))
	for fd := range f {
		fields = append(fields, fd)
	}
	sort.Strings(fields)
	return cf.ListOf(fields, func(fd string) cf.T {
		terms := make([]string, 0, len(f[fd]))
		for t := range f[fd] {
			terms = append(terms, t)
		}
		sort.Strings(terms)
		return cf.Pair(cf.Str(fd), cf.ListOf(terms, func(t string) cf.T { return cf.Pair(cf.Str(t), keysT(f[fd][t])) }))
	})
}

func bmT(b *search.BM25Stats) cf.T {
	if b == nil {
		return cf.None
	}
	if b.DocCount != math.Trunc(b.DocCount) || b.DocCount < 0 || b.DocCount > 1e15 {
		panic(fmt.Sprintf("BM25Stats.DocCount is no count: %v", b.DocCount))
	}
	fields := make([]string, 0, len(b.FieldCardinality))
	for fd := range b.FieldCardinality {
		fields = append(fields, fd)
	}
	sort.Strings(fields)
	return cf.Some(cf.App("Build_bm25", cf.Z(int64(b.DocCount)),
		cf.ListOf(fields, func(fd string) cf.T { return cf.Pair(cf.Str(fd), cf.Int(b.FieldCardinality[fd])) })))
}

func presT(p pres) cf.T {
	syn := cf.None
	if p.syn != nil {
		syn = cf.Some(ftsT(p.syn))
	}
	return cf.App("Build_presult", syn, bmT(p.bm))
}

func pdataT(d *pdata) cf.T {
	if d == nil {
		return cf.None
	}
	syn := cf.None
	if d.hasSyn {
		syn = cf.Some(ftsT(d.syn))
	}
	return cf.Some(cf.App("Build_pdata", syn, bmT(d.bm)))
}

// combine adds up members' pre-search answers for the raised flags (the harness' own few lines; the
// Coq model decides whether the data proposed this way is the data that reaches a member).
func combine(synFlag, bmFlag bool, rs []pres) pres {
	var out pres
	if synFlag {
		for _, r := range rs {
			if r.syn == nil {
				continue
			}
			if out.syn == nil {
				out.syn = search.FieldTermSynonymMap{}
			}
			for fd, tm := range r.syn {
				if out.syn[fd] == nil {
					out.syn[fd] = map[string][]string{}
				}
				for t, ss := range tm {
					for _, x := range ss {
						dup := false
						for _, y := range out.syn[fd][t] {
							dup = dup || x == y
						}
						if !dup {
							out.syn[fd][t] = append(out.syn[fd][t], x)
						}
					}
				}
			}
		}
		for _, tm := range out.syn {
			for t := range tm {
				sort.Strings(tm[t])
			}
		}
	}
	if bmFlag {
		out.bm = &search.BM25Stats{FieldCardinality: map[string]int{}}
		for _, r := range rs {
			if r.bm != nil {
				out.bm.DocCount += r.bm.DocCount
				for fd, c := range r.bm.FieldCardinality {
					out.bm.FieldCardinality[fd] += c
				}
			}
		}
	}
	return out
}

func (d *pdata) request(req *bleve.SearchRequest) {
	if d == nil {
		return
	}
	req.PreSearchData = map[string]interface{}{}
	if d.hasSyn {
		req.PreSearchData[search.SynonymPreSearchDataKey] = d.syn
	}
	if d.bm != nil {
		req.PreSearchData[search.BM25PreSearchDataKey] = &search.BM25Stats{DocCount: d.bm.DocCount, FieldCardinality: d.bm.FieldCardinality}
	}
}

// ---------------------------------------------------------------- execution

func exec(in In) vh.Result {
	var res vh.Result
	q := in.Req
	if len(in.World.Docs) != len(in.World.Assign) || len(q.Sort) == 0 || q.Size < 0 || q.From < 0 {
		res.Skip = true
		return res
	}
	w := getWorld(in.World)
	defer putWorld(w)
	if w.err != nil {
		return vh.Result{Direct: &vh.Direct{Kind: "build-error", Detail: w.err.Error()}}
	}
	// match-all also returns the synonym definition documents
	ndocs := len(in.World.Docs) + len(in.World.Defs)
	order := func() search.SortOrder { return search.ParseSortOrderStrings(q.Sort) }

	var term cf.T
	var nShardsWithMatches, nShardsWithSyn, total int
	var handed, handedSyn bool
	ctx := context.Background()
	if q.Global {
		ctx = context.WithValue(ctx, search.SearchTypeKey, search.GlobalScoring)
	}
	kind := "page"
	d := vh.Guard(60*time.Second, "alias search", func() {
		// paging keys
		after, before := q.AfterRaw, q.BeforeRaw
		if q.AfterIdx != nil || q.BeforeIdx != nil {
			full, err := w.single.SearchInContext(ctx, mkReq(q, ndocs+5, 0, order(), nil, nil))
			if err != nil {
				panic(err)
			}
			if len(full.Hits) > 0 {
				if q.AfterIdx != nil {
					after = append([]string{}, full.Hits[*q.AfterIdx%len(full.Hits)].Sort...)
				} else {
					before = append([]string{}, full.Hits[*q.BeforeIdx%len(full.Hits)].Sort...)
				}
			}
		}
		if after != nil && before != nil {
			before = nil
		}
		if (after != nil || before != nil) && (len(after)+len(before) != len(q.Sort)) {
			after, before = nil, nil
		}
		from := q.From
		if after != nil || before != nil {
			from = 0 // SearchRequest.Validate: no From with SearchAfter / SearchBefore
			kind = "after"
			if before != nil {
				kind = "before"
			}
		}

		// the members' own matches under the order they execute (reversed for SearchBefore)
		eff := order()
		if before != nil {
			eff.Reverse()
		}
		// ---- the pre-search phase
		matchNone := q.Query == "matchnone"
		synField := in.World.Pre && strings.HasPrefix(q.Query, "t:")
		bm25 := in.World.Scoring == "bm25"
		preCtx := context.WithValue(ctx, search.PreSearchKey, true)
		askPre := func(ix bleve.Index) pres {
			r, err := ix.SearchInContext(preCtx, &bleve.SearchRequest{Query: mkQuery(q.Query)})
			if err != nil {
				panic(err)
			}
			return pres{syn: r.SynonymResult, bm: r.BM25Stats}
		}
		leafPre := make([]pres, len(w.shards))
		for i, sh := range w.shards {
			leafPre[i] = askPre(sh)
		}
		// an alias that is a member of another alias answering a pre-search request
		var presearchT func(t Tree) pres
		presearchT = func(t Tree) pres {
			if t.Shard != nil {
				return leafPre[*t.Shard]
			}
			var rs []pres
			for _, k := range t.Kids {
				rs = append(rs, presearchT(k))
			}
			return combine(!matchNone, t.Mapped && bm25, rs)
		}
		// the data an alias hands to its members
		aliasData := func(t Tree, data *pdata) *pdata {
			if len(t.Kids) < 2 || data != nil {
				return data
			}
			synFlag := !matchNone && t.Mapped && synField
			bmFlag := !matchNone && q.Global && t.Mapped && bm25
			if !synFlag && !bmFlag {
				return nil
			}
			var rs []pres
			for _, k := range t.Kids {
				rs = append(rs, presearchT(k))
			}
			c := combine(synFlag, bmFlag, rs)
			return &pdata{hasSyn: synFlag, syn: c.syn, bm: c.bm}
		}

		var mkTree func(t Tree, data *pdata) cf.T
		mkTree = func(t Tree, data *pdata) cf.T {
			if t.Shard != nil {
				lreq := mkReq(q, ndocs+5, 0, eff.Copy(), nil, nil)
				data.request(lreq)
				lr, err := w.shards[*t.Shard].SearchInContext(ctx, lreq)
				if err != nil {
					if !allAliasesMapped(in.World.Tree) && strings.Contains(err.Error(), "field stat for bm25 not present") {
						// an alias without the mapping hands no BM25 statistics up, so a mapped alias above it
						// hands incomplete pre-search data down and every member refuses to score: the
						// configuration docs/scoring.md excludes (SetIndexMapping on every alias).  The member
						// listing cannot be taken, so there is nothing to judge.
						panic(skipCase("partially-mapped-alias-tree-global-bm25"))
					}
					panic(err)
				}
				if len(lr.Hits) > 0 {
					nShardsWithMatches++
				}
				total += len(lr.Hits)
				if data != nil {
					handed = true
					if data.hasSyn && len(data.syn) > 0 {
						handedSyn = true
					}
				}
				if leafPre[*t.Shard].syn != nil {
					nShardsWithSyn++
				}
				leaf := cf.App("Build_leaf",
					cf.ListOf([]*search.DocumentMatch(lr.Hits), hitT), fbits(lr.MaxScore), facetsT(lr.Facets))
				return cf.App("SLeaf", cf.App("Build_sleaf", presT(leafPre[*t.Shard]), pdataT(data), leaf))
			}
			d := aliasData(t, data)
			return cf.App("SAlias", cf.Bool(t.Mapped), cf.ListOf(t.Kids, func(k Tree) cf.T { return mkTree(k, d) }))
		}
		treeT := mkTree(in.World.Tree, nil)
		singlePre := askPre(w.single)

		rs, errS := w.single.SearchInContext(ctx, mkReq(q, q.Size, from, order(), after, before))
		ra, errA := w.root.SearchInContext(ctx, mkReq(q, q.Size, from, order(), after, before))

		desc := cf.ListOf([]search.SearchSort(order()), func(s search.SearchSort) cf.T { return cf.Bool(s.Descending()) })
		fsizes := cf.ListOf(q.Facets, func(f Facet) cf.T { return cf.Pair(cf.Str(f.Name), cf.Int(f.Size)) })
		// facet names sorted, as facetsT prints them
		rq := cf.App("Build_request", desc, cf.Int(from), cf.Int(q.Size), optKeys(after), optKeys(before), fsizes)
		pc := cf.App("Build_pcfg", cf.Bool(matchNone), cf.Bool(synField), cf.Bool(bm25), cf.Bool(q.Global))
		term = cf.App("CAliasPre", pc, rq, treeT, presT(singlePre), oresultT(rs, errS), oresultT(ra, errA))
		if q.Size == 0 && from > 0 {
			kind = "size0-from"
		} else if q.Size == 0 {
			kind = "size0"
		} else if kind == "page" && from >= ndocs {
			kind = "beyond"
		}
	})
	if d != nil {
		if i := strings.Index(d.Detail, skipMarker); i >= 0 {
			return vh.Result{Skip: true, Hist: []string{"skipped:" + strings.TrimSpace(d.Detail[i+len(skipMarker):])}}
		}
		return vh.Result{Direct: d}
	}
	res.Term = term
	res.Nontrivial = nShardsWithMatches >= 2
	if kind == "size0-from" {
		res.Class = "alias-size0-from"
	}
	fk := "facets:none"
	if len(q.Facets) > 0 {
		fk = "facets:yes"
	}
	mix := "engines:" + strings.Join(uniq(append([]string{}, in.World.Engines...)), "+")
	qk := q.Query
	if parts := strings.SplitN(qk, ":", 3); len(parts) == 3 {
		qk = parts[0] + ":" + parts[1]
	}
	pk := "presearch:none"
	if handedSyn {
		pk = "presearch:synonyms-handed"
	} else if handed {
		pk = "presearch:ran-no-synonyms"
	}
	res.Hist = []string{
		fmt.Sprintf("shards:%d", len(in.World.Engines)), fmt.Sprintf("depth:%d", w.depth), "kind:" + kind,
		"sort:" + strings.Join(q.Sort, ","), fk, mix, "query:" + qk,
		fmt.Sprintf("shards-with-matches:%d", nShardsWithMatches), pk,
	}
	if in.World.Pre {
		res.Hist = append(res.Hist, fmt.Sprintf("members-with-synonyms-for-query:%d", nShardsWithSyn),
			"scoring:"+in.World.Scoring+fmt.Sprintf("/global=%v", q.Global))
	}
	return res
}

func uniq(xs []string) []string {
	sort.Strings(xs)
	var out []string
	for i, x := range xs {
		if i == 0 || x != xs[i-1] {
			out = append(out, x)
		}
	}
	return out
}

func main() {
	vh.Main(vh.Config{
		Property:  "C09",
		Imports:   []string{"Common.Bytes", "Collect.Shards", "Collect.ShardsPre", "Collect.ShardsCorr"},
		CaseType:  "ShardsCorr.case",
		CheckFn:   "ShardsCorr.check",
		ExplainFn: "ShardsCorr.explain",
		Rule: "corpora of 0..40 documents (keyword fields q/cat/tag, numeric n; absent and multi-valued fields) assigned at random (uniform or skewed, empty shards included) to 1..5 in-memory " +
			"indexes (scorch and upsidedown mixed), reached through an alias tree of depth <= 3 (single-member aliases, members added with Add); requests: match-all / term / numeric-range / no-match " +
			"queries, score-independent total sorts (_id, -_id, field(s) then _id in both directions), pages Size in {1..n+5} x From in {0..n+3}, Size = 0 with From = 0 / > 0 / beyond the end, " +
			"SearchAfter and SearchBefore from every position of the listing and from keys of no document, terms facets (covering and non-covering sizes, with and without a prefix filter) and numeric range facets, Fields = *; " +
			"every other world is a pre-search world: scorch members only, a text field (analyzer en) with a synonym source, 0..8 synonym definitions (explicit and equivalence, several for one input term) " +
			"placed on the members in any way (each on one member so that a term's definitions are split, all on every member, all on one member, any subsets), tf-idf or BM25 scoring, named or unnamed indexes; " +
			"match / match-AND / term / phrase / prefix / fuzzy / query-string / boolean queries on that field; aliases with and without SetIndexMapping (all, none, the root only, any), requests with and without global scoring; " +
			"every member is also asked the pre-search request and listed under the PreSearchData the model says reaches it; " +
			"each request runs on the alias root and on one index holding everything (all documents and all definitions); non-trivial: at least two members hold matching documents",
		ShardSize: 24,
	}, gen, exec)
}
