// C09 correspondence harness: a corpus is indexed (a) into 1..5 real in-memory member indexes
// (scorch and upsidedown mixed) reached through a tree of index aliases and (b) into one index
// holding every document.  One case = one request run through the alias root and on the single
// index, together with every member's own matches (ids, sort keys, stored fields, HitNumber),
// MaxScore and facet results (the inputs of the alias layer).  The harness computes no expected
// answer: the Coq side evaluates the MultiSearch model and the property oracle (Collect/ShardsCorr.v).
package main

import (
	"crypto/sha1"
	"encoding/hex"
	"encoding/json"
	"fmt"
	"math"
	"sort"
	"strings"
	"sync"
	"time"

	"github.com/blevesearch/bleve/v2"
	"github.com/blevesearch/bleve/v2/index/scorch"
	"github.com/blevesearch/bleve/v2/index/upsidedown"
	"github.com/blevesearch/bleve/v2/index/upsidedown/store/gtreap"
	"github.com/blevesearch/bleve/v2/mapping"
	"github.com/blevesearch/bleve/v2/search"
	"github.com/blevesearch/bleve/v2/search/query"

	cf "verifharness/internal/coqfmt"
	"verifharness/internal/vh"
	"verifharness/internal/vrand"
)

// ---------------------------------------------------------------- inputs

type Doc struct {
	ID  string   `json:"id"`
	Q   string   `json:"q"`             // keyword, always present: "a" | "b"
	Cat *string  `json:"cat,omitempty"` // keyword, single valued, sometimes absent (sort + facet field)
	Tag []string `json:"tag,omitempty"` // keyword, 0..3 values (facet field)
	N   *float64 `json:"n,omitempty"`   // numeric, sometimes absent (sort + range facet field)
}

// Tree is an alias tree: a leaf names a shard, an inner node is an alias of its kids.
type Tree struct {
	Shard *int   `json:"shard,omitempty"`
	Kids  []Tree `json:"kids,omitempty"`
	// AddLater: the last AddLater kids are attached with alias.Add after construction
	AddLater int `json:"add_later,omitempty"`
}

type World struct {
	Docs    []Doc    `json:"docs"`
	Assign  []int    `json:"assign"`  // document i lives in shard Assign[i]
	Engines []string `json:"engines"` // engine of every shard
	Single  string   `json:"single"`  // engine of the index holding everything
	Tree    Tree     `json:"tree"`
}

type Facet struct {
	Name   string       `json:"name"`
	Field  string       `json:"field"`
	Size   int          `json:"size"`
	Prefix string       `json:"prefix,omitempty"` // terms facet: TermPrefix filter (Other then counts the other terms)
	Ranges [][2]*float64 `json:"ranges,omitempty"` // numeric ranges [min,max), named r0, r1, ...
}

type Req struct {
	Query  string   `json:"query"` // "all" | "q=a" | "q=b" | "n<3" | "none"
	Sort   []string `json:"sort"`
	From   int      `json:"from"`
	Size   int      `json:"size"`
	// paging relative to a hit of the full listing (index modulo the number of matches) ...
	AfterIdx  *int `json:"after_idx,omitempty"`
	BeforeIdx *int `json:"before_idx,omitempty"`
	// ... or literal keys
	AfterRaw  []string `json:"after_raw,omitempty"`
	BeforeRaw []string `json:"before_raw,omitempty"`
	Facets    []Facet  `json:"facets,omitempty"`
}

type In struct {
	World World `json:"world"`
	Req   Req   `json:"req"`
}

// ---------------------------------------------------------------- generation

var cats = []string{"red", "green", "blue", "x"}
var tags = []string{"ta1", "ta2", "ta3", "tb1", "tb2", "tb3"}

var sorts = [][]string{
	{"_id"}, {"-_id"}, {"cat", "_id"}, {"-cat", "_id"}, {"cat", "-_id"}, {"n", "_id"}, {"-n", "-_id"}, {"-n", "_id"}, {"cat", "-n", "_id"},
}

func genTree(r *vrand.R, shards []int, depth int) Tree {
	// a leaf
	if len(shards) == 1 && (depth >= 3 || r.Chance(2, 3)) {
		s := shards[0]
		return Tree{Shard: &s}
	}
	if depth >= 3 {
		// no deeper nesting: a flat alias of the remaining shards
		var t Tree
		for _, s := range shards {
			s := s
			t.Kids = append(t.Kids, Tree{Shard: &s})
		}
		if len(t.Kids) > 1 && r.Chance(1, 3) {
			t.AddLater = r.Range(1, len(t.Kids)-1)
		}
		return t
	}
	// split the shards into 1..k groups, each group a kid
	k := r.Range(1, len(shards))
	if len(shards) == 1 {
		k = 1
	}
	groups := make([][]int, k)
	for i, s := range shards {
		g := i
		if i >= k {
			g = r.Intn(k)
		}
		groups[g] = append(groups[g], s)
	}
	var t Tree
	for _, g := range groups {
		t.Kids = append(t.Kids, genTree(r, g, depth+1))
	}
	if len(t.Kids) > 1 && r.Chance(1, 4) {
		t.AddLater = r.Range(1, len(t.Kids)-1)
	}
	return t
}

func genWorld(r *vrand.R) World {
	var w World
	n := r.Range(5, 40)
	if r.Chance(1, 12) {
		n = r.Range(0, 4)
	}
	ns := r.Range(1, 5)
	skew := r.Chance(1, 3)
	for i := 0; i < n; i++ {
		d := Doc{ID: fmt.Sprintf("d%02d", i), Q: "a"}
		if r.Chance(1, 4) {
			d.Q = "b"
		}
		if !r.Chance(1, 5) {
			c := vrand.Pick(r, cats)
			d.Cat = &c
		}
		for k := r.Intn(4); k > 0; k-- {
			d.Tag = append(d.Tag, vrand.Pick(r, tags))
		}
		if !r.Chance(1, 5) {
			f := float64(r.Range(-2, 6))
			if r.Chance(1, 4) {
				f += 0.5
			}
			d.N = &f
		}
		w.Docs = append(w.Docs, d)
		sh := r.Intn(ns)
		if skew && r.Chance(2, 3) {
			sh = 0 // skewed partition; some shards stay empty
		}
		w.Assign = append(w.Assign, sh)
	}
	// ids are not inserted in order everywhere
	vrand.Shuffle(r, w.Docs)
	for i := 0; i < ns; i++ {
		w.Engines = append(w.Engines, vrand.Pick(r, []string{"scorch", "upsidedown"}))
	}
	w.Single = vrand.Pick(r, []string{"scorch", "upsidedown"})
	sh := make([]int, ns)
	for i := range sh {
		sh[i] = i
	}
	vrand.Shuffle(r, sh)
	w.Tree = genTree(r, sh, 1)
	if w.Tree.Shard != nil {
		// the root is always an alias
		w.Tree = Tree{Kids: []Tree{w.Tree}}
	}
	return w
}

func genFacets(r *vrand.R) []Facet {
	var fs []Facet
	if r.Chance(1, 2) {
		return nil
	}
	if r.Chance(3, 4) {
		fs = append(fs, Facet{Name: "tags", Field: "tag", Size: r.Range(len(tags), len(tags)+4)})
	}
	if r.Chance(1, 2) {
		fs = append(fs, Facet{Name: "cats", Field: "cat", Size: r.Range(len(cats), len(cats)+2)})
	}
	if r.Chance(1, 2) {
		a, b, c := 0.0, 3.0, 1.5
		f := Facet{Name: "nums", Field: "n", Size: 4}
		f.Ranges = [][2]*float64{{nil, &a}, {&a, &b}, {&b, nil}}
		if r.Chance(1, 2) {
			f.Ranges = append(f.Ranges, [2]*float64{&c, &b})
		}
		fs = append(fs, f)
	}
	if r.Chance(1, 3) {
		// prefix-filtered terms facet: 3 terms can pass, the size is larger; Other = the terms filtered out
		fs = append(fs, Facet{Name: "pre", Field: "tag", Size: r.Range(4, 6), Prefix: vrand.Pick(r, []string{"ta", "tb", "ta1"})})
	}
	if r.Chance(1, 6) {
		// a size that does NOT cover the buckets: only the model correspondence is checked on it
		fs = append(fs, Facet{Name: "few", Field: "tag", Size: r.Range(1, 3)})
	}
	return fs
}

func genReqs(r *vrand.R, w World, emit func(Req)) {
	n := len(w.Docs)
	pickQ := func() string {
		switch r.Intn(8) {
		case 0, 1:
			return "q=a"
		case 2:
			return "q=b"
		case 3:
			return "n<3"
		case 4:
			if r.Chance(1, 3) {
				return "none"
			}
		}
		return "all"
	}
	base := func() Req {
		return Req{Query: pickQ(), Sort: vrand.Pick(r, sorts), Facets: genFacets(r)}
	}
	// ordinary pages
	for i := 0; i < 4; i++ {
		q := base()
		q.Size = vrand.Pick(r, []int{1, 2, 3, 5, 10, 11, n, n + 5})
		q.From = vrand.Pick(r, []int{0, 0, 1, 2, 3, 7, 9, 10, n / 2, n - 1, n, n + 3})
		if q.From < 0 {
			q.From = 0
		}
		emit(q)
	}
	// Size = 0: From = 0, From > 0 (the class alias-size0-from), From beyond the end
	{
		q := base()
		q.Size, q.From = 0, 0
		emit(q)
		q = base()
		q.Size, q.From = 0, vrand.Pick(r, []int{1, 2, 3, 5, n/2 + 1})
		emit(q)
		if r.Chance(1, 2) {
			q = base()
			q.Size, q.From = 0, n+r.Range(1, 4)
			emit(q)
		}
	}
	// From beyond the end with Size > 0
	{
		q := base()
		q.Size, q.From = r.Range(1, 4), n+r.Range(0, 3)
		emit(q)
	}
	// SearchAfter / SearchBefore relative to a hit of the listing (From = 0 as Validate demands)
	for i := 0; i < 3; i++ {
		q := base()
		q.Size = vrand.Pick(r, []int{1, 2, 3, 5, n + 1})
		idx := r.Intn(n + 1)
		if r.Chance(1, 4) {
			idx = vrand.Pick(r, []int{0, n - 1})
			if idx < 0 {
				idx = 0
			}
		}
		if i%2 == 0 {
			q.AfterIdx = &idx
		} else {
			q.BeforeIdx = &idx
		}
		if i == 2 && r.Chance(1, 2) {
			q.AfterIdx, q.BeforeIdx = nil, &idx
		}
		emit(q)
	}
	// literal keys that belong to no document
	{
		q := base()
		q.Sort = vrand.Pick(r, [][]string{{"_id"}, {"-_id"}})
		q.Size = r.Range(1, 4)
		k := []string{fmt.Sprintf("d%02dx", r.Intn(n+2))}
		if r.Chance(1, 5) {
			k = []string{vrand.Pick(r, []string{"", "a", "e", "d"})}
		}
		if r.Bool() {
			q.AfterRaw = k
		} else {
			q.BeforeRaw = k
		}
		emit(q)
	}
}

func gen(f vh.Flags, r *vrand.R, emit func(In)) {
	nw := f.N(24, 960)
	for i := 0; i < nw; i++ {
		wr := r.Fork()
		w := genWorld(wr)
		genReqs(wr, w, func(q Req) { emit(In{World: w, Req: q}) })
	}
}

// ---------------------------------------------------------------- worlds (real indexes), cached

type world struct {
	key    string
	shards []bleve.Index
	single bleve.Index
	root   bleve.Index
	leaves int
	depth  int
	refs   int
	stamp  int64
	err    error
	once   sync.Once
}

var (
	wmu    sync.Mutex
	worlds = map[string]*world{}
	wclock int64
)

const maxWorlds = 12

func buildMapping() mapping.IndexMapping {
	m := bleve.NewIndexMapping()
	dm := bleve.NewDocumentMapping()
	dm.AddFieldMappingsAt("q", bleve.NewKeywordFieldMapping())
	dm.AddFieldMappingsAt("cat", bleve.NewKeywordFieldMapping())
	dm.AddFieldMappingsAt("tag", bleve.NewKeywordFieldMapping())
	dm.AddFieldMappingsAt("n", bleve.NewNumericFieldMapping())
	m.DefaultMapping = dm
	return m
}

func newIndex(engine string) (bleve.Index, error) {
	if engine == "upsidedown" {
		return bleve.NewUsing("", buildMapping(), upsidedown.Name, gtreap.Name, nil)
	}
	return bleve.NewUsing("", buildMapping(), scorch.Name, scorch.Name, nil)
}

func docBody(d Doc) map[string]interface{} {
	b := map[string]interface{}{"q": d.Q}
	if d.Cat != nil {
		b["cat"] = *d.Cat
	}
	if len(d.Tag) == 1 {
		b["tag"] = d.Tag[0]
	} else if len(d.Tag) > 1 {
		vs := make([]interface{}, len(d.Tag))
		for i, t := range d.Tag {
			vs[i] = t
		}
		b["tag"] = vs
	}
	if d.N != nil {
		b["n"] = *d.N
	}
	return b
}

func (w *world) build(spec World) {
	ns := len(spec.Engines)
	for i := 0; i < ns; i++ {
		ix, err := newIndex(spec.Engines[i])
		if err != nil {
			w.err = err
			return
		}
		w.shards = append(w.shards, ix)
	}
	var err error
	if w.single, err = newIndex(spec.Single); err != nil {
		w.err = err
		return
	}
	// documents go in small batches and single calls, mixed
	batches := make([]*bleve.Batch, ns)
	sb := w.single.NewBatch()
	for i, d := range spec.Docs {
		sh := spec.Assign[i]
		if sh < 0 || sh >= ns {
			w.err = fmt.Errorf("bad assignment")
			return
		}
		if i%3 == 0 {
			if err := w.shards[sh].Index(d.ID, docBody(d)); err != nil {
				w.err = err
				return
			}
		} else {
			if batches[sh] == nil {
				batches[sh] = w.shards[sh].NewBatch()
			}
			if err := batches[sh].Index(d.ID, docBody(d)); err != nil {
				w.err = err
				return
			}
			if batches[sh].Size() >= 4 {
				if err := w.shards[sh].Batch(batches[sh]); err != nil {
					w.err = err
					return
				}
				batches[sh] = nil
			}
		}
		if err := sb.Index(d.ID, docBody(d)); err != nil {
			w.err = err
			return
		}
		if sb.Size() >= 7 {
			if err := w.single.Batch(sb); err != nil {
				w.err = err
				return
			}
			sb = w.single.NewBatch()
		}
	}
	for sh, b := range batches {
		if b != nil {
			if err := w.shards[sh].Batch(b); err != nil {
				w.err = err
				return
			}
		}
	}
	if err := w.single.Batch(sb); err != nil {
		w.err = err
		return
	}
	var mk func(t Tree, depth int) (bleve.Index, error)
	mk = func(t Tree, depth int) (bleve.Index, error) {
		if depth > w.depth {
			w.depth = depth
		}
		if t.Shard != nil {
			if *t.Shard < 0 || *t.Shard >= ns {
				return nil, fmt.Errorf("bad shard in tree")
			}
			w.leaves++
			return w.shards[*t.Shard], nil
		}
		var kids []bleve.Index
		for _, k := range t.Kids {
			ix, err := mk(k, depth+1)
			if err != nil {
				return nil, err
			}
			kids = append(kids, ix)
		}
		later := t.AddLater
		if later < 0 || later >= len(kids) {
			later = 0
		}
		al := bleve.NewIndexAlias(kids[:len(kids)-later]...)
		for _, k := range kids[len(kids)-later:] {
			al.Add(k)
		}
		return al, nil
	}
	w.root, w.err = mk(spec.Tree, 0)
}

func (w *world) close() {
	for _, s := range w.shards {
		s.Close()
	}
	if w.single != nil {
		w.single.Close()
	}
}

func getWorld(spec World) *world {
	js, _ := json.Marshal(spec)
	h := sha1.Sum(js)
	key := hex.EncodeToString(h[:])
	wmu.Lock()
	w := worlds[key]
	if w == nil {
		w = &world{key: key}
		worlds[key] = w
		// evict idle worlds
		if len(worlds) > maxWorlds {
			var idle []*world
			for _, x := range worlds {
				if x.refs == 0 && x != w {
					idle = append(idle, x)
				}
			}
			sort.Slice(idle, func(i, j int) bool { return idle[i].stamp < idle[j].stamp })
			for _, x := range idle {
				if len(worlds) <= maxWorlds {
					break
				}
				delete(worlds, x.key)
				go x.close()
			}
		}
	}
	w.refs++
	wclock++
	w.stamp = wclock
	wmu.Unlock()
	w.once.Do(func() { w.build(spec) })
	return w
}

func putWorld(w *world) {
	wmu.Lock()
	w.refs--
	wmu.Unlock()
}

// ---------------------------------------------------------------- requests

func mkQuery(q string) query.Query {
	switch q {
	case "q=a", "q=b":
		tq := bleve.NewTermQuery(q[2:])
		tq.SetField("q")
		return tq
	case "n<3":
		hi := 3.0
		nq := bleve.NewNumericRangeQuery(nil, &hi)
		nq.SetField("n")
		return nq
	case "none":
		tq := bleve.NewTermQuery("zzz")
		tq.SetField("q")
		return tq
	}
	return bleve.NewMatchAllQuery()
}

func addFacets(req *bleve.SearchRequest, fs []Facet) {
	for _, f := range fs {
		fr := bleve.NewFacetRequest(f.Field, f.Size)
		if f.Prefix != "" {
			fr.SetPrefixFilter(f.Prefix)
		}
		for i, rg := range f.Ranges {
			fr.AddNumericRange(fmt.Sprintf("r%d", i), rg[0], rg[1])
		}
		req.AddFacet(f.Name, fr)
	}
}

func mkReq(q Req, size, from int, order search.SortOrder, after, before []string) *bleve.SearchRequest {
	req := bleve.NewSearchRequestOptions(mkQuery(q.Query), size, from, false)
	req.SortByCustom(order)
	req.Fields = []string{"*"}
	addFacets(req, q.Facets)
	if after != nil {
		req.SetSearchAfter(after)
	}
	if before != nil {
		req.SetSearchBefore(before)
	}
	return req
}

// ---------------------------------------------------------------- Coq terms

func fbits(f float64) cf.T { return cf.U(math.Float64bits(f)) }

func keysT(ks []string) cf.T { return cf.ListOf(ks, func(s string) cf.T { return cf.Str(s) }) }

func fieldsT(fs map[string]interface{}) cf.T {
	names := make([]string, 0, len(fs))
	for n := range fs {
		names = append(names, n)
	}
	sort.Strings(names)
	return cf.ListOf(names, func(n string) cf.T { return cf.Pair(cf.Str(n), cf.Str(fmt.Sprintf("%v", fs[n]))) })
}

func hitT(h *search.DocumentMatch) cf.T {
	return cf.App("Build_hit", keysT(h.Sort), cf.Str(h.ID), cf.U(h.HitNumber), fieldsT(h.Fields))
}

func obsT(h *search.DocumentMatch) cf.T {
	return cf.Tuple(keysT(h.Sort), cf.Str(h.ID), fieldsT(h.Fields))
}

func optF(p *float64) cf.T {
	if p == nil {
		return cf.None
	}
	return cf.Some(fbits(*p))
}

func facetsT(fr search.FacetResults) cf.T {
	names := make([]string, 0, len(fr))
	for n := range fr {
		names = append(names, n)
	}
	sort.Strings(names)
	return cf.ListOf(names, func(n string) cf.T {
		r := fr[n]
		terms, nrs := cf.None, cf.None
		if r.Terms != nil {
			terms = cf.Some(cf.ListOf(r.Terms.Terms(), func(t *search.TermFacet) cf.T {
				return cf.Pair(cf.Str(t.Term), cf.Int(t.Count))
			}))
		}
		if r.NumericRanges != nil {
			nrs = cf.Some(cf.ListOf([]*search.NumericRangeFacet(r.NumericRanges), func(x *search.NumericRangeFacet) cf.T {
				return cf.App("Build_nrange", cf.Str(x.Name), optF(x.Min), optF(x.Max), cf.Int(x.Count))
			}))
		}
		return cf.Pair(cf.Str(n), cf.App("Build_fres", cf.Int(r.Total), cf.Int(r.Missing), cf.Int(r.Other), terms, nrs))
	})
}

func oresultT(r *bleve.SearchResult, err error) cf.T {
	if err != nil || r == nil {
		return cf.None
	}
	return cf.Some(cf.App("Build_oresult",
		cf.ListOf([]*search.DocumentMatch(r.Hits), obsT), cf.U(r.Total), fbits(r.MaxScore), facetsT(r.Facets)))
}

func optKeys(ks []string) cf.T {
	if ks == nil {
		return cf.None
	}
	return cf.Some(keysT(ks))
}

// ---------------------------------------------------------------- execution

func exec(in In) vh.Result {
	var res vh.Result
	q := in.Req
	if len(in.World.Docs) != len(in.World.Assign) || len(q.Sort) == 0 || q.Size < 0 || q.From < 0 {
		res.Skip = true
		return res
	}
	w := getWorld(in.World)
	defer putWorld(w)
	if w.err != nil {
		return vh.Result{Direct: &vh.Direct{Kind: "build-error", Detail: w.err.Error()}}
	}
	ndocs := len(in.World.Docs)
	order := func() search.SortOrder { return search.ParseSortOrderStrings(q.Sort) }

	var term cf.T
	var nShardsWithMatches, total int
	kind := "page"
	d := vh.Guard(60*time.Second, "alias search", func() {
		// paging keys
		after, before := q.AfterRaw, q.BeforeRaw
		if q.AfterIdx != nil || q.BeforeIdx != nil {
			full, err := w.single.Search(mkReq(q, ndocs+5, 0, order(), nil, nil))
			if err != nil {
				panic(err)
			}
			if len(full.Hits) > 0 {
				if q.AfterIdx != nil {
					after = append([]string{}, full.Hits[*q.AfterIdx%len(full.Hits)].Sort...)
				} else {
					before = append([]string{}, full.Hits[*q.BeforeIdx%len(full.Hits)].Sort...)
				}
			}
		}
		if after != nil && before != nil {
			before = nil
		}
		if (after != nil || before != nil) && (len(after)+len(before) != len(q.Sort)) {
			after, before = nil, nil
		}
		from := q.From
		if after != nil || before != nil {
			from = 0 // SearchRequest.Validate: no From with SearchAfter / SearchBefore
			kind = "after"
			if before != nil {
				kind = "before"
			}
		}

		// the members' own matches under the order they execute (reversed for SearchBefore)
		eff := order()
		if before != nil {
			eff.Reverse()
		}
		var mkTree func(t Tree) cf.T
		mkTree = func(t Tree) cf.T {
			if t.Shard != nil {
				lr, err := w.shards[*t.Shard].Search(mkReq(q, ndocs+5, 0, eff.Copy(), nil, nil))
				if err != nil {
					panic(err)
				}
				if len(lr.Hits) > 0 {
					nShardsWithMatches++
				}
				total += len(lr.Hits)
				return cf.App("Leaf", cf.App("Build_leaf",
					cf.ListOf([]*search.DocumentMatch(lr.Hits), hitT), fbits(lr.MaxScore), facetsT(lr.Facets)))
			}
			return cf.App("Alias", cf.ListOf(t.Kids, mkTree))
		}
		treeT := mkTree(in.World.Tree)

		rs, errS := w.single.Search(mkReq(q, q.Size, from, order(), after, before))
		ra, errA := w.root.Search(mkReq(q, q.Size, from, order(), after, before))

		desc := cf.ListOf([]search.SearchSort(order()), func(s search.SearchSort) cf.T { return cf.Bool(s.Descending()) })
		fsizes := cf.ListOf(q.Facets, func(f Facet) cf.T { return cf.Pair(cf.Str(f.Name), cf.Int(f.Size)) })
		// facet names sorted, as facetsT prints them
		rq := cf.App("Build_request", desc, cf.Int(from), cf.Int(q.Size), optKeys(after), optKeys(before), fsizes)
		term = cf.App("CAlias", rq, treeT, oresultT(rs, errS), oresultT(ra, errA))
		if q.Size == 0 && from > 0 {
			kind = "size0-from"
		} else if q.Size == 0 {
			kind = "size0"
		} else if kind == "page" && from >= ndocs {
			kind = "beyond"
		}
	})
	if d != nil {
		return vh.Result{Direct: d}
	}
	res.Term = term
	res.Nontrivial = nShardsWithMatches >= 2
	if kind == "size0-from" {
		res.Class = "alias-size0-from"
	}
	fk := "facets:none"
	if len(q.Facets) > 0 {
		fk = "facets:yes"
	}
	mix := "engines:" + strings.Join(uniq(append([]string{}, in.World.Engines...)), "+")
	res.Hist = []string{
		fmt.Sprintf("shards:%d", len(in.World.Engines)), fmt.Sprintf("depth:%d", w.depth), "kind:" + kind,
		"sort:" + strings.Join(q.Sort, ","), fk, mix, "query:" + q.Query,
		fmt.Sprintf("shards-with-matches:%d", nShardsWithMatches),
	}
	return res
}

func uniq(xs []string) []string {
	sort.Strings(xs)
	var out []string
	for i, x := range xs {
		if i == 0 || x != xs[i-1] {
			out = append(out, x)
		}
	}
	return out
}

func main() {
	vh.Main(vh.Config{
		Property:  "C09",
		Imports:   []string{"Common.Bytes", "Collect.Shards", "Collect.ShardsCorr"},
		CaseType:  "ShardsCorr.case",
		CheckFn:   "ShardsCorr.check",
		ExplainFn: "ShardsCorr.explain",
		Rule: "corpora of 0..40 documents (keyword fields q/cat/tag, numeric n; absent and multi-valued fields) assigned at random (uniform or skewed, empty shards included) to 1..5 in-memory " +
			"indexes (scorch and upsidedown mixed), reached through an alias tree of depth <= 3 (single-member aliases, members added with Add); requests: match-all / term / numeric-range / no-match " +
			"queries, score-independent total sorts (_id, -_id, field(s) then _id in both directions), pages Size in {1..n+5} x From in {0..n+3}, Size = 0 with From = 0 / > 0 / beyond the end, " +
			"SearchAfter and SearchBefore from every position of the listing and from keys of no document, terms facets (covering and non-covering sizes, with and without a prefix filter) and numeric range facets, Fields = *; " +
			"each request runs on the alias root and on one index holding everything; non-trivial: at least two members hold matching documents",
		ShardSize: 24,
	}, gen, exec)
}
