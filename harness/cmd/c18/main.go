// C18 correspondence harness: Morton hashing, the geo cell recursion, and bounding-box / distance /
// polygon queries and distance sort on real indexes (scorch, scorch with the s2 spatial plugin,
// upsidedown).  The oracle is the Coq model (coq/Geo); this program only generates inputs, runs
// the implementation and prints what it returned.  The one exception, stated in checks/C18.json:
// for circles (trigonometry, which Coq cannot evaluate) each (point, query) pair is classified
// here as clearly-inside / clearly-outside / near-boundary with strict float64 math and generous
// margins, and that classification is part of the case's INPUT.  Polygon verdicts are computed in
// Coq (Geo/Polygon.v) from the exact values of the float64 inputs.
package main

import (
	"context"
	"fmt"
	"math"
	"math/big"
	"sort"
	"strconv"
	"strings"
	"time"

	"github.com/blevesearch/bleve/v2"
	"github.com/blevesearch/bleve/v2/geo"
	"github.com/blevesearch/bleve/v2/index/scorch"
	"github.com/blevesearch/bleve/v2/index/upsidedown"
	"github.com/blevesearch/bleve/v2/index/upsidedown/store/gtreap"
	"github.com/blevesearch/bleve/v2/numeric"
	"github.com/blevesearch/bleve/v2/search"
	"github.com/blevesearch/bleve/v2/search/query"
	"github.com/blevesearch/bleve/v2/search/searcher"

	cf "verifharness/internal/coqfmt"
	"verifharness/internal/vh"
	"verifharness/internal/vrand"
)

type Pt struct {
	Lon uint64 `json:"lon"` // float64 bits
	Lat uint64 `json:"lat"`
}

type In struct {
	Kind   string    `json:"kind"`
	X      uint64    `json:"x,omitempty"`
	Y      uint64    `json:"y,omitempty"`
	P      *Pt       `json:"p,omitempty"`      // hash: the point; dist/sort: the centre
	Box    []uint64  `json:"box,omitempty"`    // range: minLon,minLat,maxLon,maxLat; box: tlLon,tlLat,brLon,brLat (bits)
	CheckB bool      `json:"check_b,omitempty"`
	Engine string    `json:"engine,omitempty"` // scorch | s2 | upsidedown
	Docs   [][]Pt    `json:"docs,omitempty"`
	Radius uint64    `json:"radius,omitempty"` // metres, float64 bits
	Poly   []Pt      `json:"poly,omitempty"`
	Desc   bool      `json:"desc,omitempty"`
	Note   string    `json:"note,omitempty"`
}

const (
	classMV     = "geo-multivalue-first-only"
	gridMax     = float64(1<<32 - 1)
	rEquatorial = 6378137.0
	rPolar      = 6356752.3142
	rMean       = 6371008.7714
	distAbsM    = 0.2  // absolute margin of the circle classification, metres
	polyMargin  = 3e-6 // degrees
	maxRangeTerms = 2500
)

// Z literals as explicit binary constructors: Coq 8.16 interprets a 20-digit decimal numeral in
// ~7 ms (and a hexadecimal one in ~40 ms) but parses the constructor form in ~0.4 ms, and a quick
// run prints tens of thousands of 64-bit values.
func zcBig(n *big.Int) cf.T {
	switch n.Sign() {
	case 0:
		return "Z0"
	case -1:
		return cf.T("(Z.opp " + string(zcBig(new(big.Int).Neg(n))) + ")")
	}
	var sb strings.Builder
	sb.WriteString("(Zpos ")
	bits := n.BitLen()
	for i := 0; i < bits-1; i++ {
		if n.Bit(i) == 1 {
			sb.WriteString("(xI ")
		} else {
			sb.WriteString("(xO ")
		}
	}
	sb.WriteString("xH")
	sb.WriteString(strings.Repeat(")", bits))
	return cf.T(sb.String())
}
func zc(u uint64) cf.T   { return zcBig(new(big.Int).SetUint64(u)) }
func zi(i int64) cf.T    { return zcBig(big.NewInt(i)) }
func termZ(t []byte) cf.T { return zcBig(new(big.Int).SetBytes(t)) }

func fb(f float64) uint64 { return math.Float64bits(f) }
func bf(b uint64) float64 { return math.Float64frombits(b) }
func mkPt(lon, lat float64) Pt { return Pt{fb(clampLon(lon)), fb(clampLat(lat))} }
func (p Pt) lon() float64 { return bf(p.Lon) }
func (p Pt) lat() float64 { return bf(p.Lat) }

func clampLon(l float64) float64 { return math.Max(-180, math.Min(180, l)) }
func clampLat(l float64) float64 { return math.Max(-90, math.Min(90, l)) }
func wrapLon(l float64) float64 {
	for l > 180 {
		l -= 360
	}
	for l < -180 {
		l += 360
	}
	return l
}

// ---------------------------------------------------------------- generators

func edgeU32(r *vrand.R) uint64 {
	switch r.Intn(6) {
	case 0:
		return vrand.Pick(r, []uint64{0, 1, 2, 1<<32 - 1, 1<<32 - 2, 1 << 31, 1<<31 - 1, 0x55555555, 0xAAAAAAAA, 0xFFFF0000, 0x0000FFFF})
	case 1:
		return (uint64(1) << uint(r.Intn(32))) + uint64(r.Range(-1, 1))&0xFFFFFFFF
	case 2:
		return (uint64(r.Range(0, 1<<14)) << 18) & 0xFFFFFFFF
	case 3:
		return ((uint64(r.Range(1, 1<<14)) << 18) - 1) & 0xFFFFFFFF
	default:
		return r.U64() & 0xFFFFFFFF
	}
}

func edgeLon(r *vrand.R) float64 {
	switch r.Intn(8) {
	case 0:
		return vrand.Pick(r, []float64{-180, 180, 0, -179.99999999, 179.99999999, 90, -90, 24, -156, 1e-300, -1e-7})
	case 1: // exactly a decoded grid point (a cell corner of the recursion)
		return geo.MortonUnhashLon(numeric.Interleave(edgeU32(r), 0))
	case 2: // one ulp around a decoded grid point
		v := geo.MortonUnhashLon(numeric.Interleave(edgeU32(r), 0))
		return clampLon(math.Nextafter(v, vrand.Pick(r, []float64{-1000, 1000})))
	case 3: // a fraction of a grid step past a grid point
		v := geo.MortonUnhashLon(numeric.Interleave(edgeU32(r), 0))
		return clampLon(v + 360/gridMax*r.Float())
	case 4:
		return float64(r.Range(-180, 180))
	default:
		return -180 + 360*r.Float()
	}
}

func edgeLat(r *vrand.R) float64 {
	switch r.Intn(8) {
	case 0:
		return vrand.Pick(r, []float64{-90, 90, 0, -89.99999999, 89.99999999, 45, -45, 6, -78, 1e-300, -1e-7})
	case 1:
		return geo.MortonUnhashLat(numeric.Interleave(0, edgeU32(r)))
	case 2:
		v := geo.MortonUnhashLat(numeric.Interleave(0, edgeU32(r)))
		return clampLat(math.Nextafter(v, vrand.Pick(r, []float64{-1000, 1000})))
	case 3:
		v := geo.MortonUnhashLat(numeric.Interleave(0, edgeU32(r)))
		return clampLat(v + 180/gridMax*r.Float())
	case 4:
		return float64(r.Range(-90, 90))
	default:
		return -90 + 180*r.Float()
	}
}

// Keep a box edge away from decoded corners of the recursion's cells (grid multiples of 2^18 and
// those minus one), so that the float comparisons of relateAndRecurse are not close calls; edges
// exactly at the coordinate bounds are fine (they decode exactly).  Generator-side only: the Coq
// check re-establishes safety itself and fails the case if it does not hold.
func safeEdge(v, min, span float64) float64 {
	for i := 0; i < 20; i++ {
		if v == min || v == min+span {
			return v
		}
		g := (v - min) * gridMax / span
		fr := math.Mod(g, 1<<18)
		if fr > 0.2 && math.Abs(fr-(1<<18-1)) > 0.2 && fr < (1<<18)-0.2 {
			return v
		}
		v += 3e-7
		if v > min+span {
			v = min + span - 1e-3
		}
	}
	return v
}

func logUniform(r *vrand.R, lo, hi float64) float64 {
	return math.Exp(math.Log(lo) + (math.Log(hi)-math.Log(lo))*r.Float())
}

// a query box: tlLon, tlLat, brLon, brLat
func genBox(r *vrand.R) (tlLon, tlLat, brLon, brLat float64, note string) {
	var w, h float64
	switch r.Intn(7) {
	case 0:
		w, h, note = logUniform(r, 1e-7, 1e-5), logUniform(r, 1e-7, 1e-5), "tiny"
	case 1:
		w, h, note = logUniform(r, 1e-4, 0.1), logUniform(r, 1e-4, 0.1), "small"
	case 2:
		w, h, note = logUniform(r, 0.1, 10), logUniform(r, 0.1, 10), "medium"
	case 3:
		w, h, note = logUniform(r, 10, 170), logUniform(r, 10, 120), "large"
	case 4:
		return -180, 90, 180, -90, "world"
	case 5:
		w, h, note = 359.9+0.1*r.Float(), 179.9+0.1*r.Float(), "nearly-world"
	default:
		w, h, note = logUniform(r, 1e-3, 60), logUniform(r, 1e-3, 60), "mid"
	}
	cLon, cLat := edgeLon(r), edgeLat(r)
	tlLat = clampLat(cLat + h/2)
	brLat = clampLat(cLat - h/2)
	tlLon = cLon - w/2
	brLon = cLon + w/2
	if r.Chance(1, 6) { // snap an edge onto a bound
		switch r.Intn(4) {
		case 0:
			tlLat = 90
		case 1:
			brLat = -90
		case 2:
			tlLon = -180
		default:
			brLon = 180
		}
	}
	if tlLon < -180 || brLon > 180 {
		if w < 359 && r.Chance(3, 4) {
			// crosses the date line: wrap, giving brLon < tlLon
			tlLon, brLon = wrapLon(tlLon), wrapLon(brLon)
			note += "+dateline"
		} else {
			tlLon, brLon = clampLon(tlLon), clampLon(brLon)
		}
	}
	if r.Chance(1, 12) && w < 300 { // an explicit date-line box
		tlLon, brLon = 180-w*r.Float(), -180+w*r.Float()
		note += "+dateline"
	}
	if r.Chance(1, 15) { // an edge exactly on a decoded cell corner (a close call for the recursion)
		h := geo.MortonHash(clampLon(tlLon), clampLat(brLat)) &^ (1<<36 - 1)
		tlLon = geo.MortonUnhashLon(h)
		note += "+oncorner"
	}
	return
}

// points that probe a rectangle [minLon,maxLon]x[minLat,maxLat] (no date-line inside)
func probeRect(r *vrand.R, minLon, minLat, maxLon, maxLat float64) Pt {
	inLon := func() float64 { return minLon + (maxLon-minLon)*r.Float() }
	inLat := func() float64 { return minLat + (maxLat-minLat)*r.Float() }
	deltas := []float64{0, 3e-8, 9e-8, 2e-7, 5e-7, 9e-7, 1.05e-6, 1.3e-6, 2e-6, 1e-5, 1e-3}
	d := vrand.Pick(r, deltas)
	if r.Bool() {
		d = -d
	}
	switch r.Intn(9) {
	case 0:
		return mkPt(inLon(), inLat())
	case 1:
		return mkPt(minLon+d, inLat())
	case 2:
		return mkPt(maxLon+d, inLat())
	case 3:
		return mkPt(inLon(), minLat+d)
	case 4:
		return mkPt(inLon(), maxLat+d)
	case 5: // a corner
		return mkPt(vrand.Pick(r, []float64{minLon, maxLon})+d, vrand.Pick(r, []float64{minLat, maxLat})+d)
	case 6: // on the boundary of the level-14 cell that holds an inside point
		h := geo.MortonHash(clampLon(inLon()), clampLat(inLat()))
		st := h &^ (1<<36 - 1)
		en := st | (1<<36 - 1)
		c := vrand.Pick(r, []uint64{st, en})
		step := float64(r.Range(-1, 1))
		return mkPt(geo.MortonUnhashLon(c)+step*360/gridMax, geo.MortonUnhashLat(c)+step*180/gridMax)
	case 7: // coordinate bounds
		return mkPt(vrand.Pick(r, []float64{-180, 180, inLon()}), vrand.Pick(r, []float64{-90, 90, inLat()}))
	default:
		return mkPt(edgeLon(r), edgeLat(r))
	}
}

func makeDocs(r *vrand.R, probe func() Pt) [][]Pt {
	n := r.Range(4, 9)
	docs := make([][]Pt, n)
	for i := range docs {
		m := 1
		switch r.Intn(10) {
		case 0:
			m = 0
		case 1, 2:
			m = 2
		case 3:
			m = 3
		}
		for j := 0; j < m; j++ {
			docs[i] = append(docs[i], probe())
		}
		if m >= 2 && r.Chance(1, 5) {
			docs[i][1] = docs[i][0] // a repeated value
		}
	}
	return docs
}

// Every API-level scene is run on a plain index (scorch two times out of three, else upsidedown)
// AND on a scorch index with the s2 spatial plugin: the same query, the same documents.
func enginesFor(k int) []string {
	return []string{[]string{"scorch", "upsidedown", "scorch"}[k%3], "s2"}
}

func gen(f vh.Flags, r *vrand.R, emit func(In)) {
	for k := 0; k < f.N(200, 20000); k++ {
		x, y := edgeU32(r), edgeU32(r)
		if r.Chance(1, 10) {
			x, y = r.U64(), r.U64() // beyond 32 bits: only the transcription is compared
		}
		emit(In{Kind: "il", X: x, Y: y})
	}
	for k := 0; k < f.N(200, 20000); k++ {
		b := r.U64()
		if r.Chance(1, 3) {
			b = numeric.Interleave(edgeU32(r), edgeU32(r))
		}
		if r.Chance(1, 10) {
			b = vrand.Pick(r, []uint64{0, math.MaxUint64, 1, 2, 0x5555555555555555, 0xAAAAAAAAAAAAAAAA})
		}
		emit(In{Kind: "dl", X: b})
	}
	for k := 0; k < f.N(300, 30000); k++ {
		p := mkPt(edgeLon(r), edgeLat(r))
		emit(In{Kind: "hash", P: &p})
	}
	for k := 0; k < f.N(300, 30000); k++ {
		h := numeric.Interleave(edgeU32(r), edgeU32(r))
		emit(In{Kind: "unhash", X: h})
	}
	for k := 0; k < f.N(45, 2500); k++ {
		var w, h float64
		switch r.Intn(4) {
		case 0:
			w, h = logUniform(r, 1e-7, 1e-3), logUniform(r, 1e-7, 1e-3)
		case 1:
			w, h = logUniform(r, 1e-3, 0.2), logUniform(r, 1e-3, 0.1)
		case 2:
			w, h = logUniform(r, 0.05, 0.8), logUniform(r, 0.02, 0.3)
		default:
			w, h = logUniform(r, 1e-2, 2), logUniform(r, 1e-5, 1e-2)
		}
		cLon, cLat := edgeLon(r), edgeLat(r)
		minLon, maxLon := clampLon(cLon-w/2), clampLon(cLon+w/2)
		minLat, maxLat := clampLat(cLat-h/2), clampLat(cLat+h/2)
		if r.Chance(1, 8) {
			minLon, maxLon, minLat, maxLat = -180, 180, -90, 90
		}
		if r.Chance(1, 8) {
			minLon, maxLon = -180, clampLon(-180+w)
		}
		if r.Chance(1, 8) {
			maxLat, minLat = 90, clampLat(90-h)
		}
		box := []uint64{fb(safeEdge(minLon, -180, 360)), fb(safeEdge(minLat, -90, 180)),
			fb(safeEdge(maxLon, -180, 360)), fb(safeEdge(maxLat, -90, 180))}
		emit(In{Kind: "range", Box: box, CheckB: !r.Chance(1, 4)})
	}
	// API-level scenes are generated per kind and emitted round-robin, so that the Coq evaluation
	// cost (box scenes are the expensive ones) is spread evenly over the case shards
	var scenes [4][]In
	nb, nd, np, ns := f.N(70, 5000), f.N(70, 5000), f.N(80, 5000), f.N(20, 1500)
	sceneNo := 0
	emitAPI := func(in In) {
		i := map[string]int{"box": 0, "dist": 1, "poly": 2, "sort": 3}[in.Kind]
		for _, e := range enginesFor(sceneNo) {
			c := in
			c.Engine = e
			scenes[i] = append(scenes[i], c)
		}
		sceneNo++
	}
	defer func() {
		for i := 0; ; i++ {
			any := false
			for k := range scenes {
				if i < len(scenes[k]) {
					emit(scenes[k][i])
					any = true
				}
			}
			if !any {
				return
			}
		}
	}()
	for k := 0; k < nb; k++ {
		tlLon, tlLat, brLon, brLat, note := genBox(r)
		probe := func() Pt {
			if brLon < tlLon {
				if r.Bool() {
					return probeRect(r, -180, brLat, brLon, tlLat)
				}
				return probeRect(r, tlLon, brLat, 180, tlLat)
			}
			return probeRect(r, tlLon, brLat, brLon, tlLat)
		}
		emitAPI(In{Kind: "box", Box: []uint64{fb(tlLon), fb(tlLat), fb(brLon), fb(brLat)},
			Docs: makeDocs(r, probe), Note: note})
	}
	for k := 0; k < nd; k++ {
		c := mkPt(edgeLon(r), edgeLat(r))
		note := ""
		if r.Chance(1, 6) {
			c = mkPt(vrand.Pick(r, []float64{180, -180, 179.999, -179.9995, 179.2}), edgeLat(r))
			note = "dateline"
		}
		if r.Chance(1, 6) {
			c = mkPt(edgeLon(r), vrand.Pick(r, []float64{90, -90, 89.999, -89.99, 88, -85}))
			note = "pole"
		}
		rad := logUniform(r, 1, 2e7)
		if r.Chance(1, 5) {
			rad = logUniform(r, 1, 200)
		}
		if r.Chance(1, 10) {
			rad = float64(r.Range(1, 9)) * math.Pow(10, float64(r.Range(0, 6)))
		}
		rad = math.Round(rad*1000) / 1000
		probe := func() Pt {
			ang := rad / rMean
			eps := vrand.Pick(r, []float64{0, 1e-9, 1e-7, 1e-5, 1e-4, 6e-4, 2.5e-3, 6e-3, 0.03, 0.3})
			if r.Bool() {
				eps = -eps
			}
			switch r.Intn(8) {
			case 0:
				return c
			case 1:
				return mkPt(edgeLon(r), edgeLat(r))
			case 2:
				return destination(c, 2*math.Pi*r.Float(), ang*0.9*r.Float())
			case 3: // due north / south / east / west at the radius
				return destination(c, float64(r.Intn(4))*math.Pi/2, ang*(1+eps))
			default:
				return destination(c, 2*math.Pi*r.Float(), ang*(1+eps))
			}
		}
		emitAPI(In{Kind: "dist", P: &c, Radius: fb(rad), Docs: makeDocs(r, probe), Note: note})
	}
	for k := 0; k < np; k++ {
		poly, note := genPolygon(r)
		probe := polyProbe(r, poly)
		emitAPI(In{Kind: "poly", Poly: poly, Docs: makeDocs(r, probe), Note: note})
	}
	for k := 0; k < ns; k++ {
		c := mkPt(edgeLon(r), edgeLat(r))
		n := r.Range(3, 10)
		docs := make([][]Pt, n)
		base := logUniform(r, 10, 1e7) / rMean
		for i := range docs {
			var p Pt
			switch r.Intn(3) {
			case 0:
				p = mkPt(edgeLon(r), edgeLat(r))
			case 1:
				p = destination(c, 2*math.Pi*r.Float(), base*(1+1e-3*float64(r.Range(-5, 5))))
			default:
				p = destination(c, 2*math.Pi*r.Float(), base*2*r.Float())
			}
			docs[i] = []Pt{p}
		}
		emitAPI(In{Kind: "sort", P: &c, Docs: docs, Desc: r.Chance(1, 3)})
	}
}

// ---------------------------------------------------------------- polygons
// A simple (non self-intersecting) polygon of 3-12 vertices inside the coordinate bounds, in the
// planar lon/lat sense bleve gives to polygon queries.  Dimensions: size (metres to continental:
// bounding box 1e-5 .. 170 degrees wide), latitude of the centre (half of the polygons at
// |lat| 40-80, where a great circle through two vertices leaves the straight lon/lat edge the
// most), shape family (star-shaped convex / concave, axis-parallel rectangle, band with long
// east-west edges broken into several vertices, skewed quadrilateral, triangle on an east-west
// base, rectilinear L / U / comb), orientation, position (anywhere, or touching +-180 / +-90).
func genPolygon(r *vrand.R) (poly []Pt, note string) {
	var w float64
	switch r.Intn(8) {
	case 0:
		w, note = logUniform(r, 1e-5, 1e-3), "metres"
	case 1:
		w, note = logUniform(r, 1e-3, 0.05), "km"
	case 2:
		w, note = logUniform(r, 0.05, 2), "city"
	case 3, 4:
		w, note = logUniform(r, 2, 20), "country"
	default:
		// at most 170 degrees wide: every edge then spans less than 180 degrees of longitude, the
		// domain on which "the segment from a to b" means the same in the lon/lat plane and on the
		// sphere (beyond it the s2 covering takes the edge the short way round the globe)
		w, note = 20+150*r.Float(), "continental"
	}
	h := w * (0.08 + 0.9*r.Float())
	if h > 50 {
		h = 20 + 30*r.Float()
	}
	// centre
	var cy float64
	if r.Bool() {
		cy = (40 + 40*r.Float()) * float64(1-2*r.Intn(2))
		note += "+midhigh"
	} else {
		cy = -85 + 170*r.Float()
	}
	if cy+h/2 > 90 {
		cy = 90 - h/2
	}
	if cy-h/2 < -90 {
		cy = -90 + h/2
	}
	if !(cy+h/2 >= 89.999 || cy-h/2 <= -89.999) && r.Chance(1, 2) {
		// keep away from the poles unless asked for below
		cy = math.Max(-88+h/2, math.Min(88-h/2, cy))
	}
	cx := -180 + w/2 + (360-w)*r.Float()
	if r.Chance(1, 10) { // touching a coordinate bound
		switch r.Intn(4) {
		case 0:
			cx, note = -180+w/2, note+"+at-180"
		case 1:
			cx, note = 180-w/2, note+"+at180"
		case 2:
			cy, note = 90-h/2, note+"+at90"
		default:
			cy, note = -90+h/2, note+"+at-90"
		}
	}
	x0, x1, y0, y1 := cx-w/2, cx+w/2, cy-h/2, cy+h/2
	at := func(fx, fy float64) Pt { return mkPt(x0+fx*(x1-x0), y0+fy*(y1-y0)) }
	switch r.Intn(8) {
	case 0, 1: // star-shaped around the centre
		n := r.Range(3, 12)
		concave := r.Bool()
		note += "+star"
		if concave {
			note += "-concave"
		}
		for i := 0; i < n; i++ {
			a := (float64(i) + 0.15 + 0.7*r.Float()) * 2 * math.Pi / float64(n)
			rad := 1.0
			if concave {
				rad = 0.35 + 0.65*r.Float()
			}
			poly = append(poly, at(0.5+0.5*rad*math.Cos(a), 0.5+0.5*rad*math.Sin(a)))
		}
	case 2: // axis-parallel rectangle: two long east-west edges
		note += "+rect"
		poly = []Pt{at(0, 0), at(1, 0), at(1, 1), at(0, 1)}
	case 3: // band: the long east-west edges broken into several vertices with a little jitter
		note += "+band"
		nb := r.Range(1, 5) // vertices on the bottom edge, corners included = nb+1
		nt := r.Range(1, 5)
		for i := 0; i <= nb; i++ {
			j := 0.0
			if i > 0 && i < nb {
				j = 0.2 * r.Float()
			}
			poly = append(poly, at(float64(i)/float64(nb), j))
		}
		for i := nt; i >= 0; i-- {
			j := 0.0
			if i > 0 && i < nt {
				j = 0.2 * r.Float()
			}
			poly = append(poly, at(float64(i)/float64(nt), 1-j))
		}
	case 4: // skewed quadrilateral
		note += "+quad"
		s1, s2 := 0.4*r.Float(), 0.4*r.Float()
		poly = []Pt{at(s1, 0), at(1, 0.3*r.Float()), at(1-s2, 1), at(0, 1-0.3*r.Float())}
	case 5: // triangle on an east-west base
		note += "+tri"
		if r.Bool() {
			poly = []Pt{at(0, 0), at(1, 0), at(r.Float(), 1)}
		} else {
			poly = []Pt{at(0, 1), at(r.Float(), 0), at(1, 1)}
		}
	case 6: // L or U, rectilinear (concave)
		if r.Bool() {
			note += "+L"
			a, b := 0.2+0.6*r.Float(), 0.2+0.6*r.Float()
			poly = []Pt{at(0, 0), at(1, 0), at(1, b), at(a, b), at(a, 1), at(0, 1)}
		} else {
			note += "+U"
			a, b, c := 0.15+0.2*r.Float(), 0.65+0.2*r.Float(), 0.2+0.6*r.Float()
			poly = []Pt{at(0, 0), at(1, 0), at(1, 1), at(b, 1), at(b, c), at(a, c), at(a, 1), at(0, 1)}
		}
	default: // comb: teeth pointing north (concave, 8 or 12 vertices)
		note += "+comb"
		teeth := r.Range(2, 3)
		poly = []Pt{at(0, 0), at(1, 0)}
		nseg := 2*teeth - 1
		d := 0.2 + 0.6*r.Float()
		for i := nseg; i >= 1; i-- {
			xr, xl := float64(i)/float64(nseg), float64(i-1)/float64(nseg)
			if i%2 == 1 { // a tooth
				poly = append(poly, at(xr, 1), at(xl, 1))
			} else { // a gap
				poly = append(poly, at(xr, d), at(xl, d))
			}
		}
		// consecutive duplicates (tooth/gap share an x) are distinct points: (x,1) then (x,d)
	}
	if r.Bool() { // the other orientation
		for i, j := 0, len(poly)-1; i < j; i, j = i+1, j-1 {
			poly[i], poly[j] = poly[j], poly[i]
		}
	}
	if k := r.Intn(len(poly)); k > 0 { // start anywhere on the ring
		poly = append(append([]Pt{}, poly[k:]...), poly[:k]...)
	}
	return
}

// planar crossing parity in float64: used ONLY to place probe points (inside / outside on
// purpose); what the verdict for a point is, is computed in Coq from the exact inputs.
func roughInside(poly []Pt, px, py float64) bool {
	in := false
	for i := range poly {
		a, b := poly[i], poly[(i+1)%len(poly)]
		if (a.lat() > py) != (b.lat() > py) && px < (b.lon()-a.lon())*(py-a.lat())/(b.lat()-a.lat())+a.lon() {
			in = !in
		}
	}
	return in
}

func polyProbe(r *vrand.R, poly []Pt) func() Pt {
	x0, x1, y0, y1 := math.Inf(1), math.Inf(-1), math.Inf(1), math.Inf(-1)
	for _, v := range poly {
		x0, x1 = math.Min(x0, v.lon()), math.Max(x1, v.lon())
		y0, y1 = math.Min(y0, v.lat()), math.Max(y1, v.lat())
	}
	w, h := x1-x0, y1-y0
	inBox := func(grow float64) (float64, float64) {
		return x0 + w*(0.5+(0.5+grow)*(2*r.Float()-1)), y0 + h*(0.5+(0.5+grow)*(2*r.Float()-1))
	}
	return func() Pt {
		switch r.Intn(10) {
		case 0:
			return mkPt(edgeLon(r), edgeLat(r))
		case 1: // near a vertex (inside / outside the 1e-6 vertex box, beyond the margin)
			v := vrand.Pick(r, poly)
			d := vrand.Pick(r, []float64{0, 5e-7, 2e-6, 1e-5, 1e-3})
			return mkPt(v.lon()+d*(2*r.Float()-1), v.lat()+d*(2*r.Float()-1))
		case 2, 3: // beside an edge: a point of the edge moved perpendicularly by +-d
			i := r.Intn(len(poly))
			a, b := poly[i], poly[(i+1)%len(poly)]
			t := r.Float()
			if r.Chance(1, 3) {
				t = 0.5 // the middle of the edge: farthest from the great circle through its ends
			}
			ex, ey := b.lon()-a.lon(), b.lat()-a.lat()
			l := math.Hypot(ex, ey)
			if l == 0 {
				return a
			}
			d := vrand.Pick(r, []float64{0, 1e-6, 5e-6, 1e-4, 1e-2, 0.02 * h, 0.1 * h, 0.3 * h, 0.05 * w})
			if r.Bool() {
				d = -d
			}
			return mkPt(a.lon()+t*ex-d*ey/l, a.lat()+t*ey+d*ex/l)
		case 4, 5, 6: // somewhere inside (rejection sampling in the bounding box)
			for i := 0; i < 40; i++ {
				x, y := inBox(0)
				if roughInside(poly, x, y) {
					return mkPt(x, y)
				}
			}
			x, y := inBox(0)
			return mkPt(x, y)
		case 7: // outside but within the bounding box, if there is such a place
			for i := 0; i < 40; i++ {
				x, y := inBox(0)
				if !roughInside(poly, x, y) {
					return mkPt(x, y)
				}
			}
			x, y := inBox(0.15)
			return mkPt(x, y)
		default: // around the bounding box
			x, y := inBox(0.15)
			return mkPt(x, y)
		}
	}
}

// ---------------------------------------------------------------- trusted geometry (input classification)

func rad(d float64) float64 { return d * math.Pi / 180 }

// central angle between two points (strict haversine)
func centralAngle(a, b Pt) float64 {
	p1, p2 := rad(a.lat()), rad(b.lat())
	dl := rad(a.lon() - b.lon())
	s1, s2 := math.Sin((p1-p2)/2), math.Sin(dl/2)
	h := s1*s1 + math.Cos(p1)*math.Cos(p2)*s2*s2
	return 2 * math.Asin(math.Min(1, math.Sqrt(h)))
}

// point at angular distance d from c along bearing brg (sphere)
func destination(c Pt, brg, d float64) Pt {
	p1, l1 := rad(c.lat()), rad(c.lon())
	sp := math.Sin(p1)*math.Cos(d) + math.Cos(p1)*math.Sin(d)*math.Cos(brg)
	p2 := math.Asin(math.Max(-1, math.Min(1, sp)))
	l2 := l1 + math.Atan2(math.Sin(brg)*math.Sin(d)*math.Cos(p1), math.Cos(d)-math.Sin(p1)*math.Sin(p2))
	return mkPt(wrapLon(l2*180/math.Pi), p2*180/math.Pi)
}

// distance interval [lo,hi] in metres over every earth radius between polar and equatorial
func distInterval(c, p Pt) (lo, hi float64) {
	th := centralAngle(c, p)
	return th*rPolar - distAbsM, th*rEquatorial + distAbsM
}

// 0 clearly inside, 1 clearly outside, 2 near the boundary
func classCircle(c, p Pt, radius float64) int {
	lo, hi := distInterval(c, p)
	if hi < radius {
		return 0
	}
	if lo > radius {
		return 1
	}
	return 2
}

func segDist(px, py, ax, ay, bx, by float64) float64 {
	dx, dy := bx-ax, by-ay
	l2 := dx*dx + dy*dy
	t := 0.0
	if l2 > 0 {
		t = math.Max(0, math.Min(1, ((px-ax)*dx+(py-ay)*dy)/l2))
	}
	return math.Hypot(px-(ax+t*dx), py-(ay+t*dy))
}

// planar (lon/lat) point-in-polygon by crossing number, with a margin band around the boundary.
// NOT an oracle any more: used only for the known-findings label of a scene (sceneClass); the
// polygon verdicts are computed in Coq (Geo/Polygon.v, Corr.check_poly) from the exact inputs.
func classPolygon(poly []Pt, p Pt) int {
	px, py := p.lon(), p.lat()
	inside := false
	minD := math.Inf(1)
	for i := range poly {
		a, b := poly[i], poly[(i+1)%len(poly)]
		ax, ay, bx, by := a.lon(), a.lat(), b.lon(), b.lat()
		if (ay > py) != (by > py) && px < (bx-ax)*(py-ay)/(by-ay)+ax {
			inside = !inside
		}
		minD = math.Min(minD, segDist(px, py, ax, ay, bx, by))
	}
	if minD <= polyMargin {
		return 2
	}
	if inside {
		return 0
	}
	return 1
}

// ---------------------------------------------------------------- running the implementation

func newIndex(engine string) (bleve.Index, error) {
	m := bleve.NewIndexMapping()
	dm := bleve.NewDocumentMapping()
	dm.AddFieldMappingsAt("loc", bleve.NewGeoPointFieldMapping())
	m.DefaultMapping = dm
	switch engine {
	case "upsidedown":
		return bleve.NewUsing("", m, upsidedown.Name, gtreap.Name, nil)
	case "s2":
		return bleve.NewUsing("", m, scorch.Name, scorch.Name, map[string]interface{}{"spatialPlugin": "s2"})
	}
	return bleve.NewUsing("", m, scorch.Name, scorch.Name, nil)
}

func engineTerm(e string) cf.T {
	switch e {
	case "upsidedown":
		return "EUpsidedown"
	case "s2":
		return "EScorchS2"
	}
	return "EScorch"
}

func fillIndex(idx bleve.Index, docs [][]Pt) error {
	b := idx.NewBatch()
	for i, d := range docs {
		var arr []interface{}
		for _, p := range d {
			arr = append(arr, map[string]interface{}{"lon": p.lon(), "lat": p.lat()})
		}
		doc := map[string]interface{}{"k": "x"}
		if len(arr) == 1 {
			doc["loc"] = arr[0]
		} else if len(arr) > 1 {
			doc["loc"] = arr
		}
		if err := b.Index(fmt.Sprintf("d%03d", i), doc); err != nil {
			return err
		}
		if i%3 == 2 {
			if err := idx.Batch(b); err != nil {
				return err
			}
			b = idx.NewBatch()
		}
	}
	return idx.Batch(b)
}

func direct(kind, detail string) vh.Result {
	return vh.Result{Direct: &vh.Direct{Kind: kind, Detail: detail}}
}

type fieldQuery interface {
	query.Query
	SetField(string)
}

func runQuery(in In, q query.Query, sortBy search.SortOrder) (order []int, res vh.Result, ok bool) {
	idx, err := newIndex(in.Engine)
	if err != nil {
		return nil, direct("error", err.Error()), false
	}
	defer idx.Close()
	if err := fillIndex(idx, in.Docs); err != nil {
		return nil, direct("error", "indexing: "+err.Error()), false
	}
	if fq, isF := q.(fieldQuery); isF {
		fq.SetField("loc")
	}
	req := bleve.NewSearchRequestOptions(q, len(in.Docs)+5, 0, false)
	if sortBy != nil {
		req.SortByCustom(sortBy)
	} else {
		req.SortBy([]string{"_id"})
	}
	var sr *bleve.SearchResult
	var serr error
	if d := vh.Guard(60*time.Second, "Search("+in.Kind+")", func() { sr, serr = idx.Search(req) }); d != nil {
		return nil, vh.Result{Direct: d}, false
	}
	if serr != nil {
		return nil, direct("error", "search: "+serr.Error()), false
	}
	for _, h := range sr.Hits {
		var i int
		fmt.Sscanf(h.ID, "d%d", &i)
		order = append(order, i)
	}
	return order, vh.Result{}, true
}

func hitVector(order []int, n int) []bool {
	hits := make([]bool, n)
	for _, i := range order {
		if i >= 0 && i < n {
			hits[i] = true
		}
	}
	return hits
}

func distinctPts(d []Pt) int {
	m := map[Pt]bool{}
	for _, p := range d {
		m[p] = true
	}
	return len(m)
}

// Signature class of a scene (a label for known_findings.json, not a verdict): every document
// on which the implementation's answer looks wrong under a rough any-value reading is a
// multi-valued document with some value inside and some outside.  rough: 0 in, 1 out, 2 unknown.
func sceneClass(docs [][]Pt, hits []bool, rough func(Pt) int) string {
	suspicious, onlyMV := 0, true
	for i, d := range docs {
		anyIn, allOut, anyNotIn := false, true, false
		for _, p := range d {
			switch rough(p) {
			case 0:
				anyIn, allOut = true, false
			case 1:
				anyNotIn = true
			default:
				allOut, anyNotIn = false, true
			}
		}
		bad := (anyIn && !hits[i]) || (allOut && hits[i])
		if bad {
			suspicious++
			if !(distinctPts(d) >= 2 && anyIn && anyNotIn && !hits[i]) {
				onlyMV = false
			}
		}
	}
	if suspicious > 0 && onlyMV {
		return classMV
	}
	return ""
}

func sceneStats(docs [][]Pt, hits []bool) (nontrivial bool, hist []string) {
	any, all, mv := false, true, false
	for i, d := range docs {
		any = any || hits[i]
		all = all && hits[i]
		if distinctPts(d) >= 2 {
			mv = true
		}
	}
	if mv {
		hist = append(hist, "scenes-with-multivalued-docs")
	}
	return (any && !all) || mv, hist
}

func ptTerm(p Pt) cf.T {
	return cf.App("Build_pt", zc(p.Lon), zc(p.Lat), zc(geo.MortonHash(p.lon(), p.lat())))
}

func exec(in In) vh.Result {
	switch in.Kind {
	case "il":
		return vh.Result{Term: cf.App("CInterleave", zc(in.X), zc(in.Y), zc(numeric.Interleave(in.X, in.Y))),
			Nontrivial: in.X != 0 && in.Y != 0, Hist: []string{"il"}}
	case "dl":
		return vh.Result{Term: cf.App("CDeinterleave", zc(in.X), zc(numeric.Deinterleave(in.X))),
			Nontrivial: in.X != 0, Hist: []string{"dl"}}
	case "hash":
		h := geo.MortonHash(in.P.lon(), in.P.lat())
		return vh.Result{Term: cf.App("CHash", zc(in.P.Lon), zc(in.P.Lat), zc(h)), Nontrivial: h != 0, Hist: []string{"hash"}}
	case "unhash":
		return vh.Result{Term: cf.App("CUnhash", zc(in.X), zc(fb(geo.MortonUnhashLon(in.X))), zc(fb(geo.MortonUnhashLat(in.X)))),
			Nontrivial: in.X != 0, Hist: []string{"unhash"}}
	case "range":
		var on, not [][]byte
		var err error
		if d := vh.Guard(60*time.Second, "ComputeGeoRange", func() {
			on, not, err = searcher.ComputeGeoRange(context.TODO(), 0, searcher.GeoBitsShift1Minus1,
				bf(in.Box[0]), bf(in.Box[1]), bf(in.Box[2]), bf(in.Box[3]), in.CheckB, nil, "loc")
		}); d != nil {
			return vh.Result{Direct: d}
		}
		if err != nil {
			return direct("error", err.Error())
		}
		if len(on)+len(not) > maxRangeTerms {
			return vh.Result{Skip: true, Hist: []string{"range:too-many-terms"}}
		}
		return vh.Result{Term: cf.App("CRange", zc(in.Box[0]), zc(in.Box[1]), zc(in.Box[2]), zc(in.Box[3]), cf.Bool(in.CheckB),
			cf.ListOf(on, termZ), cf.ListOf(not, termZ)),
			Nontrivial: len(on) > 0 && len(not) > 0, Hist: []string{"range", fmt.Sprintf("range:terms<=%d", bucket(len(on)+len(not)))}}
	case "box":
		tlLon, tlLat, brLon, brLat := bf(in.Box[0]), bf(in.Box[1]), bf(in.Box[2]), bf(in.Box[3])
		q := bleve.NewGeoBoundingBoxQuery(tlLon, tlLat, brLon, brLat)
		order, res, ok := runQuery(in, q, nil)
		if !ok {
			return res
		}
		hits := hitVector(order, len(in.Docs))
		// signed inside-margin of p in one rectangle (positive inside), for the label only
		margin := func(p Pt, minLon, maxLon float64) float64 {
			side := func(d float64, atBound bool) float64 {
				if atBound && d >= 0 {
					return math.Inf(1) // no valid point lies beyond a coordinate bound
				}
				return d
			}
			// latitude distances doubled: the latitude grid step is half the longitude step
			return math.Min(math.Min(side(p.lon()-minLon, minLon == -180), side(maxLon-p.lon(), maxLon == 180)),
				2*math.Min(side(p.lat()-brLat, brLat == -90), side(tlLat-p.lat(), tlLat == 90)))
		}
		rough := func(p Pt) int {
			m := margin(p, tlLon, brLon)
			if brLon < tlLon {
				m = math.Max(margin(p, -180, brLon), margin(p, tlLon, 180))
			}
			if m > 8.5e-8 {
				return 0
			}
			if m < -2.2e-6 {
				return 1
			}
			return 2
		}
		nt, hist := sceneStats(in.Docs, hits)
		hist = append(hist, "box:"+in.Engine)
		if brLon < tlLon {
			hist = append(hist, "box:dateline")
		}
		cls := sceneClass(in.Docs, hits, rough)
		if cls != "" {
			hist = append(hist, "first-only:box:"+in.Engine)
		}
		return vh.Result{Term: cf.App("CBox", engineTerm(in.Engine), zc(in.Box[0]), zc(in.Box[1]), zc(in.Box[2]), zc(in.Box[3]),
			cf.ListOf(in.Docs, func(d []Pt) cf.T { return cf.ListOf(d, ptTerm) }), cf.ListOf(hits, cf.Bool)),
			Nontrivial: nt, Class: cls, Hist: hist}
	case "poly":
		var pts []geo.Point
		for _, p := range in.Poly {
			pts = append(pts, geo.Point{Lon: p.lon(), Lat: p.lat()})
		}
		order, res, ok := runQuery(in, query.NewGeoBoundingPolygonQuery(pts), nil)
		if !ok {
			return res
		}
		hits := hitVector(order, len(in.Docs))
		nt, hist := sceneStats(in.Docs, hits)
		hist = append(hist, "poly:"+in.Engine, fmt.Sprintf("poly:vertices=%d", len(in.Poly)))
		for _, n := range strings.Split(in.Note, "+") {
			if n != "" {
				hist = append(hist, "poly:"+n)
			}
		}
		// label only (known_findings.json signature); the verdicts are computed in Coq
		cls := sceneClass(in.Docs, hits, func(p Pt) int { return classPolygon(in.Poly, p) })
		if cls != "" {
			hist = append(hist, "first-only:poly:"+in.Engine)
		}
		return vh.Result{Term: cf.App("CPoly", engineTerm(in.Engine),
			cf.ListOf(in.Poly, func(p Pt) cf.T { return cf.Pair(zc(p.Lon), zc(p.Lat)) }),
			cf.ListOf(in.Docs, func(d []Pt) cf.T { return cf.ListOf(d, ptTerm) }), cf.ListOf(hits, cf.Bool)),
			Nontrivial: nt, Class: cls, Hist: hist}
	case "dist":
		radius := bf(in.Radius)
		q := bleve.NewGeoDistanceQuery(in.P.lon(), in.P.lat(), strconv.FormatFloat(radius, 'g', -1, 64)+"m")
		order, res, ok := runQuery(in, q, nil)
		classify := func(p Pt) int { return classCircle(*in.P, p, radius) }
		kind := cf.T("KDistance")
		if !ok {
			return res
		}
		hits := hitVector(order, len(in.Docs))
		nt, hist := sceneStats(in.Docs, hits)
		hist = append(hist, in.Kind+":"+in.Engine)
		if in.Note != "" {
			hist = append(hist, in.Kind+":"+in.Note)
		}
		cls := sceneClass(in.Docs, hits, classify)
		if cls != "" {
			hist = append(hist, "first-only:"+in.Kind+":"+in.Engine)
		}
		return vh.Result{Term: cf.App("CShape", engineTerm(in.Engine), kind,
			cf.ListOf(in.Docs, func(d []Pt) cf.T {
				return cf.ListOf(d, func(p Pt) cf.T {
					return cf.Pair(zc(geo.MortonHash(p.lon(), p.lat())), []cf.T{"PIn", "POut", "PNear"}[classify(p)])
				})
			}), cf.ListOf(hits, cf.Bool)),
			Nontrivial: nt, Class: cls, Hist: hist}
	case "sort":
		so, err := search.ParseSearchSortObj(map[string]interface{}{
			"by": "geo_distance", "field": "loc", "unit": "m", "desc": in.Desc,
			"location": map[string]interface{}{"lon": in.P.lon(), "lat": in.P.lat()},
		})
		if err != nil {
			return direct("error", "sort: "+err.Error())
		}
		order, res, ok := runQuery(in, bleve.NewMatchAllQuery(), search.SortOrder{so})
		if !ok {
			return res
		}
		var lo, hi []int64
		for _, d := range in.Docs {
			l, h := distInterval(*in.P, d[0])
			lo = append(lo, int64(math.Floor(l*1e6)))
			hi = append(hi, int64(math.Ceil(h*1e6)))
		}
		return vh.Result{Term: cf.App("CSort", cf.Bool(in.Desc), cf.ListOf(lo, zi), cf.ListOf(hi, zi), cf.ListOf(order, func(i int) cf.T { return zi(int64(i)) })),
			Nontrivial: !sort.IntsAreSorted(order), Hist: []string{"sort:" + in.Engine}}
	}
	return vh.Result{Skip: true}
}

func bucket(n int) int {
	b := 1
	for b < n {
		b *= 4
	}
	return b
}

func main() {
	vh.Main(vh.Config{
		Property:  "C18",
		Imports:   []string{"Common.Bytes", "Numeric.Model", "Geo.Model", "Geo.Corr"},
		CaseType:  "Corr.case",
		CheckFn:   "Corr.check",
		ExplainFn: "Corr.explain",
		Rule: "function level: numeric.Interleave/Deinterleave, geo.MortonHash/MortonUnhashLon/Lat on grid-boundary values (0, 2^32-1, powers of two +-1, multiples of 2^18 and those minus one = corners of the recursion's cells), decoded grid points +-1 ulp, coordinate bounds, random; searcher.ComputeGeoRange term lists for boxes from 1e-7 to ~1 degree whose edges keep 0.2 grid steps away from cell corners (re-checked in Coq); " +
			"API level (every scene on a plain index - scorch or upsidedown - AND on scorch+s2 plugin; 4-9 documents with 0-3 points each, several batches): bounding boxes tiny to world-wide, date-line crossing, edges on the coordinate bounds or on decoded cell corners, probe points at edge +- {0,3e-8..1e-3} degrees, on level-14 cell boundaries, at +-180/+-90; distance queries 1 m .. 20000 km incl. pole-containing and date-line crossing circles, probe points at radius*(1 +- {0,1e-9..0.3}); simple polygons of 3-12 vertices, bounding box 1e-5 to 170 degrees wide, half of them centred at |lat| 40-80, star-shaped convex/concave, rectangles, bands with long east-west edges, skewed quadrilaterals, triangles, rectilinear L/U/comb shapes, either orientation, any starting vertex, some touching +-180/+-90, probes near vertices, beside edges at +-{0,1e-6..0.3*height}, inside and outside by rejection sampling (verdicts computed in Coq from the exact inputs); distance sort asc/desc on single-valued documents; " +
			"non-trivial: non-zero function inputs, range cases with both term lists non-empty, scenes whose hits are neither none nor all or that contain a multi-valued document, sorts that reorder",
		ShardSize: 60,
		// every number of a case is printed in constructor form; with Z_scope open Coq 8.16 takes ~50 ms
		// to interpret each deeply nested constructor term, with it closed ~1 ms
		Preamble: "Local Close Scope Z_scope.\n",
	}, gen, exec)
}
