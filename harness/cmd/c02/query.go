// Query AST of the C02 harness: one JSON-serialisable tree from which BOTH the bleve query
// (build) and the Coq term of Cursor/Sem.v's [query] (coq) are produced.  The two printers and
// the tokenisers below are the trusted glue of this check; no expected answer is computed here.
package main

import (
	"fmt"
	"math"
	"strings"
	"time"

	"github.com/blevesearch/bleve/v2"
	"github.com/blevesearch/bleve/v2/search/query"

	cf "verifharness/internal/coqfmt"
)

// RX is a regular expression over ASCII letters in the class Sem.v models.
type RX struct {
	Op  string `json:"op"`            // chr any set cat alt star plus opt
	C   string `json:"c,omitempty"`   // chr: the letter; set: the letters
	Neg bool   `json:"neg,omitempty"` // set: negated
	A   *RX    `json:"a,omitempty"`
	B   *RX    `json:"b,omitempty"`
}

func (r *RX) atomic() bool { return r.Op == "chr" || r.Op == "any" || r.Op == "set" }

// goSyntax prints the pattern in Go regexp syntax (also what vellum's regexp compiles).
func (r *RX) goSyntax() string {
	switch r.Op {
	case "chr":
		return r.C
	case "any":
		return "."
	case "set":
		if r.Neg {
			return "[^" + r.C + "]"
		}
		return "[" + r.C + "]"
	case "cat":
		p := func(x *RX) string {
			if x.Op == "alt" {
				return "(" + x.goSyntax() + ")"
			}
			return x.goSyntax()
		}
		return p(r.A) + p(r.B)
	case "alt":
		return r.A.goSyntax() + "|" + r.B.goSyntax()
	case "star", "plus", "opt":
		s := r.A.goSyntax()
		if !r.A.atomic() {
			s = "(" + s + ")"
		}
		return s + map[string]string{"star": "*", "plus": "+", "opt": "?"}[r.Op]
	}
	panic("bad regex op " + r.Op)
}

func (r *RX) coq() cf.T {
	switch r.Op {
	case "chr":
		return cf.App("RChr", cf.Int(int(r.C[0])))
	case "any":
		return "RAny"
	case "set":
		return cf.App("RSet", cf.Bool(r.Neg), cf.Str(r.C))
	case "cat":
		return cf.App("RCat", r.A.coq(), r.B.coq())
	case "alt":
		return cf.App("RAlt", r.A.coq(), r.B.coq())
	case "star":
		return cf.App("RStar", r.A.coq())
	case "plus":
		return cf.App("RPlus", r.A.coq())
	case "opt":
		return cf.App("ROpt", r.A.coq())
	}
	panic("bad regex op " + r.Op)
}

// lens returns the set of possible match lengths when it is finite and small, else nil.
func (r *RX) fixedLen() (int, bool) {
	switch r.Op {
	case "chr", "any", "set":
		return 1, true
	case "cat":
		a, ok1 := r.A.fixedLen()
		b, ok2 := r.B.fixedLen()
		return a + b, ok1 && ok2
	case "alt":
		a, ok1 := r.A.fixedLen()
		b, ok2 := r.B.fixedLen()
		return a, ok1 && ok2 && a == b
	}
	return 0, false
}

// QN is a query node.
type QN struct {
	K     string     `json:"k"`               // term match matchphrase phrase multiphrase prefix wildcard regexp fuzzy termrange numrange daterange bool docids all none conj disj boolean
	F     string     `json:"f,omitempty"`     // field
	T     string     `json:"t,omitempty"`     // term / prefix / wildcard pattern / match text
	Terms []string   `json:"terms,omitempty"` // phrase terms ("" = placeholder)
	Slots [][]string `json:"slots,omitempty"` // multi-phrase
	And   bool       `json:"and,omitempty"`
	Fz    int        `json:"fz,omitempty"`
	Auto  bool       `json:"auto,omitempty"`
	Pre   int        `json:"pre,omitempty"`
	Rx    *RX        `json:"rx,omitempty"`
	Lo    *string    `json:"lo,omitempty"` // term range ends
	Hi    *string    `json:"hi,omitempty"`
	NLo   *uint64    `json:"nlo,omitempty"` // numeric range ends (float64 bits)
	NHi   *uint64    `json:"nhi,omitempty"`
	DLo   *int64     `json:"dlo,omitempty"` // date range ends (unix ns)
	DHi   *int64     `json:"dhi,omitempty"`
	ILo   *bool      `json:"ilo,omitempty"`
	IHi   *bool      `json:"ihi,omitempty"`
	V     bool       `json:"v,omitempty"`   // bool field value
	IDs   []int      `json:"ids,omitempty"` // doc-id query: document numbers
	Kids  []*QN      `json:"kids,omitempty"`
	Min2  int        `json:"min2,omitempty"` // 2*min of a disjunction / of the should clause
	// boolean: HasX says whether AddX was called at all (possibly with an empty list)
	HasMust    bool  `json:"has_must,omitempty"`
	HasShould  bool  `json:"has_should,omitempty"`
	HasMustNot bool  `json:"has_must_not,omitempty"`
	Must       []*QN `json:"must,omitempty"`
	Should     []*QN `json:"should,omitempty"`
	MustNot    []*QN `json:"must_not,omitempty"`
	Filter     *QN   `json:"filter,omitempty"`
}

func docID(n int) string { return fmt.Sprintf("d%02d", n) }

// the analysers, applied by the harness itself (Sem.v does not model analysis)
func analyse(field, text string) []string {
	if field == "k" || field == "w" {
		if text == "" {
			return nil
		}
		return []string{text}
	}
	var out []string
	for _, w := range strings.Fields(text) {
		out = append(out, strings.ToLower(w))
	}
	return out
}

func (q *QN) build() query.Query {
	list := func(v []*QN) []query.Query {
		ks := []query.Query{}
		for _, k := range v {
			ks = append(ks, k.build())
		}
		return ks
	}
	switch q.K {
	case "term":
		t := bleve.NewTermQuery(q.T)
		t.SetField(q.F)
		return t
	case "match":
		m := bleve.NewMatchQuery(q.T)
		m.SetField(q.F)
		if q.And {
			m.SetOperator(query.MatchQueryOperatorAnd)
		}
		if q.Auto {
			m.SetAutoFuzziness(true)
		} else {
			m.SetFuzziness(q.Fz)
		}
		m.SetPrefix(q.Pre)
		return m
	case "matchphrase":
		m := bleve.NewMatchPhraseQuery(q.T)
		m.SetField(q.F)
		if q.Auto {
			m.SetAutoFuzziness(true)
		} else {
			m.SetFuzziness(q.Fz)
		}
		return m
	case "phrase":
		p := bleve.NewPhraseQuery(q.Terms, q.F)
		if q.Auto {
			p.SetAutoFuzziness(true)
		} else {
			p.SetFuzziness(q.Fz)
		}
		return p
	case "multiphrase":
		p := query.NewMultiPhraseQuery(q.Slots, q.F)
		if q.Auto {
			p.SetAutoFuzziness(true)
		} else {
			p.SetFuzziness(q.Fz)
		}
		return p
	case "prefix":
		p := bleve.NewPrefixQuery(q.T)
		p.SetField(q.F)
		return p
	case "wildcard":
		w := bleve.NewWildcardQuery(q.T)
		w.SetField(q.F)
		return w
	case "regexp":
		r := bleve.NewRegexpQuery(q.Rx.goSyntax())
		r.SetField(q.F)
		return r
	case "fuzzy":
		f := bleve.NewFuzzyQuery(q.T)
		f.SetField(q.F)
		if q.Auto {
			f.SetAutoFuzziness(true)
		} else {
			f.SetFuzziness(q.Fz)
		}
		f.SetPrefix(q.Pre)
		return f
	case "termrange":
		lo, hi := "", ""
		if q.Lo != nil {
			lo = *q.Lo
		}
		if q.Hi != nil {
			hi = *q.Hi
		}
		t := bleve.NewTermRangeInclusiveQuery(lo, hi, q.ILo, q.IHi)
		t.SetField(q.F)
		return t
	case "numrange":
		var lo, hi *float64
		if q.NLo != nil {
			v := math.Float64frombits(*q.NLo)
			lo = &v
		}
		if q.NHi != nil {
			v := math.Float64frombits(*q.NHi)
			hi = &v
		}
		n := bleve.NewNumericRangeInclusiveQuery(lo, hi, q.ILo, q.IHi)
		n.SetField(q.F)
		return n
	case "daterange":
		var st, en time.Time
		if q.DLo != nil {
			st = time.Unix(0, *q.DLo).UTC()
		}
		if q.DHi != nil {
			en = time.Unix(0, *q.DHi).UTC()
		}
		d := bleve.NewDateRangeInclusiveQuery(st, en, q.ILo, q.IHi)
		d.SetField(q.F)
		return d
	case "bool":
		b := bleve.NewBoolFieldQuery(q.V)
		b.SetField(q.F)
		return b
	case "docids":
		ids := []string{}
		for _, n := range q.IDs {
			ids = append(ids, docID(n))
		}
		return bleve.NewDocIDQuery(ids)
	case "all":
		return bleve.NewMatchAllQuery()
	case "none":
		return bleve.NewMatchNoneQuery()
	case "conj":
		return bleve.NewConjunctionQuery(list(q.Kids)...)
	case "disj":
		d := bleve.NewDisjunctionQuery(list(q.Kids)...)
		d.SetMin(float64(q.Min2) / 2)
		return d
	case "boolean":
		b := bleve.NewBooleanQuery()
		if q.HasMust {
			b.AddMust(list(q.Must)...)
		}
		if q.HasShould {
			b.AddShould(list(q.Should)...)
			b.SetMinShould(float64(q.Min2) / 2)
		}
		if q.HasMustNot {
			b.AddMustNot(list(q.MustNot)...)
		}
		if q.Filter != nil {
			b.AddFilter(q.Filter.build())
		}
		return b
	}
	panic("bad query kind " + q.K)
}

func optBool(p *bool) cf.T { return cf.Opt(p, func(b bool) cf.T { return cf.Bool(b) }) }
func optStr(p *string) cf.T {
	if p == nil || *p == "" { // TermRangeQuery treats "" as "no bound"
		return cf.None
	}
	return cf.Some(cf.Str(*p))
}
func fuzz(q *QN) cf.T {
	if q.Auto {
		return cf.None
	}
	return cf.Some(cf.Int(q.Fz))
}

func (q *QN) coq() cf.T {
	list := func(v []*QN) cf.T { return cf.ListOf(v, func(k *QN) cf.T { return k.coq() }) }
	f := cf.Str(q.F)
	switch q.K {
	case "term":
		return cf.App("QTerm", f, cf.Str(q.T))
	case "match":
		return cf.App("QMatch", f, cf.ListOf(analyse(q.F, q.T), cf.Str), cf.Bool(q.And), fuzz(q), cf.Int(q.Pre))
	case "matchphrase":
		slots := [][]string{}
		for _, w := range analyse(q.F, q.T) {
			slots = append(slots, []string{w})
		}
		return cf.App("QPhrase", f, cf.ListOf(slots, func(s []string) cf.T { return cf.ListOf(s, cf.Str) }), fuzz(q))
	case "phrase":
		slots := [][]string{}
		for _, w := range q.Terms {
			slots = append(slots, []string{w})
		}
		return cf.App("QPhrase", f, cf.ListOf(slots, func(s []string) cf.T { return cf.ListOf(s, cf.Str) }), fuzz(q))
	case "multiphrase":
		return cf.App("QPhrase", f, cf.ListOf(q.Slots, func(s []string) cf.T { return cf.ListOf(s, cf.Str) }), fuzz(q))
	case "prefix":
		return cf.App("QPrefix", f, cf.Str(q.T))
	case "wildcard":
		var ws []cf.T
		for _, c := range []byte(q.T) {
			switch c {
			case '*':
				ws = append(ws, "WMany")
			case '?':
				ws = append(ws, "WOne")
			default:
				ws = append(ws, cf.App("WChr", cf.Int(int(c))))
			}
		}
		return cf.App("QWildcard", f, cf.List(ws))
	case "regexp":
		return cf.App("QRegexp", f, q.Rx.coq())
	case "fuzzy":
		return cf.App("QFuzzy", f, cf.Str(q.T), cf.Int(q.Pre), fuzz(q))
	case "termrange":
		return cf.App("QTermRange", f, optStr(q.Lo), optStr(q.Hi), optBool(q.ILo), optBool(q.IHi))
	case "numrange":
		return cf.App("QNumRange", f, cf.Opt(q.NLo, cf.U), cf.Opt(q.NHi, cf.U), optBool(q.ILo), optBool(q.IHi))
	case "daterange":
		return cf.App("QDateRange", f, cf.Opt(q.DLo, cf.Z), cf.Opt(q.DHi, cf.Z), optBool(q.ILo), optBool(q.IHi))
	case "bool":
		return cf.App("QBoolField", f, cf.Bool(q.V))
	case "docids":
		return cf.App("QDocIds", cf.ListOf(q.IDs, cf.Int))
	case "all":
		return "QAll"
	case "none":
		return "QNone"
	case "conj":
		return cf.App("QConj", list(q.Kids))
	case "disj":
		return cf.App("QDisj", cf.Int(q.Min2), list(q.Kids))
	case "boolean":
		flt := cf.None
		if q.Filter != nil {
			flt = cf.Some(q.Filter.coq())
		}
		min2 := 0
		if q.HasShould {
			min2 = q.Min2
		}
		return cf.App("QBool", list(q.Must), list(q.Should), cf.Int(min2), list(q.MustNot), flt)
	}
	panic("bad query kind " + q.K)
}

func (q *QN) children() []*QN {
	var out []*QN
	out = append(out, q.Kids...)
	out = append(out, q.Must...)
	out = append(out, q.Should...)
	out = append(out, q.MustNot...)
	if q.Filter != nil {
		out = append(out, q.Filter)
	}
	return out
}

func (q *QN) depth() int {
	d := 0
	for _, k := range q.children() {
		if x := k.depth() + 1; x > d {
			d = x
		}
	}
	return d
}

func (q *QN) size() int {
	n := 1
	for _, k := range q.children() {
		n += k.size()
	}
	return n
}

func (q *QN) any(p func(*QN) bool) bool {
	if p(q) {
		return true
	}
	for _, k := range q.children() {
		if k.any(p) {
			return true
		}
	}
	return false
}

// minShouldNode: a boolean node with a non-empty must clause, a should clause whose children
// are all plain term queries, and floor(min_should) >= 1 (signature class
// "minshould-score-none").
func minShouldNode(q *QN) bool {
	if q.K != "boolean" || len(q.Must) == 0 || len(q.Should) == 0 || !q.HasShould || q.Min2 < 2 {
		return false
	}
	for _, s := range q.Should {
		if s.K != "term" {
			return false
		}
	}
	return true
}

// unsafeRegexp: a regexp whose matches do not all have the same length (signature class
// "regexp-leftmost-first" on upsidedown).
func unsafeRegexp(q *QN) bool {
	if q.K != "regexp" {
		return false
	}
	_, ok := q.Rx.fixedLen()
	return !ok
}
