package main

import (
	"fmt"
	"testing"
)

func TestEnumCount(t *testing.T) {
	qs := enumerate()
	v := 0
	for _, q := range qs {
		if validate(q) {
			v++
		}
	}
	fmt.Println("enumerated", len(qs), "valid", v)
}
