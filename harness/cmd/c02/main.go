// C02 correspondence harness: "a search returns exactly the live documents that satisfy the
// query".  One case = one indexing history (batches with updates and deletes) on one engine
// configuration + one query tree, searched under the 8 combinations of
// (score default/"none", IncludeLocations, Explain) with Size >= corpus.  The Coq side
// (Cursor/SemCorr.v) evaluates the spec Sem.sem on the live corpus and compares.
package main

import (
	"context"
	"fmt"
	"math"
	"os"
	"sort"
	"strconv"
	"strings"
	"time"

	"github.com/blevesearch/bleve/v2"
	"github.com/blevesearch/bleve/v2/analysis/analyzer/custom"
	"github.com/blevesearch/bleve/v2/analysis/analyzer/keyword"
	"github.com/blevesearch/bleve/v2/analysis/token/lowercase"
	"github.com/blevesearch/bleve/v2/analysis/tokenizer/whitespace"
	"github.com/blevesearch/bleve/v2/index/scorch"
	"github.com/blevesearch/bleve/v2/mapping"
	"github.com/blevesearch/bleve/v2/search/query"
	"github.com/blevesearch/bleve/v2/search/searcher"

	cf "verifharness/internal/coqfmt"
	"verifharness/internal/vh"
	"verifharness/internal/vrand"
)

// ---------------------------------------------------------------- inputs

// Doc is a document body.  K, W: keyword-analysed text fields (W is indexed without term
// vectors, which is what lets scorch use its "1-hit" postings encoding); T, U: whitespace+lowercase text
// fields (each element a space-separated text); N: numeric (float64 bits); D: datetime (unix
// ns); B: boolean.  XArr says whether the value is sent as an array (array positions [i]) or,
// for a single element, as a plain value (no array positions).
type Doc struct {
	K    []string `json:"k,omitempty"`
	KArr bool     `json:"k_arr,omitempty"`
	T    []string `json:"t,omitempty"`
	TArr bool     `json:"t_arr,omitempty"`
	U    []string `json:"u,omitempty"`
	UArr bool     `json:"u_arr,omitempty"`
	W    []string `json:"w,omitempty"` // keyword-analysed text field WITHOUT term vectors
	WArr bool     `json:"w_arr,omitempty"`
	N    []uint64 `json:"n,omitempty"`
	D    []int64  `json:"d,omitempty"`
	B    []bool   `json:"b,omitempty"`
}

type Op struct {
	Del bool `json:"del,omitempty"`
	ID  int  `json:"id"`
	Doc *Doc `json:"doc,omitempty"`
}

type In struct {
	Kind    string `json:"kind"`   // main | leaf | termtree | onehit | widedisj | mergeappend | minshould | regexp | prefix-empty | enum
	Engine  string `json:"engine"` // scorch-mem | scorch-disk | upsidedown
	Batches [][]Op `json:"batches"`
	// MergeAfter (scorch-disk only): force-merge the persisted segments into one after this many
	// batches (merged segments are where scorch uses its 1-hit postings encoding); 0 = never
	MergeAfter int `json:"merge_after,omitempty"`
	Q          *QN `json:"q"`
	// Cfg names a non-default scorch configuration (kvconfig of bleve.NewUsing), see scorchConfigs;
	// "" = defaults.  Ignored by upsidedown.
	Cfg string `json:"cfg,omitempty"`
	// Also / Reps: further queries searched on the SAME index, and the number of rounds.  One
	// round searches Q, Also[0], Also[1], ... one after the other, each under the 8 option
	// combinations; nothing is written between the searches.  Reps <= 1 and no Also: Q once.
	Also []*QN `json:"also,omitempty"`
	Reps int   `json:"reps,omitempty"`
	// Tags: what the generator aimed at (histogram buckets only, never read by exec's search part)
	Tags []string `json:"tags,omitempty"`
}

const baseNS = int64(1577836800) * 1_000_000_000 // 2020-01-01T00:00:00Z

var wordPool = []string{"a", "ab", "abc", "abd", "b", "ba", "bc", "c", "ca", "cab", "xab", "acb", "bca", "abcd"}

type world struct {
	r      *vrand.R
	vocab  []string
	nums   []float64
	nDocs  int
	engine string
	docs   []*Doc // every document body generated for the history
	uniq   bool   // give field w of every generated body a word no other body has
}

func (w *world) word() string { return vrand.Pick(w.r, w.vocab) }

// maybeCap returns the word with its first letter in upper case now and then (the
// whitespace+lowercase analyser folds it, the keyword analyser keeps it)
func (w *world) maybeCap(s string) string {
	if w.r.Chance(1, 6) {
		return strings.ToUpper(s[:1]) + s[1:]
	}
	return s
}

func (w *world) text(maxWords int) string {
	n := w.r.Range(1, maxWords)
	ws := make([]string, n)
	for i := range ws {
		ws[i] = w.maybeCap(w.word())
	}
	return strings.Join(ws, " ")
}

func (w *world) doc() *Doc {
	r := w.r
	d := &Doc{}
	if r.Chance(5, 6) {
		n := r.Range(1, 3)
		for i := 0; i < n; i++ {
			d.K = append(d.K, w.maybeCap(w.word()))
		}
		d.KArr = n > 1 || r.Bool()
	}
	if r.Chance(5, 6) {
		n := 1
		if r.Chance(1, 2) {
			n = r.Range(2, 3)
		}
		for i := 0; i < n; i++ {
			d.T = append(d.T, w.text(4))
		}
		d.TArr = n > 1 || r.Chance(1, 3)
	}
	if r.Chance(1, 2) {
		n := r.Range(1, 2)
		for i := 0; i < n; i++ {
			d.U = append(d.U, w.text(3))
		}
		d.UArr = n > 1 || r.Chance(1, 3)
	}
	if r.Chance(2, 3) {
		n := r.Range(1, 2)
		for i := 0; i < n; i++ {
			d.W = append(d.W, w.word())
		}
		d.WArr = n > 1 || r.Bool()
	}
	if w.uniq {
		u := "q" + string(rune('a'+len(w.docs)%26)) + string(rune('a'+len(w.docs)/26%26))
		d.W = append([]string{u}, d.W...)
		if len(d.W) > 2 {
			d.W = d.W[:2]
		}
		d.WArr = true
	}
	if r.Chance(2, 3) {
		for i := r.Range(1, 2); i > 0; i-- {
			d.N = append(d.N, math.Float64bits(vrand.Pick(r, w.nums)))
		}
	}
	if r.Chance(1, 2) {
		for i := r.Range(1, 2); i > 0; i-- {
			d.D = append(d.D, w.date())
		}
	}
	if r.Chance(1, 2) {
		for i := r.Range(1, 2); i > 0; i-- {
			d.B = append(d.B, r.Bool())
		}
	}
	w.docs = append(w.docs, d)
	return d
}

func (w *world) date() int64 {
	r := w.r
	switch r.Intn(3) {
	case 0:
		return baseNS + int64(r.Range(-3, 3))*1_000_000_000
	case 1:
		return baseNS + int64(r.Range(-3, 3))
	}
	return baseNS + int64(r.Range(-2, 2))*3600_000_000_000
}

// history: nDocs ids, indexed through random batches with updates and deletes
func (w *world) history() [][]Op {
	r := w.r
	var ops []Op
	for i := 0; i < w.nDocs; i++ {
		ops = append(ops, Op{ID: i, Doc: w.doc()})
	}
	vrand.Shuffle(r, ops)
	extra := w.nDocs/2 + r.Range(0, 3)
	for i := 0; i < extra; i++ {
		id := r.Intn(w.nDocs + 1) // nDocs itself is never indexed: deleting it is a no-op
		var op Op
		if r.Chance(1, 2) {
			op = Op{Del: true, ID: id}
		} else {
			op = Op{ID: id % w.nDocs, Doc: w.doc()}
		}
		// insert somewhere in the second half so that it usually hits an existing document
		at := len(ops)/2 + r.Intn(len(ops)-len(ops)/2+1)
		ops = append(ops, Op{})
		copy(ops[at+1:], ops[at:])
		ops[at] = op
	}
	var batches [][]Op
	var cur []Op
	seen := map[int]bool{}
	limit := r.Range(1, 6)
	for _, op := range ops {
		if seen[op.ID] || len(cur) >= limit {
			batches = append(batches, cur)
			cur, seen, limit = nil, map[int]bool{}, r.Range(1, 6)
		}
		cur = append(cur, op)
		seen[op.ID] = true
	}
	if len(cur) > 0 {
		batches = append(batches, cur)
	}
	return batches
}

// mergeAfter: for on-disk scorch, force a merge after some batch in two cases out of three
func (w *world) mergeAfter(batches [][]Op) int {
	if w.engine != "scorch-disk" || w.r.Chance(1, 3) {
		return 0
	}
	return w.r.Range(len(batches)/2, len(batches))
}

func newWorld(r *vrand.R, engine string, nDocs int) *world {
	w := &world{r: r, engine: engine, nDocs: nDocs}
	pool := append([]string{}, wordPool...)
	vrand.Shuffle(r, pool)
	w.vocab = pool[:r.Range(6, 10)]
	w.nums = []float64{-2, -1, -0.5, 0, 0.5, 1, 1.5, 2, 3}
	return w
}

// ---------------------------------------------------------------- query generation

func (w *world) textField() string { return vrand.Pick(w.r, []string{"k", "t", "t", "u", "w", "w"}) }

func (w *world) termFor(field string) string {
	s := w.word()
	if field == "k" {
		return w.maybeCap(s)
	}
	return s
}

// a term near the vocabulary (for fuzzy queries)
func (w *world) nearTerm() string {
	r := w.r
	s := []byte(w.word())
	switch r.Intn(5) {
	case 0:
		if len(s) > 1 {
			i := r.Intn(len(s) - 1)
			s[i], s[i+1] = s[i+1], s[i]
		}
	case 1:
		s = append(s, "abcx"[r.Intn(4)])
	case 2:
		if len(s) > 1 {
			i := r.Intn(len(s))
			s = append(s[:i], s[i+1:]...)
		}
	case 3:
		s[r.Intn(len(s))] = "abcx"[r.Intn(4)]
	}
	return string(s)
}

func (w *world) optFlag() *bool {
	switch w.r.Intn(3) {
	case 0:
		return nil
	case 1:
		t := true
		return &t
	}
	f := false
	return &f
}

func (w *world) fuzzOpts(q *QN, maxFz int) {
	r := w.r
	switch {
	case r.Chance(1, 8):
		q.Auto = true
	case r.Chance(1, 2):
		q.Fz = r.Range(1, maxFz)
	}
}

func (w *world) regex(d int) *RX {
	r := w.r
	if d == 0 || r.Chance(1, 3) {
		switch r.Intn(6) {
		case 0:
			return &RX{Op: "any"}
		case 1:
			set := []string{"ab", "bc", "abc", "ax", "c"}[r.Intn(5)]
			return &RX{Op: "set", C: set, Neg: r.Chance(1, 4)}
		}
		return &RX{Op: "chr", C: string("abcx"[r.Intn(4)])}
	}
	switch r.Intn(7) {
	case 0, 1, 2:
		return &RX{Op: "cat", A: w.regex(d - 1), B: w.regex(d - 1)}
	case 3:
		return &RX{Op: "alt", A: w.regex(d - 1), B: w.regex(d - 1)}
	case 4:
		return &RX{Op: "star", A: w.regex(d - 1)}
	case 5:
		return &RX{Op: "plus", A: w.regex(d - 1)}
	}
	return &RX{Op: "opt", A: w.regex(d - 1)}
}

var leafKinds = []string{"term", "match", "phrase", "matchphrase", "multiphrase", "prefix", "wildcard", "regexp",
	"fuzzy", "termrange", "numrange", "daterange", "bool", "docids", "all", "none"}

// weights of the leaf kinds in random trees
var leafWeights = []int{6, 3, 2, 2, 1, 2, 2, 2, 3, 2, 2, 1, 1, 2, 1, 1}

func (w *world) leaf() *QN {
	tot := 0
	for _, x := range leafWeights {
		tot += x
	}
	n := w.r.Intn(tot)
	for i, x := range leafWeights {
		if n < x {
			return w.leafOf(leafKinds[i])
		}
		n -= x
	}
	return w.leafOf("term")
}

// wordsOf: the words of one text value of some generated document of field f (f = t or u)
func (w *world) wordsOf(f string, minElems int) (elems [][]string) {
	for try := 0; try < 8 && len(w.docs) > 0; try++ {
		d := vrand.Pick(w.r, w.docs)
		vals := d.T
		if f == "u" {
			vals = d.U
		}
		if len(vals) < minElems {
			continue
		}
		for _, v := range vals {
			elems = append(elems, analyse(f, v))
		}
		return elems
	}
	return nil
}

// phraseWords: words for a phrase query — consecutive words of a document value (should
// match), words at consecutive positions of two DIFFERENT array elements (must not match
// through that document), or random words
func (w *world) phraseWords(f string) []string {
	r := w.r
	switch r.Intn(10) {
	case 0, 1, 2, 3, 4:
		if el := w.wordsOf(f, 1); el != nil {
			ws := vrand.Pick(r, el)
			if len(ws) > 0 {
				i := r.Intn(len(ws))
				j := i + r.Range(1, 3)
				if j > len(ws) {
					j = len(ws)
				}
				return append([]string{}, ws[i:j]...)
			}
		}
	case 5, 6, 7:
		if el := w.wordsOf(f, 2); el != nil {
			a, b := el[0], el[1]
			if r.Bool() {
				a, b = b, a
			}
			for p := 0; p < len(a) && p+1 < len(b); p++ {
				if r.Chance(1, 2) || p+2 >= len(b) {
					return []string{a[p], b[p+1]}
				}
			}
		}
	}
	n := r.Range(1, 3)
	ws := make([]string, n)
	for i := range ws {
		ws[i] = w.word()
	}
	return ws
}

func (w *world) rangeEnd() string {
	if w.r.Chance(3, 4) {
		return w.word()
	}
	return w.nearTerm()
}

func (w *world) leafOf(kind string) *QN {
	r := w.r
	f := w.textField()
	switch kind {
	case "term":
		if r.Chance(1, 15) {
			return &QN{K: "term", F: "zz", T: w.word()} // no such field
		}
		return &QN{K: "term", F: f, T: w.termFor(f)}
	case "match":
		q := &QN{K: "match", F: f, And: r.Bool()}
		if f == "k" || f == "w" {
			q.T = w.termFor(f)
		} else {
			q.T = w.text(3)
			if r.Chance(1, 12) {
				q.T = ""
			}
		}
		if r.Chance(1, 4) {
			w.fuzzOpts(q, 1)
			q.Pre = r.Range(0, 2)
		}
		return q
	case "phrase":
		f = vrand.Pick(r, []string{"t", "t", "u", "k"})
		q := &QN{K: "phrase", F: f}
		if f == "k" {
			q.Terms = []string{w.termFor(f)}
			if r.Chance(1, 3) {
				q.Terms = append(q.Terms, w.termFor(f))
			}
		} else {
			q.Terms = w.phraseWords(f)
		}
		if r.Chance(1, 6) { // a placeholder somewhere
			i := r.Intn(len(q.Terms) + 1)
			q.Terms = append(q.Terms[:i], append([]string{""}, q.Terms[i:]...)...)
		}
		if r.Chance(1, 5) {
			w.fuzzOpts(q, 1)
		}
		return q
	case "matchphrase":
		f = vrand.Pick(r, []string{"t", "t", "u"})
		ws := w.phraseWords(f)
		for i := range ws {
			ws[i] = w.maybeCap(ws[i])
		}
		q := &QN{K: "matchphrase", F: f, T: strings.Join(ws, " ")}
		if r.Chance(1, 6) {
			w.fuzzOpts(q, 1)
		}
		return q
	case "multiphrase":
		f = vrand.Pick(r, []string{"t", "t", "u"})
		q := &QN{K: "multiphrase", F: f}
		for _, x := range w.phraseWords(f) {
			slot := []string{x}
			switch r.Intn(6) {
			case 0:
				slot = []string{}
			case 1, 2:
				slot = append(slot, w.word())
			case 3:
				slot = []string{w.word(), w.word()}
			}
			q.Slots = append(q.Slots, slot)
		}
		if r.Chance(1, 6) {
			w.fuzzOpts(q, 1)
		}
		return q
	case "prefix":
		t := w.termFor(f)
		return &QN{K: "prefix", F: f, T: t[:r.Range(0, len(t))]}
	case "wildcard":
		if r.Chance(1, 2) {
			pats := []string{"a*", "*b", "a?", "?b*", "*", "a*c", "??", "*a*", "ab?", "?", "c*b", "x*", "a?c*"}
			return &QN{K: "wildcard", F: f, T: vrand.Pick(r, pats)}
		}
		t := []byte(w.word())
		switch r.Intn(4) {
		case 0:
			t[r.Intn(len(t))] = '?'
		case 1:
			t = append(t[:r.Intn(len(t)+1)], '*')
		case 2:
			i := r.Intn(len(t))
			t = append([]byte("*"), t[i:]...)
		default:
			i := r.Intn(len(t))
			t = append(append(append([]byte{}, t[:i]...), '*'), t[i:]...)
		}
		return &QN{K: "wildcard", F: f, T: string(t)}
	case "regexp":
		return &QN{K: "regexp", F: f, Rx: w.regex(r.Range(1, 3))}
	case "fuzzy":
		q := &QN{K: "fuzzy", F: f, T: w.nearTerm(), Pre: r.Range(0, 3)}
		if r.Chance(1, 2) {
			q.Pre = 0
		}
		switch {
		case r.Chance(1, 8):
			q.Auto = true
		default:
			q.Fz = r.Range(0, 2)
		}
		return q
	case "termrange":
		q := &QN{K: "termrange", F: f, ILo: w.optFlag(), IHi: w.optFlag()}
		lo, hi := w.rangeEnd(), w.rangeEnd()
		if r.Chance(3, 4) && lo > hi {
			lo, hi = hi, lo
		}
		switch r.Intn(5) {
		case 0:
			q.Lo = &lo
		case 1:
			q.Hi = &hi
		default:
			q.Lo, q.Hi = &lo, &hi
		}
		return q
	case "numrange":
		q := &QN{K: "numrange", F: "n", ILo: w.optFlag(), IHi: w.optFlag()}
		pt := func() *uint64 {
			v := vrand.Pick(r, w.nums)
			if r.Chance(1, 4) {
				v += 0.25
			}
			b := math.Float64bits(v)
			return &b
		}
		lo, hi := pt(), pt()
		if r.Chance(3, 4) && math.Float64frombits(*lo) > math.Float64frombits(*hi) {
			lo, hi = hi, lo
		}
		switch r.Intn(5) {
		case 0:
			q.NLo = lo
		case 1:
			q.NHi = hi
		default:
			q.NLo, q.NHi = lo, hi
		}
		return q
	case "daterange":
		q := &QN{K: "daterange", F: "d", ILo: w.optFlag(), IHi: w.optFlag()}
		lo, hi := w.date(), w.date()
		if r.Chance(3, 4) && lo > hi {
			lo, hi = hi, lo
		}
		switch r.Intn(5) {
		case 0:
			q.DLo = &lo
		case 1:
			q.DHi = &hi
		default:
			q.DLo, q.DHi = &lo, &hi
		}
		return q
	case "bool":
		return &QN{K: "bool", F: "b", V: r.Bool()}
	case "docids":
		q := &QN{K: "docids", IDs: []int{}}
		for i := r.Range(0, 4); i > 0; i-- {
			q.IDs = append(q.IDs, r.Intn(w.nDocs+2))
		}
		return q
	case "all":
		return &QN{K: "all"}
	case "none":
		return &QN{K: "none"}
	}
	panic("bad leaf kind " + kind)
}

// kids: a clause list; big lists (crossing searcher.DisjunctionHeapTakeover) hold leaves only
func (w *world) kids(d int, allowEmpty bool) []*QN {
	r := w.r
	n := r.Range(1, 3)
	switch {
	case allowEmpty && r.Chance(1, 10):
		n = 0
	case r.Chance(1, 14):
		n = searcher.DisjunctionHeapTakeover + r.Range(-1, 3)
	case r.Chance(1, 8):
		n = r.Range(4, 5)
	}
	out := []*QN{}
	for i := 0; i < n; i++ {
		switch {
		case i > 0 && r.Chance(1, 7):
			out = append(out, out[r.Intn(i)]) // duplicate child
		case n > 5:
			if r.Chance(3, 4) {
				f := w.textField()
				out = append(out, &QN{K: "term", F: f, T: w.termFor(f)})
			} else {
				out = append(out, w.leaf())
			}
		default:
			out = append(out, w.tree(d-1))
		}
	}
	return out
}

// negMin2: 2*min for a negative minimum: -0.5, -1, -2, a large negative one.  Validate() accepts
// them; the documented reading (and, since /repo 895ea25, BooleanSearcher) takes "at least min of
// the should clauses" with min <= 0 as "optional" (a disjunction still needs one matching clause)
var negMin2 = []int{-1, -2, -2, -4, -2000000}

func (w *world) min2(n int) int {
	if w.r.Chance(1, 5) {
		return vrand.Pick(w.r, negMin2)
	}
	switch w.r.Intn(8) {
	case 0, 1:
		return 0
	case 2, 3:
		return 2
	case 4:
		return 4
	case 5:
		return 2 * n
	case 6:
		return 1 + 2*w.r.Intn(3) // 0.5, 1.5, 2.5
	}
	return 2 * (n + 1) // rejected by Validate
}

func (w *world) tree(d int) *QN { return w.treeP(d, 3) }

// treeP: a random tree of depth <= d; leafPct/10 is the chance that the root is a leaf
func (w *world) treeP(d int, leafPct int) *QN {
	r := w.r
	if d <= 0 || r.Chance(leafPct, 10) {
		return w.leaf()
	}
	switch r.Intn(10) {
	case 0, 1, 2:
		return &QN{K: "conj", Kids: w.kids(d, true)}
	case 3, 4, 5:
		q := &QN{K: "disj", Kids: w.kids(d, true)}
		q.Min2 = w.min2(len(q.Kids))
		return q
	}
	q := &QN{K: "boolean"}
	if r.Chance(1, 2) {
		q.HasMust, q.Must = true, w.kids(d, true)
	}
	if r.Chance(1, 2) {
		q.HasShould, q.Should = true, w.kids(d, true)
		q.Min2 = w.min2(len(q.Should))
	}
	if r.Chance(2, 5) {
		q.HasMustNot, q.MustNot = true, w.kids(d, true)
	}
	if r.Chance(1, 4) {
		q.Filter = w.tree(d - 1)
	}
	if !q.HasMust && !q.HasShould && !q.HasMustNot && q.Filter == nil {
		q.HasMustNot, q.MustNot = true, w.kids(d, false) // must-not only
	}
	return q
}

// termTree: conjunction / disjunction / boolean over plain term and bool-field leaves
func (w *world) termTree(d int) *QN {
	r := w.r
	if d <= 0 {
		switch r.Intn(7) {
		case 0:
			return &QN{K: "term", F: "k", T: w.termFor("k")}
		case 1:
			return &QN{K: "bool", F: "b", V: r.Bool()}
		}
		if len(w.docs) > 0 && r.Chance(3, 4) { // a word of some generated body
			if ws := vrand.Pick(r, w.docs).W; len(ws) > 0 {
				return &QN{K: "term", F: "w", T: vrand.Pick(r, ws)}
			}
		}
		return &QN{K: "term", F: "w", T: w.word()}
	}
	kids := func(lo int) []*QN {
		out := []*QN{}
		for n := r.Range(lo, 3); n > 0; n-- {
			if r.Chance(1, 4) {
				out = append(out, w.termTree(d-1))
			} else {
				out = append(out, w.termTree(0))
			}
		}
		return out
	}
	switch r.Intn(6) {
	case 0, 1, 2:
		return &QN{K: "conj", Kids: kids(2)}
	case 3, 4:
		q := &QN{K: "disj", Kids: kids(2)}
		q.Min2 = vrand.Pick(r, []int{0, 0, 2, 2, 1, 4, -1, -2, -4, -2000000})
		return q
	}
	q := &QN{K: "boolean", HasMust: true, Must: kids(1)}
	if r.Chance(1, 2) {
		q.HasShould, q.Should, q.Min2 = true, kids(1), vrand.Pick(r, []int{0, 0, 0, -1, -2, -4, -2000000})
	}
	if r.Chance(1, 2) {
		q.HasMustNot, q.MustNot = true, kids(1)
	}
	if r.Chance(1, 4) {
		q.Filter = w.termTree(d - 1)
	}
	return q
}

// scorchConfigs: the non-default index configurations (scorch kvconfig).  fieldTFRCacheThreshold
// switches on the per-snapshot cache of recycled term field readers (off by default); the int /
// float64 forms are what a Go caller / a JSON-decoded config hand over.  The others are options
// that must not change any answer: unsafe_batch (no wait for persistence), numSnapshotsToKeep,
// persister / merge-plan tuning.
var scorchConfigs = map[string]map[string]interface{}{
	"tfr1":         {"fieldTFRCacheThreshold": 1},
	"tfr10":        {"fieldTFRCacheThreshold": 10},
	"tfr10f":       {"fieldTFRCacheThreshold": float64(10)},
	"tfr1000":      {"fieldTFRCacheThreshold": 1000},
	"unsafe":       {"unsafe_batch": true},
	"tfr10+unsafe": {"fieldTFRCacheThreshold": 10, "unsafe_batch": true},
	"keep3":        {"numSnapshotsToKeep": 3},
	"tfr1000+nap": {"fieldTFRCacheThreshold": 1000,
		"scorchPersisterOptions": map[string]interface{}{"PersisterNapTimeMSec": 1, "PersisterNapUnderNumFiles": 2}},
	"tfr1+plan": {"fieldTFRCacheThreshold": 1,
		"scorchMergePlanOptions": map[string]interface{}{"MaxSegmentsPerTier": 2, "SegmentsPerMergeTask": 2, "FloorSegmentSize": 1}},
}

var cfgNames = []string{"tfr1", "tfr10", "tfr1000", "tfr10f", "tfr10", "tfr1000", "tfr1", "unsafe", "tfr10+unsafe", "keep3", "tfr1000+nap", "tfr1+plan"}

// pickCfg: half of the scorch cases of the general streams run on a non-default configuration
func pickCfg(r *vrand.R, engine string) string {
	if !strings.HasPrefix(engine, "scorch") || r.Bool() {
		return ""
	}
	return vrand.Pick(r, cfgNames)
}

// pickTFRCfg: for the directed streams whose segment layout matters, only the reader cache varies
func pickTFRCfg(r *vrand.R, engine string) string {
	if !strings.HasPrefix(engine, "scorch") || r.Bool() {
		return ""
	}
	return vrand.Pick(r, []string{"tfr1", "tfr10", "tfr1000", "tfr10f"})
}

// leafOn: a leaf query on text field f (term, match, prefix, wildcard, fuzzy, term range, regexp;
// phrase kinds on the tokenised fields)
func (w *world) leafOn(f string) *QN {
	kinds := []string{"term", "term", "term", "match", "match", "prefix", "wildcard", "fuzzy", "termrange", "regexp"}
	if f == "t" || f == "u" {
		kinds = append(kinds, "matchphrase", "phrase", "multiphrase")
	}
	kind := vrand.Pick(w.r, kinds)
	for try := 0; try < 16; try++ {
		if q := w.leafOf(kind); q.F == f {
			return q
		}
	}
	return &QN{K: "term", F: f, T: w.termFor(f)}
}

func validate(q *QN) (ok bool) {
	defer func() {
		if recover() != nil {
			ok = false
		}
	}()
	if vq, isV := q.build().(query.ValidatableQuery); isV {
		return vq.Validate() == nil
	}
	return true
}

var engines = []string{"scorch-mem", "scorch-disk", "upsidedown", "scorch-mem", "upsidedown", "scorch-mem"}

func gen(f vh.Flags, r *vrand.R, emit func(In)) {
	thorough := f.Tier == "thorough"
	// 1. random trees to depth 4 over random corpora
	nCorpora := f.N(50, 2400)
	for ci := 0; ci < nCorpora; ci++ {
		engine := engines[ci%len(engines)]
		nDocs := r.Range(5, 12)
		if thorough && r.Chance(1, 3) {
			nDocs = r.Range(13, 40)
		}
		w := newWorld(r.Fork(), engine, nDocs)
		batches := w.history()
		emitted := 0
		for try := 0; emitted < 5 && try < 40; try++ {
			leafPct := 0
			if try%5 == 4 {
				leafPct = 10 // a bare leaf now and then
			}
			q := w.treeP(r.Range(1, 4), leafPct)
			if q.size() > 45 || !validate(q) {
				continue
			}
			emit(In{Kind: "main", Engine: engine, Batches: batches, MergeAfter: w.mergeAfter(batches), Q: q, Cfg: pickCfg(r, engine)})
			emitted++
		}
	}
	// 1b. single leaves of every kind, with parameters aimed at the documents
	nLeafCorpora := f.N(32, 1600)
	kindAt := 0
	for ci := 0; ci < nLeafCorpora; ci++ {
		engine := engines[(ci+1)%len(engines)]
		w := newWorld(r.Fork(), engine, r.Range(5, 10))
		batches := w.history()
		for k := 0; k < 5; k++ {
			q := w.leafOf(leafKinds[kindAt%len(leafKinds)])
			kindAt++
			if k == 4 && r.Chance(1, 2) { // the same leaf under a must-not, so that misses show as extra hits
				q = &QN{K: "boolean", HasMustNot: true, MustNot: []*QN{q}}
			}
			if validate(q) {
				emit(In{Kind: "leaf", Engine: engine, Batches: batches, MergeAfter: w.mergeAfter(batches), Q: q, Cfg: pickCfg(r, engine)})
			}
		}
	}
	// 1c. compounds over plain term / bool-field leaves (mostly on the field without term
	// vectors): the shapes that score:"none" turns into per-segment bitmap algebra, including
	// scorch's 1-hit postings
	nUA := f.N(60, 3000)
	for i := 0; i < nUA; i++ {
		// half on disk (mostly force-merged: 1-hit postings only exist in merged segments)
		engine := []string{"scorch-disk", "scorch-mem", "scorch-disk", "upsidedown", "scorch-disk", "scorch-mem"}[i%6]
		w := newWorld(r.Fork(), engine, r.Range(4, 8))
		w.vocab = append([]string{}, wordPool...) // many words, few documents: terms with a single posting
		w.uniq = i%2 == 0
		batches := w.history()
		q := w.termTree(r.Range(1, 2))
		if validate(q) {
			emit(In{Kind: "termtree", Engine: engine, Batches: batches, MergeAfter: w.mergeAfter(batches), Q: q, Cfg: pickTFRCfg(r, engine)})
		}
	}
	// 1d. terms with a single posting in a force-merged on-disk segment (scorch's 1-hit encoding)
	nOH := f.N(24, 1200)
	for i := 0; i < nOH; i++ {
		w := newWorld(r.Fork(), "scorch-disk", r.Range(3, 6))
		w.vocab = append([]string{}, wordPool...)
		w.uniq = true
		batches := w.history()
		pick := func() *QN {
			ws := vrand.Pick(w.r, w.docs).W
			if w.r.Chance(3, 4) {
				return &QN{K: "term", F: "w", T: ws[0]} // the unique word of that body
			}
			return &QN{K: "term", F: "w", T: vrand.Pick(w.r, ws)}
		}
		ks := []*QN{pick(), pick()}
		if w.r.Chance(1, 3) {
			ks = append(ks, pick())
		}
		var q *QN
		switch w.r.Intn(4) {
		case 0, 1:
			q = &QN{K: "conj", Kids: ks}
		case 2:
			q = &QN{K: "disj", Kids: ks, Min2: vrand.Pick(w.r, []int{0, 2, -2})}
		default:
			q = &QN{K: "boolean", HasMust: true, Must: ks[:1], HasMustNot: true, MustNot: ks[1:]}
		}
		if validate(q) {
			emit(In{Kind: "onehit", Engine: "scorch-disk", Batches: batches, MergeAfter: len(batches), Q: q, Cfg: pickTFRCfg(r, "scorch-disk")})
		}
	}
	// 1e. a wide disjunction (more clauses than searcher.DisjunctionHeapTakeover) under a sparse clause
	nWD := f.N(60, 1500)
	for i := 0; i < nWD; i++ {
		engine := []string{"scorch-mem", "upsidedown", "scorch-disk"}[i%3]
		if in := genWide(r.Fork(), engine); validate(in.Q) {
			in.Cfg = pickCfg(r, engine)
			emit(in)
		}
	}
	// 1f. on-disk scorch: batches, force-merge, further batches that stay unmerged
	nMA := f.N(40, 1000)
	for i := 0; i < nMA; i++ {
		if in := genMergeAppend(r.Fork()); validate(in.Q) {
			in.Cfg = pickTFRCfg(r, "scorch-disk")
			emit(in)
		}
	}
	// 1g. read-only schedules: several queries touching the same field searched in rounds on one
	// index, nothing written in between (reader recycling and other per-snapshot caches must not
	// change an answer); scorch mostly with the term-field-reader cache switched on
	nRP := f.N(36, 1500)
	for i := 0; i < nRP; i++ {
		engine := []string{"scorch-mem", "scorch-disk", "scorch-mem", "upsidedown", "scorch-mem", "scorch-disk"}[i%6]
		w := newWorld(r.Fork(), engine, r.Range(5, 10))
		batches := w.history()
		cfg := ""
		if engine != "upsidedown" {
			cfg = []string{"tfr1", "tfr10", "tfr1000", "tfr10f", "", "tfr10+unsafe", "tfr1000", "tfr1"}[(i/2)%8]
		}
		field := vrand.Pick(w.r, []string{"k", "t", "t", "u", "w"})
		mk := func() *QN {
			switch w.r.Intn(6) {
			case 0:
				return &QN{K: "conj", Kids: []*QN{w.leafOn(field), w.leafOn(field)}}
			case 1:
				return &QN{K: "disj", Kids: []*QN{w.leafOn(field), w.leafOn(field), w.leaf()}, Min2: vrand.Pick(w.r, []int{0, 2, 4, -1, -2, -4})}
			case 2:
				return &QN{K: "boolean", HasMust: true, Must: []*QN{w.leafOn(field)}, HasShould: true,
					Should: []*QN{w.leafOn(field), w.leaf()}, Min2: vrand.Pick(w.r, []int{0, 0, 2, -1, -2, -4, -2000000})}
			}
			return w.leafOn(field)
		}
		in := In{Kind: "repeat", Engine: engine, Batches: batches, MergeAfter: w.mergeAfter(batches), Cfg: cfg, Reps: w.r.Range(2, 3)}
		for try := 0; try < 20 && in.Q == nil; try++ {
			if q := mk(); validate(q) {
				in.Q = q
			}
		}
		for try := 0; try < 20 && len(in.Also) < 1+i%2; try++ {
			if q := mk(); validate(q) {
				in.Also = append(in.Also, q)
			}
		}
		if in.Q != nil {
			emit(in)
		}
	}
	// 2. regression cases for three defects that were found by this check and fixed in /repo
	// (min_should under score:none, regexp leftmost-first on upsidedown, empty prefix on upsidedown)
	nMS := f.N(24, 600)
	for i := 0; i < nMS; i++ {
		engine := engines[i%len(engines)]
		w := newWorld(r.Fork(), engine, r.Range(3, 6))
		w.vocab = w.vocab[:4]
		term := func(t string) *QN { return &QN{K: "term", F: "k", T: t} }
		// documents 0 and 1 satisfy the must clause; 0 satisfies no should clause
		var docs [][]Op
		for id := 0; id < w.nDocs; id++ {
			d := &Doc{KArr: true}
			switch id {
			case 0:
				d.K = []string{w.vocab[0]}
			case 1:
				d.K = []string{w.vocab[0], w.vocab[1]}
			default:
				for j := w.r.Range(1, 2); j > 0; j-- {
					d.K = append(d.K, w.word())
				}
			}
			docs = append(docs, []Op{{ID: id, Doc: d}})
		}
		b := &QN{K: "boolean", HasMust: true, HasShould: true, Min2: 2}
		b.Must = []*QN{term(w.vocab[0])}
		b.Should = []*QN{term(w.vocab[1]), term(w.vocab[2])}
		if w.r.Chance(1, 3) {
			b.Should = append(b.Should, term(w.vocab[3]))
		}
		switch {
		case w.r.Chance(1, 5):
			b.Min2 = 2 * len(b.Should)
		case w.r.Chance(1, 3):
			// a negative minimum: the should clauses are optional, document 0 has to be returned
			// (BooleanSearcher compared Min() with 0 exactly before /repo 895ea25)
			b.Min2 = vrand.Pick(w.r, negMin2)
		}
		q := b
		switch w.r.Intn(4) {
		case 0: // inside a filter clause
			q = &QN{K: "boolean", HasMust: true, Must: []*QN{{K: "all"}}, Filter: b}
		case 1:
			q = &QN{K: "conj", Kids: []*QN{b, {K: "all"}}}
		}
		if validate(q) {
			emit(In{Kind: "minshould", Engine: engine, Batches: docs, Q: q})
		}
	}
	nRX := f.N(24, 600)
	for i := 0; i < nRX; i++ {
		engine := "upsidedown"
		if i%4 == 3 {
			engine = "scorch-mem"
		}
		w := newWorld(r.Fork(), engine, 0)
		w.nDocs = len(w.vocab)
		var docs [][]Op
		for id, t := range w.vocab {
			docs = append(docs, []Op{{ID: id, Doc: &Doc{K: []string{t}}}})
		}
		lit := rxLit
		var rx *RX
		word := w.word()
		for len(word) < 2 {
			word = w.word()
		}
		cut := w.r.Range(1, len(word)-1)
		switch w.r.Intn(5) {
		case 0: // prefix|word : the leftmost-first match of "word" is the shorter alternative
			rx = &RX{Op: "alt", A: lit(word[:cut]), B: lit(word)}
		case 1: // head(short|long)
			rx = &RX{Op: "cat", A: lit(word[:cut]), B: &RX{Op: "alt", A: &RX{Op: "opt", A: &RX{Op: "any"}}, B: lit(word[cut:])}}
		case 2:
			rx = &RX{Op: "cat", A: &RX{Op: "alt", A: lit(word[:cut]), B: lit(word)}, B: &RX{Op: "opt", A: w.regex(1)}}
		default:
			rx = w.regex(w.r.Range(2, 4))
		}
		q := &QN{K: "regexp", F: "k", Rx: rx}
		if validate(q) {
			emit(In{Kind: "regexp", Engine: engine, Batches: docs, Q: q})
		}
	}
	nPE := f.N(6, 100)
	for i := 0; i < nPE; i++ {
		w := newWorld(r.Fork(), "upsidedown", r.Range(2, 4))
		var docs [][]Op
		for id := 0; id < w.nDocs; id++ {
			d := &Doc{}
			if id > 0 {
				d.K = []string{w.word()}
			} else {
				d.B = []bool{true}
			}
			docs = append(docs, []Op{{ID: id, Doc: d}})
		}
		var q *QN = &QN{K: "prefix", F: "k", T: ""}
		if i%2 == 1 {
			q = &QN{K: "boolean", HasMustNot: true, MustNot: []*QN{q}}
		}
		emit(In{Kind: "prefix-empty", Engine: "upsidedown", Batches: docs, Q: q})
	}
	// 3. thorough: every query tree of depth <= 2 over 3 leaves (nodes with at most 2 children,
	// at most one of them compound) on a few small corpora
	if thorough {
		for ci := 0; ci < 2; ci++ {
			engine := []string{"scorch-mem", "upsidedown"}[ci]
			w := newWorld(r.Fork(), engine, 6)
			w.vocab = []string{"a", "b", "c"}
			var docs [][]Op
			for id := 0; id < 8; id++ {
				d := &Doc{KArr: true}
				for _, t := range w.vocab {
					if w.r.Chance(2, 5) {
						d.K = append(d.K, t)
					}
				}
				if id == 6 {
					docs = append(docs, []Op{{Del: true, ID: 1}})
				}
				docs = append(docs, []Op{{ID: id % 7, Doc: d}})
			}
			for _, q := range enumerate() {
				if validate(q) {
					emit(In{Kind: "enum", Engine: engine, Batches: docs, Q: q})
				}
			}
		}
	}
}

// ---------------------------------------------------------------- directed streams

// rxLit: the regular expression matching exactly the (non-empty) string s
func rxLit(s string) *RX {
	x := &RX{Op: "chr", C: s[:1]}
	for _, c := range s[1:] {
		x = &RX{Op: "cat", A: x, B: &RX{Op: "chr", C: string(c)}}
	}
	return x
}

// setWords puts words into text field f of d: one value per word for the keyword fields; for
// the whitespace-analysed fields either one value per word or one text holding all of them
func setWords(r *vrand.R, d *Doc, f string, words []string) {
	if len(words) == 0 {
		return
	}
	vals := append([]string{}, words...)
	if (f == "t" || f == "u") && r.Bool() {
		vals = []string{strings.Join(words, " ")}
	}
	arr := len(vals) > 1 || r.Bool()
	switch f {
	case "k":
		d.K, d.KArr = vals, arr
	case "w":
		d.W, d.WArr = vals, arr
	case "t":
		d.T, d.TArr = vals, arr
	case "u":
		d.U, d.UArr = vals, arr
	default:
		panic("bad text field " + f)
	}
}

// chunk cuts ops into consecutive batches of lo..hi operations (never the same id twice in a batch)
func chunk(r *vrand.R, ops []Op, lo, hi int) [][]Op {
	var batches [][]Op
	var cur []Op
	seen := map[int]bool{}
	limit := r.Range(lo, hi)
	for _, op := range ops {
		if seen[op.ID] || len(cur) >= limit {
			batches = append(batches, cur)
			cur, seen, limit = nil, map[int]bool{}, r.Range(lo, hi)
		}
		cur = append(cur, op)
		seen[op.ID] = true
	}
	if len(cur) > 0 {
		batches = append(batches, cur)
	}
	return batches
}

// genWide: "wide disjunction under a sparse clause".  11-14 distinct terms sharing a prefix are
// spread densely over 14-24 documents (several segments); 1-3 scattered documents carry a flag.
// The query combines a clause W that expands to all the wide terms (prefix / wildcard / regexp /
// term range / fuzzy / match with operator OR / an explicit disjunction of term queries: more
// children than searcher.DisjunctionHeapTakeover) with a clause S matching only the flagged
// documents: W as must-not, as should with min >= 1, as filter, as a plain conjunct, ...
func genWide(r *vrand.R, engine string) In {
	nWide := r.Range(searcher.DisjunctionHeapTakeover+1, searcher.DisjunctionHeapTakeover+4)
	pre := vrand.Pick(r, []string{"p", "ab", "x", "ca", "b", "pq"})
	sfx := strings.Split("abcdefghijklmnop", "")
	vrand.Shuffle(r, sfx)
	long := r.Chance(1, 4) // two-letter suffixes now and then
	wide := make([]string, nWide)
	for i := range wide {
		wide[i] = pre + sfx[i]
		if long && r.Bool() {
			wide[i] += string("abc"[r.Intn(3)])
		}
	}
	fw := vrand.Pick(r, []string{"k", "w", "t", "k", "w"})      // field of the wide terms
	fs := vrand.Pick(r, []string{"k", "w", "t", "u", "u", "u"}) // field of the flags
	const flag, flag2 = "zz", "zy"
	noise := []string{"m", "mm", "n"}

	nDocs := r.Range(nWide+3, nWide+10) // 14..24
	// the flagged documents: 1-3, scattered, not among the first two
	nS := r.Range(1, 3)
	sparse := map[int]bool{}
	for len(sparse) < nS {
		id := r.Range(2, nDocs-1)
		if len(sparse) == 0 && r.Chance(1, 2) {
			id = r.Range(nDocs/2, nDocs-1)
		}
		sparse[id] = true
	}
	// every wide term is used at least once, by an unflagged document
	var first []int
	for i := 0; i < nDocs; i++ {
		if !sparse[i] {
			first = append(first, i)
		}
	}
	vrand.Shuffle(r, first)
	owner := map[int]string{}
	for i, t := range wide {
		owner[first[i]] = t
	}
	mkBody := func(id int) *Doc {
		d := &Doc{}
		var ws, fl []string
		if t, ok := owner[id]; ok {
			ws = append(ws, t)
		} else if r.Chance(2, 3) {
			ws = append(ws, vrand.Pick(r, wide))
		}
		if len(ws) > 0 && r.Chance(1, 5) {
			if t := vrand.Pick(r, wide); t != ws[0] {
				ws = append(ws, t)
			}
		}
		if r.Chance(1, 3) {
			ws = append(ws, vrand.Pick(r, noise))
		}
		switch {
		case sparse[id]:
			fl = []string{flag, flag2}
		case r.Chance(1, 6):
			fl = []string{flag2} // half of the two-term sparse conjunction
		case r.Chance(1, 4):
			fl = []string{vrand.Pick(r, noise)}
		}
		if fw == fs {
			all := append(append([]string{}, ws...), fl...)
			vrand.Shuffle(r, all)
			setWords(r, d, fw, all)
		} else {
			setWords(r, d, fw, ws)
			setWords(r, d, fs, fl)
		}
		if sparse[id] {
			d.B = []bool{true}
		} else if r.Chance(1, 2) {
			d.B = []bool{false}
		}
		if len(d.K)+len(d.W)+len(d.T)+len(d.U)+len(d.B) == 0 {
			d.B = []bool{false}
		}
		return d
	}
	var ops []Op
	for id := 0; id < nDocs; id++ {
		ops = append(ops, Op{ID: id, Doc: mkBody(id)})
	}
	// a few later changes: deletes and re-indexed documents
	for i := r.Range(0, 3); i > 0; i-- {
		id := r.Intn(nDocs)
		if r.Chance(1, 2) {
			ops = append(ops, Op{Del: true, ID: id})
		} else {
			ops = append(ops, Op{ID: id, Doc: mkBody(id)})
		}
	}
	hi := vrand.Pick(r, []int{1, 2, 3, 5}) // single-document batches: a fully determined document order
	batches := chunk(r, ops, 1, hi)
	mergeAfter := 0
	if engine == "scorch-disk" && r.Chance(1, 3) {
		mergeAfter = r.Range(len(batches)/2, len(batches))
	}

	term := func(f, t string) *QN { return &QN{K: "term", F: f, T: t} }
	// W: the wide clause
	var W *QN
	wkind := vrand.Pick(r, []string{"prefix", "prefix", "wildcard", "regexp", "termrange", "fuzzy", "match", "disj", "disj", "disj"})
	if wkind == "match" && fw != "t" {
		wkind = "prefix"
	}
	switch wkind {
	case "prefix":
		W = &QN{K: "prefix", F: fw, T: pre}
	case "wildcard":
		W = &QN{K: "wildcard", F: fw, T: pre + vrand.Pick(r, []string{"*", "?*", "*?"})}
	case "regexp":
		W = &QN{K: "regexp", F: fw, Rx: &RX{Op: "cat", A: rxLit(pre), B: &RX{Op: vrand.Pick(r, []string{"star", "plus"}), A: &RX{Op: "any"}}}}
	case "termrange":
		lo, hi := pre, pre[:len(pre)-1]+string(pre[len(pre)-1]+1)
		W = &QN{K: "termrange", F: fw, Lo: &lo, Hi: &hi}
	case "fuzzy":
		// every wide term with a one-letter suffix is one substitution away from pre+"a"
		W = &QN{K: "fuzzy", F: fw, T: pre + "a", Pre: r.Range(0, len(pre)), Fz: r.Range(1, 2)}
	case "match":
		ws := append([]string{}, wide...)
		vrand.Shuffle(r, ws)
		W = &QN{K: "match", F: fw, T: strings.Join(ws, " ")}
	default:
		W = &QN{K: "disj", Min2: vrand.Pick(r, []int{0, 0, 2, 2, 4, -2, -4})}
		for _, t := range wide {
			W.Kids = append(W.Kids, term(fw, t))
		}
		if r.Chance(1, 4) {
			W.Kids[r.Intn(len(W.Kids))] = term(fw, pre+"zzz") // no such term
		}
		vrand.Shuffle(r, W.Kids)
	}
	// S: the sparse clause
	var S *QN
	skind := vrand.Pick(r, []string{"term", "term", "term", "docids", "conj", "bool"})
	switch skind {
	case "term":
		S = term(fs, flag)
	case "docids":
		S = &QN{K: "docids", IDs: []int{}}
		for id := range sparse {
			S.IDs = append(S.IDs, id)
		}
		sort.Ints(S.IDs)
	case "conj":
		S = &QN{K: "conj", Kids: []*QN{term(fs, flag2), term(fs, flag)}}
	default:
		S = &QN{K: "bool", F: "b", V: true}
	}
	other := term(fw, vrand.Pick(r, noise))
	var q *QN
	role := vrand.Pick(r, []string{"mustnot", "mustnot", "mustnot", "should1", "should1", "should1", "should-list", "should+other",
		"mustnot+other", "should0", "conj", "must", "filter", "should-only-mustnot", "nested", "sparse-filter"})
	switch role {
	case "mustnot":
		q = &QN{K: "boolean", HasMust: true, Must: []*QN{S}, HasMustNot: true, MustNot: []*QN{W}}
	case "should1":
		q = &QN{K: "boolean", HasMust: true, Must: []*QN{S}, HasShould: true, Should: []*QN{W}, Min2: vrand.Pick(r, []int{2, 2, 3})}
	case "should-list": // the should clause itself is the wide disjunction
		q = &QN{K: "boolean", HasMust: true, Must: []*QN{S}, HasShould: true, Min2: vrand.Pick(r, []int{2, 2, 4})}
		for _, t := range wide {
			q.Should = append(q.Should, term(fw, t))
		}
	case "should+other":
		q = &QN{K: "boolean", HasMust: true, Must: []*QN{S}, HasShould: true, Should: []*QN{W, other}, Min2: vrand.Pick(r, []int{2, 2, 4})}
	case "mustnot+other":
		q = &QN{K: "boolean", HasMust: true, Must: []*QN{S}, HasMustNot: true, MustNot: []*QN{other, W}}
	case "should0":
		q = &QN{K: "boolean", HasMust: true, Must: []*QN{S}, HasShould: true, Should: []*QN{W}, Min2: vrand.Pick(r, []int{0, 0, -1, -2, -4, -2000000})}
	case "conj":
		q = &QN{K: "conj", Kids: []*QN{S, W}}
		if r.Bool() {
			q.Kids = []*QN{W, S}
		}
	case "must":
		q = &QN{K: "boolean", HasMust: true, Must: []*QN{W, S}}
	case "filter":
		q = &QN{K: "boolean", HasMust: true, Must: []*QN{S}, Filter: W}
	case "should-only-mustnot":
		q = &QN{K: "boolean", HasShould: true, Should: []*QN{S}, Min2: vrand.Pick(r, []int{0, 2, -2, -4}), HasMustNot: true, MustNot: []*QN{W}}
	case "nested": // the boolean one level down
		in := &QN{K: "boolean", HasMust: true, Must: []*QN{S}, HasMustNot: true, MustNot: []*QN{W}}
		if r.Bool() {
			in = &QN{K: "boolean", HasMust: true, Must: []*QN{S}, HasShould: true, Should: []*QN{W}, Min2: 2}
		}
		switch r.Intn(3) {
		case 0:
			q = &QN{K: "disj", Kids: []*QN{in, other}}
		case 1:
			q = &QN{K: "conj", Kids: []*QN{{K: "all"}, in}}
		default:
			q = &QN{K: "boolean", HasMust: true, Must: []*QN{{K: "all"}}, Filter: in}
		}
	default: // "sparse-filter": the sparse clause restricts as a filter
		q = &QN{K: "boolean", Filter: S, HasMustNot: true, MustNot: []*QN{W}}
		if r.Bool() {
			q = &QN{K: "boolean", Filter: S, HasShould: true, Should: []*QN{W}, Min2: 2}
		}
	}
	return In{Kind: "widedisj", Engine: engine, Batches: batches, MergeAfter: mergeAfter, Q: q,
		Tags: []string{"wide:" + wkind, "wide-role:" + role, "sparse:" + skind}}
}

// genMergeAppend: "merged, then appended" on on-disk scorch.  A few small batches on field w
// (keyword, no term vectors), field k and the boolean field are force-merged into one segment;
// some words occur in exactly one of those documents (scorch's 1-hit postings encoding is
// written by merges only, for a term with one posting of frequency 1 and no term vectors).
// Then further batches are indexed and NOT force-merged.  The query is a conjunction / boolean
// must list / filter clause over such a rare word and a common word, and the LAST batch has
// several documents containing both, so that there are matches in the merged segment's
// successors too.  scorch's background merger folds small segments together as soon as it gets
// to them (and puts the result at the END of the snapshot's segment list), so with more than
// one later batch neither the number nor the order of the segments at search time is
// determined; most cases therefore have exactly one later batch, and the batches between the
// force-merge and the last one leave the query's rare word alone (it keeps its single posting
// whichever way they are merged), except in the "free" variant.
func genMergeAppend(r *vrand.R) In {
	common := []string{"a", "b", "c"}
	vrand.Shuffle(r, common)
	rare := []string{"ra", "rb", "rc", "rd"}[:r.Range(2, 4)]
	vrand.Shuffle(r, rare)
	qr, qc := rare[0], common[0] // the words of the query
	free := r.Chance(1, 6)
	words := func(ws ...string) []string { // distinct words: every term has frequency 1 in its document
		var out []string
		for _, w := range ws {
			dup := false
			for _, x := range out {
				dup = dup || x == w
			}
			if !dup {
				out = append(out, w)
			}
		}
		return out
	}
	finish := func(d *Doc, ws []string) *Doc {
		ws = words(ws...)
		if len(ws) == 0 {
			ws = []string{"m"}
		}
		vrand.Shuffle(r, ws)
		d.W, d.WArr = ws, len(ws) > 1 || r.Bool()
		if r.Chance(1, 2) {
			d.K, d.KArr = []string{vrand.Pick(r, common)}, r.Bool()
		}
		return d
	}
	var batches [][]Op
	id := 0
	// phase 1: 2-4 batches of 1-3 documents; every rare word in exactly one document
	var sizes1 []int
	n1 := 0
	for b := r.Range(2, 4); b > 0; b-- {
		n := r.Range(1, 3)
		sizes1 = append(sizes1, n)
		n1 += n
	}
	home := map[int][]string{}
	for _, w := range rare {
		d := r.Intn(n1)
		home[d] = append(home[d], w)
	}
	trueDoc := r.Intn(n1 + 1) // the one phase-1 document with b = true (n1: none)
	for _, n := range sizes1 {
		var ops []Op
		for i := 0; i < n; i++ {
			d := &Doc{}
			ws := append([]string{}, home[id]...)
			if r.Chance(3, 4) {
				ws = append(ws, qc)
			}
			if r.Chance(1, 3) {
				ws = append(ws, vrand.Pick(r, common))
			}
			if id == trueDoc {
				d.B = []bool{true}
			} else if r.Chance(1, 2) {
				d.B = []bool{false}
			}
			ops = append(ops, Op{ID: id, Doc: finish(d, ws)})
			id++
		}
		batches = append(batches, ops)
	}
	mergeAfter := len(batches)
	// phase 2: 0-2 batches of 2-4 documents (mostly none: the snapshot is then the merged segment
	// followed by one fresh segment), then the last batch of 3-6 documents
	for b := vrand.Pick(r, []int{0, 0, 0, 1, 2}); b >= 0; b-- {
		last := b == 0
		var ops []Op
		touched := map[int]bool{}
		n := r.Range(2, 4)
		if last {
			n = r.Range(3, 6)
		}
		both := 0
		if last {
			both = r.Range(2, 3) // documents of the last batch holding both query words
		}
		for i := 0; i < n; i++ {
			d := &Doc{}
			var ws []string
			switch {
			case i < both:
				ws = append(ws, qr, qc)
			case last || free:
				if r.Chance(1, 2) {
					ws = append(ws, qr)
				}
				if r.Chance(1, 2) {
					ws = append(ws, qc)
				}
			default:
				if r.Chance(2, 3) {
					ws = append(ws, qc)
				}
			}
			if len(rare) > 1 && r.Chance(1, 4) {
				ws = append(ws, vrand.Pick(r, rare[1:]))
			}
			if r.Chance(1, 3) {
				ws = append(ws, vrand.Pick(r, common))
			}
			if r.Chance(2, 3) {
				d.B = []bool{r.Chance(2, 3)}
			}
			target := id
			if r.Chance(1, 10) { // re-index a document of the merged segment
				target = r.Intn(n1)
			}
			if touched[target] {
				target = id
			}
			touched[target] = true
			if target == id {
				id++
			}
			ops = append(ops, Op{ID: target, Doc: finish(d, ws)})
		}
		if r.Chance(1, 6) {
			if t := r.Intn(id); !touched[t] {
				ops = append(ops, Op{Del: true, ID: t})
			}
		}
		vrand.Shuffle(r, ops)
		batches = append(batches, ops)
	}

	wt := func(t string) *QN { return &QN{K: "term", F: "w", T: t} }
	var third *QN
	switch r.Intn(4) {
	case 0:
		third = &QN{K: "bool", F: "b", V: r.Chance(2, 3)}
	case 1:
		third = &QN{K: "term", F: "k", T: vrand.Pick(r, common)}
	case 2:
		third = wt(rare[len(rare)-1])
	default:
		third = wt(common[1])
	}
	pair := []*QN{wt(qr), wt(qc)}
	if r.Bool() {
		pair[0], pair[1] = pair[1], pair[0]
	}
	cj := &QN{K: "conj", Kids: pair}
	var q *QN
	shape := vrand.Pick(r, []string{"conj", "conj", "conj", "conj3", "filter-conj", "filter-conj", "must-list", "must+filter",
		"filter-conj+mustnot", "disj-of-conj", "must-conj+should", "conj-nested", "mustnot-conj"})
	switch shape {
	case "conj":
		q = cj
	case "conj3":
		q = &QN{K: "conj", Kids: append(append([]*QN{}, pair...), third)}
		vrand.Shuffle(r, q.Kids)
	case "filter-conj":
		q = &QN{K: "boolean", HasMust: true, Must: []*QN{{K: "all"}}, Filter: cj}
		if r.Chance(1, 3) {
			q = &QN{K: "boolean", Filter: cj}
		}
	case "must-list":
		q = &QN{K: "boolean", HasMust: true, Must: pair}
	case "must+filter":
		q = &QN{K: "boolean", HasMust: true, Must: pair[:1], Filter: pair[1]}
	case "filter-conj+mustnot":
		q = &QN{K: "boolean", Filter: cj, HasMustNot: true, MustNot: []*QN{third}}
	case "disj-of-conj":
		q = &QN{K: "disj", Kids: []*QN{cj, wt("m")}}
	case "must-conj+should":
		q = &QN{K: "boolean", HasMust: true, Must: []*QN{cj}, HasShould: true, Should: []*QN{third}, Min2: vrand.Pick(r, []int{0, 0, -1, -2, -4})}
	case "conj-nested":
		q = &QN{K: "conj", Kids: []*QN{cj, third}}
	default: // every document with the field, except the conjunction's
		q = &QN{K: "boolean", HasMust: true, Must: []*QN{{K: "prefix", F: "w", T: ""}}, HasMustNot: true, MustNot: []*QN{cj}}
	}
	variant := "directed"
	if free {
		variant = "free"
	}
	return In{Kind: "mergeappend", Engine: "scorch-disk", Batches: batches, MergeAfter: mergeAfter, Q: q,
		Tags: []string{"mergeappend:" + shape, "mergeappend-variant:" + variant}}
}

// enumerate: all trees of depth <= 2 over the leaves term a, term b, match-all where a node has
// at most two children and at most one of them is itself a compound.
func enumerate() []*QN {
	leaves := []*QN{{K: "term", F: "k", T: "a"}, {K: "term", F: "k", T: "b"}, {K: "all"}}
	compounds := func(c1, c2 *QN) []*QN { // c2 may be nil; c1 nil means no child
		var out []*QN
		var ks []*QN
		if c1 != nil {
			ks = append(ks, c1)
		}
		if c2 != nil {
			ks = append(ks, c2)
		}
		kids := append([]*QN{}, ks...)
		out = append(out, &QN{K: "conj", Kids: kids})
		for m := -1; m <= len(ks); m++ { // min -1, 0, 1, ...
			out = append(out, &QN{K: "disj", Kids: kids, Min2: 2 * m})
		}
		// boolean: every assignment of the children to must / should / must-not / filter
		roles := []string{"must", "should", "mustnot", "filter"}
		var assign func(i int, q QN)
		assign = func(i int, q QN) {
			if i == len(ks) {
				if len(ks) == 0 {
					return
				}
				if q.HasShould {
					for m := -1; m <= len(q.Should); m++ { // min -1, 0, 1, ...
						qq := q
						qq.Min2 = 2 * m
						out = append(out, &qq)
					}
				} else {
					qq := q
					out = append(out, &qq)
				}
				return
			}
			for _, role := range roles {
				qq := q
				switch role {
				case "must":
					qq.HasMust, qq.Must = true, append(append([]*QN{}, q.Must...), ks[i])
				case "should":
					qq.HasShould, qq.Should = true, append(append([]*QN{}, q.Should...), ks[i])
				case "mustnot":
					qq.HasMustNot, qq.MustNot = true, append(append([]*QN{}, q.MustNot...), ks[i])
				case "filter":
					if q.Filter != nil {
						continue
					}
					qq.Filter = ks[i]
				}
				assign(i+1, qq)
			}
		}
		assign(0, QN{K: "boolean"})
		return out
	}
	var depth1 []*QN
	depth1 = append(depth1, compounds(nil, nil)...)
	for _, a := range leaves {
		depth1 = append(depth1, compounds(a, nil)...)
		for _, b := range leaves {
			depth1 = append(depth1, compounds(a, b)...)
		}
	}
	all := append(append([]*QN{}, leaves...), depth1...)
	for _, c := range depth1 {
		all = append(all, compounds(c, nil)...)
		for _, l := range leaves {
			all = append(all, compounds(c, l)...)
			all = append(all, compounds(l, c)...)
		}
	}
	return all
}

// ---------------------------------------------------------------- execution

func buildMapping() (mapping.IndexMapping, error) {
	m := bleve.NewIndexMapping()
	err := m.AddCustomAnalyzer("wslc", map[string]interface{}{
		"type":          custom.Name,
		"tokenizer":     whitespace.Name,
		"token_filters": []interface{}{lowercase.Name},
	})
	if err != nil {
		return nil, err
	}
	dm := bleve.NewDocumentMapping()
	kf := bleve.NewTextFieldMapping()
	kf.Analyzer = keyword.Name
	dm.AddFieldMappingsAt("k", kf)
	tf := bleve.NewTextFieldMapping()
	tf.Analyzer = "wslc"
	dm.AddFieldMappingsAt("t", tf)
	uf := bleve.NewTextFieldMapping()
	uf.Analyzer = "wslc"
	dm.AddFieldMappingsAt("u", uf)
	wf := bleve.NewTextFieldMapping()
	wf.Analyzer = keyword.Name
	wf.IncludeTermVectors = false
	dm.AddFieldMappingsAt("w", wf)
	dm.AddFieldMappingsAt("n", bleve.NewNumericFieldMapping())
	dm.AddFieldMappingsAt("d", bleve.NewDateTimeFieldMapping())
	dm.AddFieldMappingsAt("b", bleve.NewBooleanFieldMapping())
	m.DefaultMapping = dm
	return m, nil
}

func body(d *Doc) map[string]interface{} {
	b := map[string]interface{}{}
	strs := func(name string, vals []string, arr bool) {
		if len(vals) == 0 {
			return
		}
		if !arr && len(vals) == 1 {
			b[name] = vals[0]
			return
		}
		vs := make([]interface{}, len(vals))
		for i, v := range vals {
			vs[i] = v
		}
		b[name] = vs
	}
	strs("k", d.K, d.KArr)
	strs("t", d.T, d.TArr)
	strs("u", d.U, d.UArr)
	strs("w", d.W, d.WArr)
	if len(d.N) > 0 {
		vs := make([]interface{}, len(d.N))
		for i, v := range d.N {
			vs[i] = math.Float64frombits(v)
		}
		b["n"] = vs
	}
	if len(d.D) > 0 {
		vs := make([]interface{}, len(d.D))
		for i, v := range d.D {
			vs[i] = time.Unix(0, v).UTC()
		}
		b["d"] = vs
	}
	if len(d.B) > 0 {
		vs := make([]interface{}, len(d.B))
		for i, v := range d.B {
			vs[i] = v
		}
		b["b"] = vs
	}
	return b
}

// tokens of one text field as the analysers produce them: positions restart at 1 in every array
// element; array positions are [i] for an array value and [] for a plain value.
func tokensCoq(field string, vals []string, arr bool) cf.T {
	var toks []cf.T
	for i, v := range vals {
		ap := cf.T("[]")
		if arr || len(vals) > 1 {
			ap = cf.List([]cf.T{cf.Int(i)})
		}
		for p, w := range analyse(field, v) {
			toks = append(toks, cf.App("mkTok", cf.Str(w), cf.Int(p+1), ap))
		}
	}
	return cf.List(toks)
}

func docCoq(num int, d *Doc) cf.T {
	var text, nums, dates, bools []cf.T
	add := func(name string, vals []string, arr bool) {
		if len(vals) > 0 {
			text = append(text, cf.Pair(cf.Str(name), tokensCoq(name, vals, arr)))
		}
	}
	add("k", d.K, d.KArr)
	add("t", d.T, d.TArr)
	add("u", d.U, d.UArr)
	add("w", d.W, d.WArr)
	if len(d.N) > 0 {
		nums = append(nums, cf.Pair(cf.Str("n"), cf.ListOf(d.N, cf.U)))
	}
	if len(d.D) > 0 {
		dates = append(dates, cf.Pair(cf.Str("d"), cf.ListOf(d.D, cf.Z)))
	}
	if len(d.B) > 0 {
		bools = append(bools, cf.Pair(cf.Str("b"), cf.ListOf(d.B, cf.Bool)))
	}
	return cf.App("mkDoc", cf.Int(num), cf.List(text), cf.List(nums), cf.List(dates), cf.List(bools))
}

func forceMerge(idx bleve.Index) {
	adv, err := idx.Advanced()
	if err != nil {
		panic(err)
	}
	sc, ok := adv.(*scorch.Scorch)
	if !ok {
		panic("not a scorch index")
	}
	ctx, cancel := context.WithTimeout(context.Background(), 60*time.Second)
	defer cancel()
	if err := sc.ForceMerge(ctx, nil); err != nil {
		panic(err)
	}
}

func exec(in In) vh.Result {
	var res vh.Result
	if d := vh.Guard(120*time.Second, "index+search", func() { res = run(in) }); d != nil {
		return vh.Result{Direct: d}
	}
	return res
}

func run(in In) vh.Result {
	m, err := buildMapping()
	if err != nil {
		panic(err)
	}
	var idx bleve.Index
	var kvconfig map[string]interface{}
	if in.Cfg != "" {
		base, ok := scorchConfigs[in.Cfg]
		if !ok {
			panic("unknown scorch configuration " + in.Cfg)
		}
		kvconfig = map[string]interface{}{} // bleve adds "path" etc. to the map it is given
		for k, v := range base {
			kvconfig[k] = v
		}
	}
	switch in.Engine {
	case "scorch-mem":
		idx, err = bleve.NewUsing("", m, scorch.Name, scorch.Name, kvconfig)
	case "scorch-disk":
		dir, derr := os.MkdirTemp("/tmp", "vh_c02_")
		if derr != nil {
			panic(derr)
		}
		defer os.RemoveAll(dir)
		idx, err = bleve.NewUsing(dir+"/idx", m, scorch.Name, scorch.Name, kvconfig)
	case "upsidedown":
		idx, err = bleve.NewMemOnly(m)
	default:
		panic("bad engine " + in.Engine)
	}
	if err != nil {
		panic(err)
	}
	defer idx.Close()

	live := map[int]*Doc{}
	for bi, ops := range in.Batches {
		if in.Engine == "scorch-disk" && in.MergeAfter > 0 && bi == in.MergeAfter {
			forceMerge(idx)
		}
		b := idx.NewBatch()
		for _, op := range ops {
			if op.Del {
				b.Delete(docID(op.ID))
				delete(live, op.ID)
			} else {
				if err := b.Index(docID(op.ID), body(op.Doc)); err != nil {
					panic(err)
				}
				live[op.ID] = op.Doc
			}
		}
		if err := idx.Batch(b); err != nil {
			panic(err)
		}
	}
	if in.Engine == "scorch-disk" && in.MergeAfter >= len(in.Batches) {
		forceMerge(idx)
	}
	var nums []int
	for n := range live {
		nums = append(nums, n)
	}
	sort.Ints(nums)
	corpus := cf.ListOf(nums, func(n int) cf.T { return docCoq(n, live[n]) })

	// the schedule: Reps rounds over Q, Also[0], Also[1], ...; every search under the 8 option
	// combinations; no write between any two searches
	queries := append([]*QN{in.Q}, in.Also...)
	reps := in.Reps
	if reps < 1 {
		reps = 1
	}
	obs := make([][]cf.T, len(queries))
	first := -1
	for rep := 0; rep < reps; rep++ {
		for qi, qn := range queries {
			for _, score := range []string{"", "none"} {
				for _, loc := range []bool{false, true} {
					for _, expl := range []bool{false, true} {
						req := bleve.NewSearchRequestOptions(qn.build(), 100, 0, expl)
						req.Score = score
						req.IncludeLocations = loc
						sr, err := idx.Search(req)
						if err != nil {
							return vh.Result{Direct: &vh.Direct{Kind: "error", Detail: fmt.Sprintf("Search(round=%d query=%d score=%q loc=%v explain=%v): %v", rep, qi, score, loc, expl, err)}}
						}
						var hits []int
						for _, h := range sr.Hits {
							n, perr := strconv.Atoi(strings.TrimPrefix(h.ID, "d"))
							if perr != nil {
								panic("unexpected hit id " + h.ID)
							}
							hits = append(hits, n)
						}
						sort.Ints(hits)
						if first < 0 {
							first = len(hits)
						}
						obs[qi] = append(obs[qi], cf.Pair(cf.ListOf(hits, cf.Int), cf.U(sr.Total)))
					}
				}
			}
		}
	}

	tr := cf.T("scorch_metric")
	if in.Engine == "upsidedown" {
		tr = "upsidedown_metric"
	}
	class := ""
	if in.Q.any(minShouldNode) {
		class = "minshould-score-none"
	} else if in.Engine == "upsidedown" && in.Q.any(unsafeRegexp) {
		class = "regexp-leftmost-first"
	} else if in.Engine == "upsidedown" && in.Q.any(func(q *QN) bool { return q.K == "prefix" && q.T == "" }) {
		class = "prefix-empty-upsidedown"
	} else if strings.Contains(in.Cfg, "tfr") && repeatedTermLeaf(in.Q) {
		// known finding C02-tfr-cache-repeated-term: with the term-field-reader cache on
		// (fieldTFRCacheThreshold > 0, off by default) a query naming one (field, term) in several
		// term leaves can answer differently depending on the search options
		class = "tfr-cache-repeated-term"
	}
	segs := ""
	if sm, ok := idx.StatsMap()["index"].(map[string]interface{}); ok {
		if a, ok1 := sm["num_root_memorysegments"].(uint64); ok1 {
			b, _ := sm["num_root_filesegments"].(uint64)
			n := a + b
			if n > 4 {
				n = 4
			}
			segs = fmt.Sprintf("segments:%d%s", n, map[bool]string{true: "+", false: ""}[n == 4])
		}
	}
	if in.Engine == "scorch-disk" && in.MergeAfter > 0 {
		segs += "(force-merged)"
	}
	hist := []string{"kind:" + in.Kind, "engine:" + in.Engine, "root:" + in.Q.K, fmt.Sprintf("depth:%d", in.Q.depth())}
	if strings.HasPrefix(in.Engine, "scorch") {
		if in.Cfg == "" {
			hist = append(hist, "cfg:default")
		} else {
			hist = append(hist, "cfg:"+in.Cfg)
		}
	}
	if len(queries) > 1 || reps > 1 {
		hist = append(hist, fmt.Sprintf("schedule:%d-queries-x-%d-rounds", len(queries), reps))
	}
	hist = append(hist, in.Tags...)
	if segs != "" {
		hist = append(hist, segs)
	}
	seen := map[string]bool{}
	in.Q.any(func(q *QN) bool {
		if !seen[q.K] {
			seen[q.K] = true
			hist = append(hist, "has:"+q.K)
		}
		if q.K == "boolean" && q.Filter != nil && !seen["filter"] {
			seen["filter"] = true
			hist = append(hist, "has:filter-clause")
		}
		if (q.K == "disj" || q.K == "conj") && len(q.Kids) > searcher.DisjunctionHeapTakeover && !seen["big"] {
			seen["big"] = true
			hist = append(hist, "has:children>heap-takeover")
		}
		return false
	})
	term := cf.App("Case", tr, corpus, in.Q.coq(), cf.List(obs[0]))
	if len(queries) > 1 || reps > 1 {
		var qs []cf.T
		for qi, qn := range queries {
			qs = append(qs, cf.Pair(qn.coq(), cf.List(obs[qi])))
		}
		term = cf.App("CaseMulti", tr, corpus, cf.List(qs))
	}
	return vh.Result{
		Term:       term,
		Nontrivial: first > 0 && first < len(nums),
		Class:      class,
		Hist:       hist,
	}
}

// repeatedTermLeaf: some (field, term) occurs in at least two term leaves of the query tree.
func repeatedTermLeaf(q *QN) bool {
	seen := map[string]int{}
	rep := false
	q.any(func(n *QN) bool {
		if n.K == "term" {
			seen[n.F+"\x00"+n.T]++
			if seen[n.F+"\x00"+n.T] > 1 {
				rep = true
			}
		}
		return false
	})
	return rep
}

func main() {
	// one coqc start-up per shard: small shards for the quick tier (all evaluated in parallel),
	// large ones for the thorough tier
	shard := 40
	for i, a := range os.Args {
		if (a == "-tier" || a == "--tier") && i+1 < len(os.Args) && os.Args[i+1] == "thorough" {
			shard = 400
		}
		if a == "-tier=thorough" || a == "--tier=thorough" {
			shard = 400
		}
	}
	vh.Main(vh.Config{
		Property:  "C02",
		Imports:   []string{"Common.Bytes", "Numeric.Model", "Cursor.Sem", "Cursor.SemCorr"},
		CaseType:  "SemCorr.case",
		CheckFn:   "SemCorr.check",
		ExplainFn: "SemCorr.explain",
		Rule: "random indexing histories (5-40 documents over a 6-10 word vocabulary; keyword and whitespace+lowercase text fields, " +
			"array values, numeric/date/bool fields; batches with updates and deletes) on scorch in-memory, scorch on-disk and upsidedown; " +
			"half of the scorch cases on a non-default index configuration (kvconfig fieldTFRCacheThreshold 1 / 10 / 1000 as int or float64 = the term-field-reader recycle cache, unsafe_batch, numSnapshotsToKeep, persister nap and merge-plan options); " +
			"read-only schedules (2-3 queries touching one field, searched in 2-3 rounds on the same index with no write in between, every search under the 8 option combinations, each answer judged by sem); " +
			"random query trees to depth 4 over the whole family that pass Validate() (disjunction / should minimums 0, 0.5, 1, 1.5, 2, ..., n and the negative ones -0.5, -1, -2, -1000000); single leaves of every kind; term-only compounds and " +
			"single-posting terms in force-merged on-disk segments; directed stream 'wide disjunction under a sparse clause' (11-14 terms sharing a " +
			"prefix spread over 14-24 documents in several segments, reached by prefix/wildcard/regexp/term-range/fuzzy/match-OR or an explicit " +
			"11-14-way disjunction, used as must-not / should(min>=1) / filter / conjunct next to a clause matching 1-3 scattered documents; all " +
			"three engine configurations); directed stream 'merged, then appended' (on-disk scorch: batches, ForceMerge, further unmerged batches; " +
			"conjunctions / must lists / filter clauses over a word with one posting in the merged segment and a common word, with matches in the " +
			"last batch); regression cases for three fixed defects (must+should(min>=1) over terms, regexp alternations on upsidedown, empty prefix " +
			"on upsidedown); " +
			"(thorough) every tree of depth <= 2 over 3 leaves; each searched under the 8 (score, locations, explain) combinations with Size 100; " +
			"a case is non-trivial when the default-options search returns some but not all live documents",
		ShardSize: shard,
	}, gen, exec)
}
