// C10 correspondence harness: facet results of Index.Search on real indexes (scorch in-memory and
// upsidedown) under many (Size, From, Sort, SearchAfter) settings, handed to the Coq model of the
// facet builders together with the field values of the documents the implementation itself
// reports as matching.  The harness computes no expected facet: the oracle is Collect/Facets.v.
package main

import (
	"fmt"
	"math"
	"math/big"
	"sort"
	"strings"
	"time"

	"github.com/blevesearch/bleve/v2"
	"github.com/blevesearch/bleve/v2/index/scorch"
	"github.com/blevesearch/bleve/v2/index/upsidedown"
	"github.com/blevesearch/bleve/v2/index/upsidedown/store/gtreap"
	"github.com/blevesearch/bleve/v2/mapping"
	"github.com/blevesearch/bleve/v2/search/query"

	cf "verifharness/internal/coqfmt"
	"verifharness/internal/vh"
	"verifharness/internal/vrand"
)

// ---------------------------------------------------------------- inputs

type DocIn struct {
	ID    string   `json:"id"`
	Del   bool     `json:"del,omitempty"` // delete this id instead of indexing
	Q     string   `json:"q,omitempty"`
	W     []string `json:"w,omitempty"`
	Tags  []string `json:"tags,omitempty"`  // keyword-analysed text facet field (absent when empty)
	Nums  []uint64 `json:"nums,omitempty"`  // float64 bit patterns
	Dates []int64  `json:"dates,omitempty"` // UnixNano
}

type QueryIn struct {
	Kind    string   `json:"kind"` // all | none | term | bool | disj
	Must    string   `json:"must,omitempty"`
	Should  []string `json:"should,omitempty"`
	MustNot string   `json:"must_not,omitempty"`
}

type AltIn struct {
	Start bool   `json:"start,omitempty"`
	Lit   string `json:"lit"`
	End   bool   `json:"end,omitempty"`
}

type TimeIn struct {
	Sec  int64 `json:"sec"`
	Nsec int64 `json:"nsec"`
}

type RangeIn struct {
	Name  string  `json:"name"`
	Min   *uint64 `json:"min,omitempty"` // numeric: float bits
	Max   *uint64 `json:"max,omitempty"`
	Start *TimeIn `json:"start,omitempty"` // date
	End   *TimeIn `json:"end,omitempty"`
}

type FacetIn struct {
	Kind   string    `json:"kind"` // terms | num | date
	Size   int       `json:"size"`
	Prefix string    `json:"prefix,omitempty"`
	Alts   []AltIn   `json:"alts,omitempty"`
	Ranges []RangeIn `json:"ranges,omitempty"`
}

type RunIn struct {
	Size        int       `json:"size"`
	From        int       `json:"from"`
	Sort        []string  `json:"sort,omitempty"`
	SearchAfter []string  `json:"search_after,omitempty"`
	Facets      []FacetIn `json:"facets"`
}

type In struct {
	Engine    string  `json:"engine"`
	DocValues bool    `json:"docvalues"` // doc values persisted for the facet fields (else: uninverted at search time)
	Batch     int     `json:"batch"`
	Ops       []DocIn `json:"ops"`
	Query     QueryIn `json:"query"`
	Runs      []RunIn `json:"runs"`
}

// ---------------------------------------------------------------- generation

var tagPool = []string{"a", "ab", "abc", "abd", "b", "ba", "bar", "baz", "c", "ca", "cab", "foo", "x1", "x2", "x10"}
var wPool = []string{"x", "y", "z"}

func floatBits(r *vrand.R) uint64 {
	switch r.Intn(8) {
	case 0:
		return math.Float64bits(float64(r.Range(-5, 5)) / 2)
	case 1:
		return math.Float64bits(float64(r.Range(-3, 12)))
	case 2:
		return math.Float64bits(float64(r.Range(-100, 100)) * 1.25)
	case 3:
		return vrand.Pick(r, []uint64{0, 0x8000000000000000, math.Float64bits(math.Inf(1)), math.Float64bits(math.Inf(-1)),
			math.Float64bits(math.MaxFloat64), 1, math.Float64bits(1e-300), math.Float64bits(-1e300)})
	default:
		return math.Float64bits(float64(r.Range(0, 9)))
	}
}

func neighbour(r *vrand.R, b uint64) uint64 {
	// a value one or two ulps away (generation only)
	if b&0x7ff0000000000000 == 0x7ff0000000000000 {
		return b
	}
	d := uint64(r.Range(1, 2))
	if r.Bool() || b&0x7fffffffffffffff < d {
		return b + d
	}
	return b - d
}

func gen(f vh.Flags, r *vrand.R, emit func(In)) {
	n := f.N(300, 15000)
	for k := 0; k < n; k++ {
		emit(genCase(r.Fork(), k))
	}
}

func genCase(r *vrand.R, k int) In {
	in := In{Engine: "scorch", DocValues: !r.Chance(1, 3)}
	if k%3 == 2 {
		in.Engine = "upsidedown"
	}
	// vocabularies
	tags := append([]string{}, tagPool...)
	vrand.Shuffle(r, tags)
	tags = tags[:r.Range(2, 9)]
	nums := make([]uint64, r.Range(2, 6))
	for i := range nums {
		nums[i] = floatBits(r)
	}
	base := int64(r.Range(-3, 40)) * 86400 * 365 * 1_000_000_000
	dates := make([]int64, r.Range(2, 6))
	for i := range dates {
		switch r.Intn(4) {
		case 0:
			dates[i] = base + int64(r.Range(-3, 3))
		case 1:
			dates[i] = base + int64(r.Range(-5, 5))*1_000_000_000
		case 2:
			dates[i] = base + int64(r.Range(-5, 5))*86400*1_000_000_000
		default:
			dates[i] = base + int64(r.Range(-2000, 2000))*1_000_003
		}
	}
	mkDoc := func(id string) DocIn {
		d := DocIn{ID: id, Q: vrand.Pick(r, []string{"a", "a", "b", "b", "c"})}
		for _, w := range wPool {
			if r.Chance(2, 5) {
				d.W = append(d.W, w)
			}
		}
		if !r.Chance(1, 5) {
			m := 1
			if r.Chance(1, 2) {
				m = r.Range(1, 4)
			}
			for j := 0; j < m; j++ {
				d.Tags = append(d.Tags, vrand.Pick(r, tags))
			}
			if r.Chance(1, 6) {
				d.Tags = append(d.Tags, d.Tags[0]) // the same value twice in one document
			}
		}
		if !r.Chance(1, 4) {
			m := 1
			if r.Chance(1, 2) {
				m = r.Range(1, 3)
			}
			for j := 0; j < m; j++ {
				v := vrand.Pick(r, nums)
				if r.Chance(1, 6) {
					v = neighbour(r, v)
				}
				d.Nums = append(d.Nums, v)
			}
			if r.Chance(1, 8) {
				d.Nums = append(d.Nums, d.Nums[0])
			}
		}
		if !r.Chance(1, 4) {
			m := 1
			if r.Chance(1, 3) {
				m = 2
			}
			for j := 0; j < m; j++ {
				d.Dates = append(d.Dates, vrand.Pick(r, dates))
			}
			if r.Chance(1, 8) {
				d.Dates = append(d.Dates, d.Dates[0])
			}
		}
		return d
	}
	nd := r.Range(5, 40)
	if r.Bool() {
		nd = r.Range(5, 16)
	}
	for i := 0; i < nd; i++ {
		in.Ops = append(in.Ops, mkDoc(fmt.Sprintf("d%03d", i)))
	}
	for j := r.Range(0, nd/3); j > 0; j-- {
		id := fmt.Sprintf("d%03d", r.Intn(nd))
		if r.Chance(1, 3) {
			in.Ops = append(in.Ops, DocIn{ID: id, Del: true})
		} else {
			in.Ops = append(in.Ops, mkDoc(id))
		}
	}
	in.Batch = vrand.Pick(r, []int{1, 2, 3, 5, 8, 100})

	switch r.Intn(16) {
	case 0, 1, 2, 3, 4:
		in.Query = QueryIn{Kind: "all"}
	case 5, 6, 7, 8:
		in.Query = QueryIn{Kind: "term", Must: vrand.Pick(r, []string{"a", "b"})}
	case 9, 10, 11:
		q := QueryIn{Kind: "bool", Must: vrand.Pick(r, []string{"a", "b"})}
		if r.Bool() {
			q.Should = []string{vrand.Pick(r, wPool)}
		}
		if r.Chance(1, 2) {
			q.MustNot = vrand.Pick(r, wPool)
		}
		in.Query = q
	case 12, 13:
		ws := append([]string{}, wPool...)
		vrand.Shuffle(r, ws)
		in.Query = QueryIn{Kind: "disj", Should: ws[:r.Range(1, 2)]}
	case 14:
		in.Query = QueryIn{Kind: "term", Must: "c"}
	default:
		if r.Chance(1, 2) {
			in.Query = QueryIn{Kind: "none"}
		} else {
			in.Query = QueryIn{Kind: "all"}
		}
	}

	optBits := func() *uint64 {
		v := vrand.Pick(r, nums)
		if r.Chance(1, 4) {
			v = neighbour(r, v)
		}
		if r.Chance(1, 6) {
			v = floatBits(r)
		}
		return &v
	}
	optTime := func() *TimeIn {
		if r.Chance(1, 12) {
			// outside the int64-nanosecond window (years 1500 / 2500)
			return &TimeIn{Sec: vrand.Pick(r, []int64{-14831769600, 16725225600}), Nsec: int64(r.Intn(3))}
		}
		ns := vrand.Pick(r, dates)
		switch r.Intn(4) {
		case 0:
			ns += int64(r.Range(-2, 2))
		case 1:
			ns += int64(r.Range(-3, 3)) * 1_000_000_000
		}
		sec := ns / 1_000_000_000
		nsec := ns % 1_000_000_000
		if nsec < 0 {
			nsec += 1_000_000_000
			sec--
		}
		return &TimeIn{Sec: sec, Nsec: nsec}
	}
	rangeNames := []string{"lo", "mid", "hi", "all", "b1", "b2", "zz"}
	mkFacet := func() FacetIn {
		fi := FacetIn{Size: vrand.Pick(r, []int{0, 1, 1, 2, 2, 3, 4, 5, 7, 20})}
		switch r.Intn(5) {
		case 0, 1:
			fi.Kind = "terms"
			if r.Chance(2, 5) {
				t := vrand.Pick(r, tags)
				fi.Prefix = t[:r.Range(1, len(t))]
				if r.Chance(1, 8) {
					fi.Prefix = "zz"
				}
			}
			if r.Chance(1, 3) {
				for j := r.Range(1, 3); j > 0; j-- {
					t := vrand.Pick(r, tagPool)
					a := r.Intn(len(t))
					b := r.Range(a+1, len(t))
					fi.Alts = append(fi.Alts, AltIn{Start: r.Chance(1, 2), Lit: t[a:b], End: r.Chance(1, 2)})
				}
			}
		case 2, 3:
			fi.Kind = "num"
			names := append([]string{}, rangeNames...)
			vrand.Shuffle(r, names)
			for j, m := 0, r.Range(1, 5); j < m; j++ {
				rg := RangeIn{Name: names[j]}
				switch r.Intn(5) {
				case 0:
					rg.Min = optBits()
				case 1:
					rg.Max = optBits()
				default:
					rg.Min, rg.Max = optBits(), optBits()
					if r.Chance(4, 5) && fkey(*rg.Min) > fkey(*rg.Max) {
						rg.Min, rg.Max = rg.Max, rg.Min
					}
				}
				fi.Ranges = append(fi.Ranges, rg)
			}
		default:
			fi.Kind = "date"
			names := append([]string{}, rangeNames...)
			vrand.Shuffle(r, names)
			for j, m := 0, r.Range(1, 4); j < m; j++ {
				rg := RangeIn{Name: names[j]}
				switch r.Intn(5) {
				case 0:
					rg.Start = optTime()
				case 1:
					rg.End = optTime()
				default:
					rg.Start, rg.End = optTime(), optTime()
					if r.Chance(4, 5) && (rg.Start.Sec > rg.End.Sec || (rg.Start.Sec == rg.End.Sec && rg.Start.Nsec > rg.End.Nsec)) {
						rg.Start, rg.End = rg.End, rg.Start
					}
				}
				fi.Ranges = append(fi.Ranges, rg)
			}
		}
		return fi
	}
	sorts := [][]string{nil, nil, {"-_id"}, {"_id"}, {"tag", "_id"}, {"-tag", "-_id"}, {"-n", "_id"}, {"n"}, {"dt", "-_id"}, {"-_score", "_id"}, {"q", "tag", "n"}}
	for j, m := 0, r.Range(2, 4); j < m; j++ {
		ru := RunIn{
			Size: vrand.Pick(r, []int{0, 1, 2, 3, 4, 6, nd, nd + 7}),
			From: vrand.Pick(r, []int{0, 0, 0, 1, 3, 11, nd}),
			Sort: vrand.Pick(r, sorts),
		}
		if r.Chance(1, 8) {
			ru.From = 0
			ru.Sort = vrand.Pick(r, [][]string{{"_id"}, {"-_id"}})
			ru.SearchAfter = []string{fmt.Sprintf("d%03d", r.Intn(nd))}
		}
		for x, nf := 0, r.Range(2, 3); x < nf; x++ {
			ru.Facets = append(ru.Facets, mkFacet())
		}
		in.Runs = append(in.Runs, ru)
	}
	return in
}

// fkey orders float bit patterns as numbers (generation only).
func fkey(b uint64) int64 {
	i := int64(b)
	if i < 0 {
		i ^= 0x7fffffffffffffff
	}
	return i
}

// ---------------------------------------------------------------- execution

func buildMapping(dv bool) mapping.IndexMapping {
	m := bleve.NewIndexMapping()
	dm := bleve.NewDocumentStaticMapping()
	kw := func(docvalues bool) *mapping.FieldMapping {
		f := bleve.NewKeywordFieldMapping()
		f.Store = false
		f.IncludeInAll = false
		f.IncludeTermVectors = false
		f.DocValues = docvalues
		return f
	}
	dm.AddFieldMappingsAt("q", kw(true))
	dm.AddFieldMappingsAt("w", kw(true))
	dm.AddFieldMappingsAt("tag", kw(dv))
	nf := bleve.NewNumericFieldMapping()
	nf.Store = false
	nf.IncludeInAll = false
	nf.DocValues = dv
	dm.AddFieldMappingsAt("n", nf)
	df := bleve.NewDateTimeFieldMapping()
	df.Store = false
	df.IncludeInAll = false
	df.DocValues = dv
	dm.AddFieldMappingsAt("dt", df)
	m.DefaultMapping = dm
	return m
}

func newIndex(engine string, m mapping.IndexMapping) (bleve.Index, error) {
	if engine == "upsidedown" {
		return bleve.NewUsing("", m, upsidedown.Name, gtreap.Name, nil)
	}
	return bleve.NewUsing("", m, scorch.Name, scorch.Name, nil)
}

func docBody(d DocIn) map[string]interface{} {
	body := map[string]interface{}{"q": d.Q}
	if len(d.W) > 0 {
		var v []interface{}
		for _, x := range d.W {
			v = append(v, x)
		}
		body["w"] = v
	}
	if len(d.Tags) > 0 {
		var v []interface{}
		for _, x := range d.Tags {
			v = append(v, x)
		}
		body["tag"] = v
	}
	if len(d.Nums) > 0 {
		var v []interface{}
		for _, x := range d.Nums {
			v = append(v, math.Float64frombits(x))
		}
		body["n"] = v
	}
	if len(d.Dates) > 0 {
		var v []interface{}
		for _, x := range d.Dates {
			v = append(v, time.Unix(0, x).UTC())
		}
		body["dt"] = v
	}
	return body
}

func termQ(field, term string) query.Query {
	q := bleve.NewTermQuery(term)
	q.SetField(field)
	return q
}

func buildQuery(q QueryIn) query.Query {
	switch q.Kind {
	case "none":
		return bleve.NewMatchNoneQuery()
	case "term":
		return termQ("q", q.Must)
	case "bool":
		b := bleve.NewBooleanQuery()
		b.AddMust(termQ("q", q.Must))
		for _, s := range q.Should {
			b.AddShould(termQ("w", s))
		}
		if q.MustNot != "" {
			b.AddMustNot(termQ("w", q.MustNot))
		}
		return b
	case "disj":
		var qs []query.Query
		for _, s := range q.Should {
			qs = append(qs, termQ("w", s))
		}
		return bleve.NewDisjunctionQuery(qs...)
	}
	return bleve.NewMatchAllQuery()
}

func (t *TimeIn) time() time.Time {
	if t == nil {
		return time.Time{}
	}
	return time.Unix(t.Sec, t.Nsec).UTC()
}

func (t *TimeIn) coq() cf.T {
	if t == nil {
		return cf.None
	}
	v := new(big.Int).Mul(big.NewInt(t.Sec), big.NewInt(1_000_000_000))
	v.Add(v, big.NewInt(t.Nsec))
	if v.Sign() < 0 {
		return cf.Some(cf.T("(" + v.String() + ")"))
	}
	return cf.Some(cf.T(v.String()))
}

func pattern(alts []AltIn) string {
	var ps []string
	for _, a := range alts {
		p := a.Lit
		if a.Start {
			p = "^" + p
		}
		if a.End {
			p += "$"
		}
		ps = append(ps, p)
	}
	return strings.Join(ps, "|")
}

func facetRequest(fi FacetIn) *bleve.FacetRequest {
	switch fi.Kind {
	case "num":
		fr := bleve.NewFacetRequest("n", fi.Size)
		for _, rg := range fi.Ranges {
			var mn, mx *float64
			if rg.Min != nil {
				v := math.Float64frombits(*rg.Min)
				mn = &v
			}
			if rg.Max != nil {
				v := math.Float64frombits(*rg.Max)
				mx = &v
			}
			fr.AddNumericRange(rg.Name, mn, mx)
		}
		return fr
	case "date":
		fr := bleve.NewFacetRequest("dt", fi.Size)
		for _, rg := range fi.Ranges {
			fr.AddDateTimeRange(rg.Name, rg.Start.time(), rg.End.time())
		}
		return fr
	}
	fr := bleve.NewFacetRequest("tag", fi.Size)
	if fi.Prefix != "" {
		fr.SetPrefixFilter(fi.Prefix)
	}
	if len(fi.Alts) > 0 {
		fr.SetRegexFilter(pattern(fi.Alts))
	}
	return fr
}

func optU(p *uint64) cf.T { return cf.Opt(p, func(u uint64) cf.T { return cf.U(u) }) }

func observed(fi FacetIn, res *bleve.SearchResult, name string) (cf.T, bool) {
	fr, ok := res.Facets[name]
	if !ok || fr == nil {
		return "", false
	}
	var es []cf.T
	switch fi.Kind {
	case "num":
		for _, e := range fr.NumericRanges {
			es = append(es, cf.Pair(cf.Str(e.Name), cf.Int(e.Count)))
		}
	case "date":
		for _, e := range fr.DateRanges {
			es = append(es, cf.Pair(cf.Str(e.Name), cf.Int(e.Count)))
		}
	default:
		for _, e := range fr.Terms.Terms() {
			es = append(es, cf.Pair(cf.Str(e.Term), cf.Int(e.Count)))
		}
	}
	return cf.App("Build_facet_result", cf.List(es), cf.Int(fr.Total), cf.Int(fr.Missing), cf.Int(fr.Other)), true
}

func runTerm(fi FacetIn, obs cf.T) cf.T {
	switch fi.Kind {
	case "num":
		return cf.App("RNum", cf.Int(fi.Size), cf.ListOf(fi.Ranges, func(rg RangeIn) cf.T {
			return cf.App("Build_nrange", cf.Str(rg.Name), optU(rg.Min), optU(rg.Max))
		}), obs)
	case "date":
		return cf.App("RDate", cf.Int(fi.Size), cf.ListOf(fi.Ranges, func(rg RangeIn) cf.T {
			return cf.App("Build_drange", cf.Str(rg.Name), rg.Start.coq(), rg.End.coq())
		}), obs)
	}
	rx := cf.None
	if len(fi.Alts) > 0 {
		rx = cf.Some(cf.ListOf(fi.Alts, func(a AltIn) cf.T {
			return cf.App("Build_ralt", cf.Bool(a.Start), cf.Str(a.Lit), cf.Bool(a.End))
		}))
	}
	return cf.App("RTerms", cf.Int(fi.Size), cf.Str(fi.Prefix), rx, obs)
}

func matchBucket(n int) string {
	switch {
	case n == 0:
		return "0"
	case n < 4:
		return "1-3"
	case n < 8:
		return "4-7"
	case n < 16:
		return "8-15"
	}
	return "16+"
}

func fail(kind, detail string) vh.Result {
	return vh.Result{Direct: &vh.Direct{Kind: kind, Detail: detail}}
}

func exec(in In) vh.Result {
	idx, err := newIndex(in.Engine, buildMapping(in.DocValues))
	if err != nil {
		return fail("error", err.Error())
	}
	defer idx.Close()

	// index; the harness' own record of what each live document holds
	live := map[string]DocIn{}
	bs := in.Batch
	if bs < 1 {
		bs = 1
	}
	b := idx.NewBatch()
	for i, op := range in.Ops {
		if op.Del {
			b.Delete(op.ID)
			delete(live, op.ID)
		} else {
			if err := b.Index(op.ID, docBody(op)); err != nil {
				return fail("error", "Batch.Index: "+err.Error())
			}
			live[op.ID] = op
		}
		if (i+1)%bs == 0 {
			if err := idx.Batch(b); err != nil {
				return fail("error", "Batch: "+err.Error())
			}
			b = idx.NewBatch()
		}
	}
	if err := idx.Batch(b); err != nil {
		return fail("error", "Batch: "+err.Error())
	}

	var res *bleve.SearchResult
	var serr error
	search := func(req *bleve.SearchRequest) *vh.Direct {
		return vh.Guard(30*time.Second, "Search", func() { res, serr = idx.Search(req) })
	}

	// the matching documents, from the implementation's own hit list with Size = all
	q := buildQuery(in.Query)
	all := bleve.NewSearchRequestOptions(q, len(in.Ops)+10, 0, false)
	if d := search(all); d != nil {
		return vh.Result{Direct: d}
	}
	if serr != nil {
		return fail("error", "Search(all): "+serr.Error())
	}
	if int(res.Total) != len(res.Hits) {
		return fail("error", fmt.Sprintf("Size=all search returned %d hits but Total=%d", len(res.Hits), res.Total))
	}
	var ids []string
	for _, h := range res.Hits {
		if _, ok := live[h.ID]; !ok {
			return fail("error", "hit for a document the harness does not hold: "+h.ID)
		}
		ids = append(ids, h.ID)
	}
	sort.Strings(ids)
	nm := len(ids)
	var tv, nv, dv []cf.T
	distinctTags := map[string]bool{}
	for _, id := range ids {
		d := live[id]
		tv = append(tv, cf.ListOf(d.Tags, cf.Str))
		nv = append(nv, cf.ListOf(d.Nums, cf.U))
		dv = append(dv, cf.ListOf(d.Dates, cf.Z))
		for _, t := range d.Tags {
			distinctTags[t] = true
		}
	}

	hist := []string{"engine:" + in.Engine, fmt.Sprintf("docvalues:%v", in.DocValues), "query:" + in.Query.Kind,
		"matches:" + matchBucket(nm)}
	var runs []cf.T
	partial := false
	for ri, ru := range in.Runs {
		req := bleve.NewSearchRequestOptions(q, ru.Size, ru.From, false)
		if len(ru.Sort) > 0 {
			req.SortBy(ru.Sort)
		}
		if len(ru.SearchAfter) > 0 {
			req.SetSearchAfter(ru.SearchAfter)
		}
		for fi, fin := range ru.Facets {
			req.AddFacet(fmt.Sprintf("f%d", fi), facetRequest(fin))
		}
		if d := search(req); d != nil {
			d.Detail = fmt.Sprintf("run %d: %s", ri, d.Detail)
			return vh.Result{Direct: d}
		}
		if serr != nil {
			return fail("error", fmt.Sprintf("run %d: Search: %v", ri, serr))
		}
		if int(res.Total) != nm {
			return fail("error", fmt.Sprintf("run %d: Total=%d but the Size=all search matched %d", ri, res.Total, nm))
		}
		if ru.Size+ru.From < nm || len(ru.SearchAfter) > 0 {
			partial = true
			hist = append(hist, "page:partial")
		} else {
			hist = append(hist, "page:all")
		}
		if len(ru.SearchAfter) > 0 {
			hist = append(hist, "page:search_after")
		}
		if len(ru.Sort) > 0 {
			hist = append(hist, "sort:"+strings.Join(ru.Sort, ","))
		} else {
			hist = append(hist, "sort:default")
		}
		for fi, fin := range ru.Facets {
			obs, ok := observed(fin, res, fmt.Sprintf("f%d", fi))
			if !ok {
				return fail("error", fmt.Sprintf("run %d: facet f%d missing from SearchResult.Facets", ri, fi))
			}
			runs = append(runs, runTerm(fin, obs))
			nb := len(fin.Ranges)
			if fin.Kind == "terms" {
				nb = len(distinctTags)
				if fin.Prefix != "" {
					hist = append(hist, "terms:prefix")
				}
				if len(fin.Alts) > 0 {
					hist = append(hist, "terms:regex")
				}
			}
			rel := "="
			if fin.Size < nb {
				rel = "<"
			} else if fin.Size > nb {
				rel = ">"
			}
			hist = append(hist, "facet:"+fin.Kind, fin.Kind+":size"+rel+"buckets")
		}
	}
	term := cf.App("Case", cf.List(tv), cf.List(nv), cf.List(dv), cf.List(runs))
	return vh.Result{Term: term, Nontrivial: nm > 0 && partial, Hist: hist}
}

func main() {
	vh.Main(vh.Config{
		Property:  "C10",
		Imports:   []string{"Common.Bytes", "Numeric.Model", "Collect.Facets", "Collect.FacetsCorr"},
		CaseType:  "FacetsCorr.case",
		CheckFn:   "FacetsCorr.check",
		ExplainFn: "FacetsCorr.explain",
		Rule: "one case = one corpus (5-40 documents plus re-indexed and deleted ids, batches of 1..100; keyword text facet field `tag`, numeric `n`, datetime `dt`, " +
			"each single-/multi-valued/absent, sometimes the same value twice; facet fields with and without persisted doc values) on scorch (in-memory) or upsidedown, " +
			"one query (match-all, match-none, term, boolean must/should/must-not, disjunction) and 2-4 runs, each a (Size, From, Sort, SearchAfter) setting with 2-3 facet requests " +
			"(terms with optional prefix and/or regexp filter of the modelled class; numeric ranges with open ends, 1-2 ulp neighbours of values, +-Inf, -0; date ranges incl. bounds outside the int64-ns window; " +
			"facet sizes 0..20, i.e. below, at and above the bucket count; several facets on the same field). Matching documents = the implementation's own hit list with Size=all; " +
			"non-trivial: at least one match and at least one run whose page holds fewer hits than there are matches (Size+From < matches, or search-after)",
		ShardSize: 20,
	}, gen, exec)
}
