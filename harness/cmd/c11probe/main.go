package main

import (
	"fmt"
	"os"

	"github.com/blevesearch/bleve/v2"
	"github.com/blevesearch/bleve/v2/index/scorch"
	"github.com/blevesearch/bleve/v2/index/upsidedown"
)

func try(name string, mk func() (bleve.Index, error)) {
	defer func() {
		if e := recover(); e != nil {
			fmt.Println(name, "PANIC:", e)
		}
	}()
	idx, err := mk()
	if err != nil {
		fmt.Println(name, "open err", err)
		return
	}
	fmt.Println(name, "close1:", idx.Close())
	fmt.Println(name, "close2:", idx.Close())
	_, err = idx.DocCount()
	fmt.Println(name, "doccount after:", err)
	fmt.Println(name, "stats after:", idx.StatsMap() != nil, idx.Stats() != nil)
	adv, err := idx.Advanced()
	fmt.Println(name, "advanced after:", adv != nil, err)
}

func main() {
	os.RemoveAll("/tmp/vh_c11_probe")
	os.MkdirAll("/tmp/vh_c11_probe", 0o755)
	defer os.RemoveAll("/tmp/vh_c11_probe")
	try("scorch-disk", func() (bleve.Index, error) {
		return bleve.NewUsing("/tmp/vh_c11_probe/a", bleve.NewIndexMapping(), scorch.Name, scorch.Name, nil)
	})
	try("scorch-mem", func() (bleve.Index, error) {
		return bleve.NewUsing("", bleve.NewIndexMapping(), scorch.Name, scorch.Name, nil)
	})
	try("udc-gtreap", func() (bleve.Index, error) { return bleve.NewMemOnly(bleve.NewIndexMapping()) })
	try("udc-moss", func() (bleve.Index, error) {
		return bleve.NewUsing("", bleve.NewIndexMapping(), upsidedown.Name, "moss", map[string]interface{}{})
	})
	try("udc-bolt", func() (bleve.Index, error) {
		return bleve.NewUsing("/tmp/vh_c11_probe/b", bleve.NewIndexMapping(), upsidedown.Name, "boltdb", nil)
	})
}
