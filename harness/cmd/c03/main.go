// C03 harness: crash injection.  A child process (this same binary, VH_CHILD set) runs a seeded
// workload of tagged batches on a disk-backed scorch index, streaming every hook event and its
// own acknowledgement notes to the parent; its controller kills the process (os.Exit) at the
// n-th occurrence of a chosen hook point.  The parent then reopens the directory in further
// child sessions (observe, write more, crash again or close), and hands the whole multi-session
// event stream to the Coq persistence model (Scorch/Disk.v): every event must be accepted, what
// each reopen shows must be what the model recovers — a whole-batch prefix containing every
// acknowledged batch.
package main

import (
	"bufio"
	"encoding/json"
	"fmt"
	"os"
	"os/exec"
	"path/filepath"
	"sort"
	"strings"
	"sync"
	"time"

	"github.com/blevesearch/bleve/v2"
	"github.com/blevesearch/bleve/v2/index/scorch"

	cf "verifharness/internal/coqfmt"
	"verifharness/internal/strace"
	"verifharness/internal/sw"
	"verifharness/internal/vh"
	"verifharness/internal/vrand"
)

type Crash struct {
	Point string `json:"point"`
	Occ   int    `json:"occ"`
}

type Session struct {
	Batches    [][]sw.Op `json:"batches"`
	ForceMerge []int     `json:"force_merge,omitempty"` // after these batch indices
	PauseUS    int       `json:"pause_us,omitempty"`
	Crash      *Crash    `json:"crash,omitempty"` // nil = clean Close at the end
	Garble     bool      `json:"garble,omitempty"` // after this session: damage every segment file no committed snapshot names
}

type In struct {
	Layout   sw.Layout `json:"layout"`
	NIDs     int       `json:"nids"`
	Sessions []Session `json:"sessions"`
}

type childSpec struct {
	Path    string    `json:"path"`
	Layout  sw.Layout `json:"layout"`
	NIDs    int       `json:"nids"`
	Session Session   `json:"session"`
	TagBase int64     `json:"tag_base"`
	First   bool      `json:"first"`
}

var points = []string{"introduce", "merge_finish", "persist_intro", "merge_start", "persist_pick", "segfile_written",
	"persist_prepared", "persist_introduced", "persist_before_commit", "persist_committed", "persist_synced",
	"persist_release_waiters", "memmerge_written", "memmerge_introduced", "filemerge_written", "filemerge_introduced",
	"purge_bolt_begin", "purge_bolt_committed", "zap_remove", "batch_send", "batch_applied", "batch_persisted"}

func genBatches(r *vrand.R, nids int, nb int, ver *int64) [][]sw.Op {
	var bs [][]sw.Op
	for i := 0; i < nb; i++ {
		var ops []sw.Op
		for j := r.Range(1, 4); j > 0; j-- {
			*ver++
			if r.Chance(3, 4) {
				ops = append(ops, sw.Op{Kind: "index", ID: r.Intn(nids), Ver: *ver})
			} else {
				ops = append(ops, sw.Op{Kind: "delete", ID: r.Intn(nids)})
			}
		}
		bs = append(bs, ops)
	}
	return bs
}

func gen(f vh.Flags, r *vrand.R, emit func(In)) {
	n := f.N(44, 1500)
	for k := 0; k < n; k++ {
		nids := r.Range(3, 6)
		var ver int64
		in := In{NIDs: nids, Layout: sw.Layout{Config: "scorch-disk", Opts: r.Intn(5), Unsafe: r.Chance(1, 3)}}
		if r.Chance(1, 4) {
			in.Layout.Keep = r.Range(1, 3)
		}
		pt := points[k%len(points)] // every point is hit on every run of the quick tier
		occ := 1
		switch r.Intn(3) {
		case 1:
			occ = r.Range(2, 4)
		case 2:
			occ = r.Range(3, 12)
		}
		s1 := Session{Batches: genBatches(r, nids, r.Range(4, 12), &ver), PauseUS: vrand.Pick(r, []int{0, 200, 2000}), Crash: &Crash{pt, occ}, Garble: r.Chance(1, 3)}
		for i := range s1.Batches {
			if r.Chance(1, 4) {
				s1.ForceMerge = append(s1.ForceMerge, i)
			}
		}
		s2 := Session{Batches: genBatches(r, nids, r.Range(2, 6), &ver), PauseUS: 200}
		if r.Chance(1, 2) {
			s2.Crash = &Crash{vrand.Pick(r, points), r.Range(1, 5)}
		}
		in.Sessions = []Session{s1, s2, {}}
		emit(in)
	}
}

// ---------------------------------------------------------------- child

func childMain(specJSON string) {
	var spec childSpec
	if err := json.Unmarshal([]byte(specJSON), &spec); err != nil {
		fmt.Fprintln(os.Stderr, "child: bad spec:", err)
		os.Exit(2)
	}
	out := bufio.NewWriter(os.Stdout)
	var mu sync.Mutex
	emit := func(ev *scorch.VerifEvent) {
		b, _ := json.Marshal(ev)
		out.Write(b)
		out.WriteByte('\n')
		out.Flush()
	}
	armed := false
	mappingPersisted := make(chan struct{})
	var once sync.Once
	count := 0
	ctl := func(ev *scorch.VerifEvent) {
		mu.Lock()
		defer mu.Unlock()
		emit(ev)
		if ev.Kind == "point" && ev.Name == "persist_synced" {
			once.Do(func() { close(mappingPersisted) })
		}
		if !armed || spec.Session.Crash == nil {
			return
		}
		name := ev.Kind
		if ev.Kind == "point" {
			name = ev.Name
		}
		if name == spec.Session.Crash.Point {
			count++
			if count == spec.Session.Crash.Occ {
				os.Exit(3) // the process dies here: nothing after this point runs
			}
		}
	}
	note := func(ev *scorch.VerifEvent) {
		mu.Lock()
		emit(ev)
		mu.Unlock()
	}
	scorch.VerifSetController(ctl)
	var idx bleve.Index
	var err error
	if spec.First {
		idx, err = bleve.NewUsing(spec.Path, sw.Mapping(), scorch.Name, scorch.Name, sw.ScorchConfig(spec.Layout))
	} else {
		idx, err = bleve.OpenUsing(spec.Path, sw.ScorchConfig(spec.Layout))
	}
	if err != nil {
		fmt.Fprintln(os.Stderr, "child: open failed:", err)
		os.Exit(4)
	}
	if !spec.First {
		adv, _ := idx.Advanced()
		sc := adv.(*scorch.Scorch)
		eps, _ := sc.RootBoltSnapshotEpochs() // newest first
		var cur uint64
		for _, e := range eps {
			if e > cur {
				cur = e
			}
		}
		note(sw.Note("recover", cur))
		vs, err := sw.DocVersions(idx, spec.NIDs)
		if err != nil {
			fmt.Fprintln(os.Stderr, "child: observe failed:", err)
			os.Exit(5)
		}
		note(sw.ObserveNote(vs))
	}
	if spec.First {
		// a crash before the mapping written by bleve.New has been persisted is outside the
		// statement (with unsafe batches New returns before that): wait for the first commit
		select {
		case <-mappingPersisted:
		case <-time.After(20 * time.Second):
			fmt.Fprintln(os.Stderr, "child: the mapping was never persisted")
			os.Exit(9)
		}
	}
	mu.Lock()
	armed = true
	mu.Unlock()
	tg := sw.NewTagger()
	tg.Seq = spec.TagBase
	fm := map[int]bool{}
	for _, i := range spec.Session.ForceMerge {
		fm[i] = true
	}
	for i, ops := range spec.Session.Batches {
		b, seq, err := tg.Build(idx, ops, true)
		if err != nil {
			fmt.Fprintln(os.Stderr, "child: build:", err)
			os.Exit(6)
		}
		if spec.Layout.Unsafe {
			s := uint64(seq)
			b.SetPersistedCallback(func(err error) {
				if err == nil {
					note(sw.Note("ack", s))
				}
			})
		}
		if err := idx.Batch(b); err != nil {
			fmt.Fprintln(os.Stderr, "child: batch:", err)
			os.Exit(7)
		}
		if !spec.Layout.Unsafe {
			note(sw.Note("ack", uint64(seq)))
		}
		if fm[i] {
			sw.ForceMerge(idx)
		}
		if spec.Session.PauseUS > 0 {
			time.Sleep(time.Duration(spec.Session.PauseUS) * time.Microsecond)
		}
	}
	if len(spec.Session.Batches) > 0 {
		time.Sleep(15 * time.Millisecond) // let the persister / merger / purger run a little
	}
	if err := idx.Close(); err != nil {
		fmt.Fprintln(os.Stderr, "child: close:", err)
		os.Exit(8)
	}
	os.Exit(0)
}

// ---------------------------------------------------------------- parent

func runChild(spec childSpec) (evs []*scorch.VerifEvent, code int, stderr string, err error) {
	sj, _ := json.Marshal(spec)
	cmd := exec.Command(os.Args[0])
	cmd.Env = append(os.Environ(), "VH_CHILD="+string(sj))
	var eb strings.Builder
	cmd.Stderr = &eb
	pipe, err := cmd.StdoutPipe()
	if err != nil {
		return nil, -1, "", err
	}
	if err := cmd.Start(); err != nil {
		return nil, -1, "", err
	}
	done := make(chan struct{})
	go func() {
		sc := bufio.NewScanner(pipe)
		sc.Buffer(make([]byte, 1<<20), 1<<26)
		for sc.Scan() {
			var ev scorch.VerifEvent
			if json.Unmarshal(sc.Bytes(), &ev) == nil {
				evs = append(evs, &ev)
			}
		}
		close(done)
	}()
	timer := time.AfterFunc(60*time.Second, func() { _ = cmd.Process.Kill() })
	<-done
	werr := cmd.Wait()
	timer.Stop()
	code = 0
	if werr != nil {
		if ee, ok := werr.(*exec.ExitError); ok {
			code = ee.ExitCode()
		} else {
			return evs, -1, eb.String(), werr
		}
	}
	return evs, code, eb.String(), nil
}

// garble damages every .zap file that no committed bolt snapshot names (truncate, overwrite or
// leave an empty file): recovery must not depend on them.
func garble(storeDir string, r *vrand.R) (int, error) {
	named, _, err := sw.NamedFiles(storeDir)
	if err != nil {
		return 0, err
	}
	ents, err := os.ReadDir(storeDir)
	if err != nil {
		return 0, err
	}
	n := 0
	for _, e := range ents {
		if filepath.Ext(e.Name()) != ".zap" || named[e.Name()] {
			continue
		}
		p := filepath.Join(storeDir, e.Name())
		switch r.Intn(3) {
		case 0:
			err = os.Truncate(p, int64(r.Intn(20)))
		case 1:
			err = os.WriteFile(p, []byte("garbage garbage garbage"), 0o600)
		case 2:
			err = os.Remove(p)
		}
		if err != nil {
			return n, err
		}
		n++
	}
	return n, nil
}

func exec_(in In) vh.Result {
	dir, err := os.MkdirTemp("", "vh_c03_")
	if err != nil {
		return vh.Result{Direct: &vh.Direct{Kind: "error", Detail: err.Error()}}
	}
	defer os.RemoveAll(dir)
	path := dir + "/idx"
	var all []*scorch.VerifEvent
	tg := sw.NewTagger() // parent-side copy of the batch -> versions table (same tagging as the child)
	var tagBase int64
	crashes := 0
	hist := []string{}
	gr := vrand.New(uint64(len(in.Sessions))*7919 + uint64(in.NIDs))
	for si, s := range in.Sessions {
		spec := childSpec{Path: path, Layout: in.Layout, NIDs: in.NIDs, Session: s, TagBase: tagBase, First: si == 0}
		// mirror the child's tagging
		for _, ops := range s.Batches {
			tg.Seq++
			vers := map[string]int64{}
			for _, o := range ops {
				switch o.Kind {
				case "index":
					vers[sw.DocName(o.ID)] = o.Ver
				case "delete":
					delete(vers, sw.DocName(o.ID))
				}
			}
			tg.Vers[tg.Seq] = vers
		}
		tagBase = tg.Seq
		evs, code, stderr, err := runChild(spec)
		if err != nil {
			return vh.Result{Direct: &vh.Direct{Kind: "error", Detail: "child: " + err.Error()}}
		}
		all = append(all, evs...)
		switch code {
		case 0:
			hist = append(hist, "session:clean-close")
		case 3:
			crashes++
			hist = append(hist, "crash:"+s.Crash.Point)
		case 4:
			return vh.Result{Class: "reopen-failed", Direct: &vh.Direct{Kind: "reopen-failed",
				Detail: fmt.Sprintf("session %d: the index could not be opened after the previous session ended (%s): %s", si, describePrev(in, si), strings.TrimSpace(stderr))}}
		default:
			return vh.Result{Direct: &vh.Direct{Kind: "child-failed", Detail: fmt.Sprintf("session %d exit %d: %s", si, code, lastLines(stderr, 12))}}
		}
		all = append(all, sw.Note("crash")) // the process is gone (killed or closed): volatile state is lost
		if s.Garble && si+1 < len(in.Sessions) {
			if n, err := garble(path+"/store", gr); err != nil {
				return vh.Result{Direct: &vh.Direct{Kind: "error", Detail: "garble: " + err.Error()}}
			} else if n > 0 {
				hist = append(hist, "garbled-files")
			}
		}
	}
	// drop the trailing crash marker (nothing is reopened after the last session)
	all = all[:len(all)-1]
	namer := &strace.Namer{DocID: sw.DocNum}
	terms, stats := sw.DiskTerms(all, namer, tg.VersionOf)
	for k, v := range stats {
		if v > 0 {
			hist = append(hist, "ev:"+k)
		}
	}
	sort.Strings(hist)
	return vh.Result{Term: cf.App("CDisk", cf.List(terms)), Nontrivial: crashes > 0 && stats["commit"] >= 2, Hist: hist,
		Key: fmt.Sprintf("%v/%d", in.Sessions[0].Crash, len(terms))}
}

func describePrev(in In, si int) string {
	if si == 0 {
		return "first session"
	}
	p := in.Sessions[si-1]
	if p.Crash != nil {
		return fmt.Sprintf("crash at %s #%d, garble=%v", p.Crash.Point, p.Crash.Occ, p.Garble)
	}
	return "clean close"
}

func lastLines(s string, n int) string {
	ls := strings.Split(strings.TrimSpace(s), "\n")
	if len(ls) > n {
		ls = ls[len(ls)-n:]
	}
	return strings.Join(ls, " | ")
}

func main() {
	if sj := os.Getenv("VH_CHILD"); sj != "" {
		childMain(sj)
		return
	}
	vh.Main(vh.Config{
		Property:  "C03",
		Imports:   []string{"Common.Bytes", "Scorch.Model", "Scorch.Corr", "Scorch.Disk", "Scorch.DiskCorr"},
		CaseType:  "DiskCorr.dcase",
		CheckFn:   "DiskCorr.dcheck",
		ExplainFn: "DiskCorr.dexplain",
		Rule: "three-session runs on a disk-backed scorch index (5 persister/merge option variants, safe and unsafe batches, retention 1-3 or default): session 1 = 4-12 tagged batches with forced merges, killed (os.Exit in a child process) at the n-th occurrence of one of 22 hook points (every point used in every quick run; n = 1, 2-4 or 3-12), optionally followed by damaging every segment file no committed snapshot names; " +
			"session 2 = reopen, observe, 2-6 more batches, crash again or close; session 3 = reopen, observe. The whole event stream goes to the Coq persistence model. Non-trivial: a crash really happened and at least two snapshots had been committed",
		ShardSize: 4,
		Workers:   8,
	}, gen, exec_)
}
