// Session harness for the disk-backed scorch properties (one binary, -mode selects the property):
//
//	c03  crash injection: a child process is killed (os.Exit) at the n-th occurrence of a hook point
//	c13  rollback: clean sessions, then Rollback to one of the listed rollback points, reopen, write on
//	c14  online backup: CopyTo runs while the index is written, merged and purged; the copy is opened
//	c12  file life-cycle: a sampler lists the directory during the run, at quiescence and checks
//	     open file descriptors after Close; a held reader's files are checked for existence
//
// In every mode a child process (this same binary, VH_CHILD set) runs the workload on a real index
// and streams every hook event plus its own notes to the parent; the multi-session stream goes to
// the Coq persistence model (Scorch/Disk.v), which must accept it event by event.
package main

import (
	"bufio"
	"encoding/json"
	"fmt"
	"io"
	"os"
	"os/exec"
	"path/filepath"
	"reflect"
	"slices"
	"sort"
	"strconv"
	"strings"
	"sync"
	"sync/atomic"
	"time"

	"github.com/blevesearch/bleve/v2"
	"github.com/blevesearch/bleve/v2/index/scorch"
	segment "github.com/blevesearch/scorch_segment_api/v2"

	cf "verifharness/internal/coqfmt"
	"verifharness/internal/strace"
	"verifharness/internal/sw"
	"verifharness/internal/vh"
	"verifharness/internal/vrand"
)

type Crash struct {
	Point string `json:"point"`
	Occ   int    `json:"occ"`
	Late  bool   `json:"late,omitempty"` // occurrences are counted from the session's "arm" action on (not from its start)
}

type Action struct {
	Kind string  `json:"kind"` // batch | forcemerge | sleep | copy | hold | settle | quiesce | release | await_copy | hold_persister | await_held | release_persister | arm | observe
	Ops  []sw.Op `json:"ops,omitempty"`
	// hold_persister / await_held / release_persister: where the persister is held.  "" = at the end
	// of a round (hook point persist_release_waiters); "mem_merge" = after it has picked a root and
	// merged its in-memory segments into new segment files, before that merge is handed to the
	// introducer (the merge_start event of an in-memory merge).  No lock is held at either place.
	Point string `json:"point,omitempty"`
	US    int    `json:"us,omitempty"`
	Dest  string `json:"dest,omitempty"`
	Gate  bool   `json:"gate,omitempty"` // copy: do not write the first file before a "release" action (or 60 s)
	// copy with Gate: the gate this copy waits at; release: the gate that is opened ("" = the default
	// gate); await_copy waits (bounded) until the CopyTo into Dest has returned
	Name string `json:"name,omitempty"`
}

type Session struct {
	Actions []Action `json:"actions"`
	Crash   *Crash   `json:"crash,omitempty"`   // nil = clean Close at the end
	Garble  bool     `json:"garble,omitempty"`  // afterwards: damage every segment file no committed snapshot names
	Sampler bool     `json:"sampler,omitempty"` // list the directory every few ms during the session
	FdCheck bool     `json:"fd_check,omitempty"`
}

type In struct {
	Mode     string    `json:"mode"`
	Layout   sw.Layout `json:"layout"`
	NIDs     int       `json:"nids"`
	NKeys    int       `json:"nkeys,omitempty"` // internal keys k0..k(NKeys-1) are set and deleted by the batches and observed
	Sessions []Session `json:"sessions"`
	Builder  []sw.Op   `json:"builder,omitempty"`  // c14: the index is first made by the offline Builder from these documents
	KillUS   int       `json:"kill_us,omitempty"`  // c03: SIGKILL the first session after this many microseconds (no hook involved)
	Probe    []sw.Op   `json:"probe,omitempty"`    // c13: the batch written to the copy rolled back to each rollback point
	Rollback int       `json:"rollback,omitempty"` // c13: after session index Rollback-1, roll back to point #RollbackPick
	Pick     int       `json:"pick,omitempty"`
}

type childSpec struct {
	Path        string    `json:"path"`
	Layout      sw.Layout `json:"layout"`
	NIDs        int       `json:"nids"`
	NKeys       int       `json:"nkeys,omitempty"`
	Session     Session   `json:"session"`
	TagBase     int64     `json:"tag_base"`
	First       bool      `json:"first"`
	ObserveOnly bool      `json:"observe_only,omitempty"`
	Builder     []sw.Op   `json:"builder,omitempty"`
}

var points = []string{"introduce", "merge_finish", "persist_intro", "merge_start", "persist_pick", "segfile_written",
	"persist_prepared", "persist_introduced", "persist_before_commit", "persist_committed", "persist_synced",
	"persist_release_waiters", "memmerge_written", "memmerge_introduced", "filemerge_written", "filemerge_introduced",
	"purge_bolt_begin", "purge_bolt_committed", "zap_remove", "batch_send", "batch_applied", "batch_persisted"}

func genOps(r *vrand.R, nids int, ver *int64) []sw.Op {
	var ops []sw.Op
	for j := r.Range(1, 4); j > 0; j-- {
		*ver++
		if r.Chance(3, 4) {
			ops = append(ops, sw.Op{Kind: "index", ID: r.Intn(nids), Ver: *ver})
		} else {
			ops = append(ops, sw.Op{Kind: "delete", ID: r.Intn(nids)})
		}
	}
	return ops
}

// genIntOps: 0-2 SetInternal / DeleteInternal calls on the keys k0..k(nkeys-1), so that the
// internal values differ from snapshot to snapshot (nkeys = 0: none, and nothing is drawn)
func genIntOps(r *vrand.R, nkeys int, ver *int64) []sw.Op {
	var ops []sw.Op
	if nkeys <= 0 {
		return nil
	}
	for j := r.Intn(3); j > 0; j-- {
		if r.Chance(3, 5) {
			*ver++
			ops = append(ops, sw.Op{Kind: "setint", ID: r.Intn(nkeys), Ver: *ver})
		} else {
			ops = append(ops, sw.Op{Kind: "delint", ID: r.Intn(nkeys)})
		}
	}
	return ops
}

func genActions(r *vrand.R, nids, nb int, ver *int64, pause []int, fmChance int) []Action {
	return genActionsK(r, nids, 0, nb, ver, pause, fmChance)
}

func genActionsK(r *vrand.R, nids, nkeys, nb int, ver *int64, pause []int, fmChance int) []Action {
	return genActionsU(r, nids, nkeys, nb, ver, pause, fmChance, 0)
}

// undoOf: a batch that deletes exactly the documents the given batch indexed (nil if it indexed
// none).  After it the segment that batch created is gone from the root, while older snapshots
// (rollback points) still name its file: the newest segment files on disk then belong to no
// segment of the newest state.
func undoOf(ops []sw.Op) []sw.Op {
	var out []sw.Op
	seen := map[int]bool{}
	for _, o := range ops {
		if o.Kind == "index" && !seen[o.ID] {
			seen[o.ID] = true
			out = append(out, sw.Op{Kind: "delete", ID: o.ID})
		}
	}
	return out
}

// genActionsU is genActionsK where, with chance 1/undoChance (0 = never), a batch is followed by
// its undo (see undoOf).
func genActionsU(r *vrand.R, nids, nkeys, nb int, ver *int64, pause []int, fmChance, undoChance int) []Action {
	var as []Action
	for i := 0; i < nb; i++ {
		as = append(as, Action{Kind: "batch", Ops: append(genOps(r, nids, ver), genIntOps(r, nkeys, ver)...)})
		if undoChance > 0 && r.Chance(1, undoChance) {
			if u := undoOf(as[len(as)-1].Ops); u != nil {
				if p := vrand.Pick(r, pause); p > 0 {
					as = append(as, Action{Kind: "sleep", US: p})
				}
				as = append(as, Action{Kind: "batch", Ops: append(u, genIntOps(r, nkeys, ver)...)})
			}
		}
		if fmChance > 0 && r.Chance(1, fmChance) {
			as = append(as, Action{Kind: "forcemerge"})
		}
		if p := vrand.Pick(r, pause); p > 0 {
			as = append(as, Action{Kind: "sleep", US: p})
		}
	}
	return as
}

// memMergeWindow is a scheduled stretch of an unsafe-batch session: batches that obsolete documents
// of in-memory segments land between the persister's pick of the root holding those segments and
// the introduction of their in-memory merge (the window in which the "equiv" snapshot the persister
// is about to write for the picked epoch and the current root drift apart):
//
//	hold the persister at the end of its round; one batch; wait until it is held
//	2-3 batches, each indexing ids of its own        -> that many in-memory segments
//	hold at "mem_merge"; let go of the round-end hold; wait until held there (root picked, merged
//	                                                   segment files written, merge not introduced)
//	1-3 batches deleting / overwriting documents of the picked segments (rarely all of them)
//	arm the crash counter; let go
//
// Every hold and every wait is bounded (30 s); none of them is an observation.
func memMergeWindow(r *vrand.R, nids, nkeys int, ver *int64) []Action {
	var as []Action
	batch := func(ops []sw.Op) {
		as = append(as, Action{Kind: "batch", Ops: append(ops, genIntOps(r, nkeys, ver)...)})
	}
	as = append(as, Action{Kind: "hold_persister"})
	batch(genOps(r, nids, ver))
	as = append(as, Action{Kind: "await_held"})
	ids := make([]int, nids)
	for i := range ids {
		ids[i] = i
	}
	vrand.Shuffle(r, ids)
	nseg := 2
	if nids >= 4 && r.Bool() {
		nseg = 3
	}
	var victims []int
	for sgi := 0; sgi < nseg; sgi++ {
		// segment sgi gets 1-2 ids of its own (the first nseg ids, one each, plus maybe one more)
		mine := []int{ids[sgi]}
		if nseg+sgi < len(ids) && r.Bool() {
			mine = append(mine, ids[nseg+sgi])
		}
		var ops []sw.Op
		for _, id := range mine {
			*ver++
			ops = append(ops, sw.Op{Kind: "index", ID: id, Ver: *ver})
		}
		victims = append(victims, mine...)
		batch(ops)
	}
	as = append(as, Action{Kind: "hold_persister", Point: "mem_merge"}, Action{Kind: "release_persister"}, Action{Kind: "await_held", Point: "mem_merge"})
	vrand.Shuffle(r, victims)
	spare := 1 // documents of the picked segments left alone (0: the merged segment may be obsoleted entirely)
	if r.Chance(1, 6) {
		spare = 0
	}
	hit := victims[:len(victims)-spare]
	nb := r.Range(1, 3)
	for j := 0; j < nb; j++ {
		var ops []sw.Op
		for _, id := range hit {
			if j > 0 && !r.Chance(1, 2) {
				continue
			}
			if r.Bool() {
				*ver++
				ops = append(ops, sw.Op{Kind: "index", ID: id, Ver: *ver})
			} else {
				ops = append(ops, sw.Op{Kind: "delete", ID: id})
			}
		}
		if len(ops) == 0 {
			ops = append(ops, sw.Op{Kind: "delete", ID: hit[0]})
		}
		batch(ops)
	}
	as = append(as, Action{Kind: "arm"}, Action{Kind: "release_persister", Point: "mem_merge"})
	return as
}

// copyWindow is a scheduled stretch in which online copies sit at a gate (inside the destination's
// writer, before their first file: the root is pinned, nothing copied yet) while the files of the
// pinned root are made obsolete, merged away and purged - the sequence is driven by events and
// scorch's counters, not by the clock:
//
//	"mem" (unsafe batches)  the persister is held at the end of a round; nmem batches, each indexing
//	      ids of its own, leave nmem in-memory segments in the root; a gated copy pins that root;
//	      one more batch (if quiet: one that adds no segment), so that the pinned root is one the
//	      persister never writes a snapshot record for (a record would keep its files alive as long
//	      as the root is pinned), sometimes a second copy; the persister is let go and writes the
//	      segments down; their documents are overwritten or deleted (all of them unless spare),
//	      everything is merged, the merged root persisted, the purger run, one more batch and
//	      round; only then may the copies touch their files.
//	"two" two gated copies pinned at the same root, or the second a batch later - with unsafe
//	      batches and nmem > 0 on roots the held persister never writes (as above), otherwise on a
//	      persisted root at rest; one of them runs to its end; every document of the index is
//	      overwritten or deleted, merge, persist, purge as above; then the other copy runs.
//
// Every copy must succeed, its destination must open and hold the contents of its pinned root, and
// the model must accept every file removal in between.  All holds and waits are bounded.
func copyWindow(r *vrand.R, nids int, ver *int64, kind, tag string, unsafe bool, nmem int, spare, quiet bool) []Action {
	var as []Action
	batch := func(ops []sw.Op) { as = append(as, Action{Kind: "batch", Ops: ops}) }
	withIndex := func(ops []sw.Op) []sw.Op { // at least one document is written (so the batch makes a segment)
		for _, o := range ops {
			if o.Kind == "index" {
				return ops
			}
		}
		*ver++
		return append(ops, sw.Op{Kind: "index", ID: r.Intn(nids), Ver: *ver})
	}
	obsolete := func(victims []int) {
		// 1-2 batches which between them overwrite or delete every victim (but one if spare)
		vs := append([]int(nil), victims...)
		vrand.Shuffle(r, vs)
		if spare && len(vs) > 1 {
			vs = vs[1:]
		}
		cut := len(vs)
		if len(vs) > 1 && r.Bool() {
			cut = r.Range(1, len(vs)-1)
		}
		for _, part := range [][]int{vs[:cut], vs[cut:]} {
			var ops []sw.Op
			for _, id := range part {
				if r.Chance(2, 3) {
					*ver++
					ops = append(ops, sw.Op{Kind: "index", ID: id, Ver: *ver})
				} else {
					ops = append(ops, sw.Op{Kind: "delete", ID: id})
				}
			}
			if len(ops) > 0 {
				batch(ops)
			}
		}
	}
	mergeAndPurge := func() {
		as = append(as, Action{Kind: "quiesce"}, Action{Kind: "forcemerge"}, Action{Kind: "quiesce"})
		batch(genOps(r, nids, ver))
		as = append(as, Action{Kind: "quiesce"})
	}
	gated := func(name string) Action {
		return Action{Kind: "copy", Dest: name, Gate: true, Name: name, US: vrand.Pick(r, []int{0, 0, 1000, 4000})}
	}
	ids := make([]int, nids)
	for i := range ids {
		ids[i] = i
	}
	vrand.Shuffle(r, ids)
	indexOf := func(id int) []sw.Op {
		*ver++
		return []sw.Op{{Kind: "index", ID: id, Ver: *ver}}
	}
	switch kind {
	case "mem":
		// (at rest first: the round the persister is then held at the end of is the held batch's)
		as = append(as, Action{Kind: "quiesce"}, Action{Kind: "hold_persister"})
		batch(withIndex(genOps(r, nids, ver)))
		as = append(as, Action{Kind: "await_held"})
		nmem = min(nmem, nids)
		var victims []int
		for sgi := 0; sgi < nmem; sgi++ {
			mine := []int{ids[sgi]}
			if nmem+sgi < len(ids) && r.Bool() {
				mine = append(mine, ids[nmem+sgi])
			}
			var ops []sw.Op
			for _, id := range mine {
				*ver++
				ops = append(ops, sw.Op{Kind: "index", ID: id, Ver: *ver})
			}
			victims = append(victims, mine...)
			batch(ops)
		}
		noSegment := func() []sw.Op { // a batch that moves the root on without adding a segment
			var others []int
			for _, id := range ids {
				if !slices.Contains(victims, id) {
					others = append(others, id)
				}
			}
			if len(others) > 0 && r.Bool() {
				return []sw.Op{{Kind: "delete", ID: vrand.Pick(r, others)}}
			}
			return nil
		}
		names := []string{tag + "m"}
		as = append(as, gated(names[0]))
		if quiet || r.Bool() {
			batch(noSegment())
		} else {
			batch(genOps(r, nids, ver))
		}
		if r.Chance(1, 3) {
			names = append(names, tag+"n")
			as = append(as, gated(names[1]))
			batch(noSegment())
		}
		as = append(as, Action{Kind: "release_persister"}, Action{Kind: "quiesce"})
		obsolete(victims)
		mergeAndPurge()
		for _, n := range names {
			as = append(as, Action{Kind: "release", Name: n})
		}
		for _, n := range names {
			as = append(as, Action{Kind: "await_copy", Dest: n})
		}
	case "two":
		held := unsafe && nmem > 0
		between := func() []sw.Op { return genOps(r, nids, ver) }
		if held {
			// the copies' roots hold file segments with live documents (every document is written
			// anew first; the window's batches up to the copies touch ids of their own) and nmem
			// in-memory segments, and have no snapshot record of their own
			nmem = min(nmem, nids-2)
			var all []sw.Op
			for _, id := range ids {
				all = append(all, indexOf(id)...)
			}
			batch(all)
			as = append(as, Action{Kind: "quiesce"}, Action{Kind: "hold_persister"})
			batch(indexOf(ids[0]))
			as = append(as, Action{Kind: "await_held"})
			for j := 1; j <= nmem; j++ {
				batch(indexOf(ids[j]))
			}
			between = func() []sw.Op {
				if r.Bool() {
					return indexOf(ids[r.Intn(nmem+1)])
				}
				return nil
			}
		} else {
			as = append(as, Action{Kind: "quiesce"})
		}
		a, b := tag+"a", tag+"b"
		as = append(as, gated(a))
		if r.Bool() {
			batch(between())
		}
		as = append(as, gated(b))
		if held {
			batch(between())
			as = append(as, Action{Kind: "release_persister"})
		}
		first, second := a, b
		if r.Chance(1, 3) {
			first, second = b, a
		}
		as = append(as, Action{Kind: "release", Name: first}, Action{Kind: "await_copy", Dest: first})
		spare = spare && nids > 2
		obsolete(ids)
		mergeAndPurge()
		as = append(as, Action{Kind: "release", Name: second}, Action{Kind: "await_copy", Dest: second})
	}
	return as
}

// copyWindowCase: some history (file segments, merges), a copy window, a little more history.  The
// first cases of each kind are the plain ones (one in-memory segment / nothing spared, at most one
// snapshot kept), the later ones vary the number of in-memory segments, the retention and what is
// spared.
func copyWindowCase(r *vrand.R, mode, kind string, plain bool) In {
	nids := r.Range(3, 6)
	var ver int64
	in := In{Mode: mode, NIDs: nids, Layout: sw.Layout{Config: "scorch-disk", Opts: r.Intn(6), Unsafe: true, Keep: r.Range(0, 1)}}
	nmem, spare := 1, false
	if !plain {
		switch r.Intn(4) {
		case 0:
			nmem = r.Range(1, 3)
		case 1:
			spare = true
		case 2:
			in.Layout.Keep = 2
		}
		if kind == "two" && r.Chance(1, 3) {
			nmem = 0 // copies of a persisted root at rest ...
			in.Layout.Unsafe = r.Bool() // ... also with safe batches
		}
	}
	as := genActions(r, nids, r.Range(1, 5), &ver, []int{0, 200, 2000}, 3)
	as = append(as, copyWindow(r, nids, &ver, kind, "cw", in.Layout.Unsafe, nmem, spare, plain)...)
	as = append(as, genActions(r, nids, r.Intn(3), &ver, []int{0, 200}, 4)...)
	if r.Chance(1, 4) {
		k2 := kind
		if r.Bool() && in.Layout.Unsafe {
			k2 = map[string]string{"mem": "two", "two": "mem"}[kind]
		}
		as = append(as, copyWindow(r, nids, &ver, k2, "cx", in.Layout.Unsafe, max(nmem, 1), spare, plain)...)
	}
	s := Session{Actions: as}
	if mode == "c12" {
		s.Actions = append(s.Actions, Action{Kind: "settle"})
		s.Sampler, s.FdCheck = true, true
	} else {
		s.Actions = append(s.Actions, Action{Kind: "sleep", US: 5000})
	}
	in.Sessions = []Session{s, {}}
	return in
}

// points at which a crash right after a scheduled window is most telling (the round that persists
// the picked epoch, its purge, the next round); any other point is drawn as well
var pointsAfterWindow = []string{"memmerge_introduced", "persist_prepared", "persist_before_commit", "persist_committed", "persist_synced",
	"persist_release_waiters", "persist_pick", "purge_bolt_begin", "purge_bolt_committed", "zap_remove", "introduce", "merge_finish", "batch_persisted"}

func gen(f vh.Flags, r *vrand.R, emit func(In)) {
	mode := f.Mode
	if mode == "" {
		mode = "c03"
	}
	switch mode {
	case "c03":
		n := f.N(44, 1500)
		for k := 0; k < n; k++ {
			nids := r.Range(3, 6)
			var ver int64
			in := In{Mode: mode, NIDs: nids, Layout: sw.Layout{Config: "scorch-disk", Opts: r.Intn(5), Unsafe: r.Chance(1, 3)}}
			if r.Chance(1, 4) {
				in.Layout.Keep = r.Range(1, 3)
			}
			pt := points[k%len(points)] // every point is used on every quick run
			occ := 1
			switch r.Intn(3) {
			case 1:
				occ = r.Range(2, 4)
			case 2:
				occ = r.Range(3, 12)
			}
			s1 := Session{Actions: genActions(r, nids, r.Range(4, 12), &ver, []int{0, 200, 2000}, 4), Crash: &Crash{Point: pt, Occ: occ}, Garble: r.Chance(1, 3)}
			s1.Actions = append(s1.Actions, Action{Kind: "sleep", US: 15000})
			s2 := Session{Actions: genActions(r, nids, r.Range(2, 6), &ver, []int{200}, 0)}
			if r.Chance(1, 2) {
				s2.Crash = &Crash{Point: vrand.Pick(r, points), Occ: r.Range(1, 5)}
			}
			in.Sessions = []Session{s1, s2, {}}
			emit(in)
		}
		// scheduled sessions (unsafe batches): obsoleting batches inside the window between the
		// persister's pick of a root with several in-memory segments and the introduction of their
		// in-memory merge, then a crash counted from the end of the window
		ns := f.N(14, 800)
		for k := 0; k < ns; k++ {
			nids := r.Range(4, 7)
			var ver int64
			in := In{Mode: mode, NIDs: nids, NKeys: 2, Layout: sw.Layout{Config: "scorch-disk", Opts: r.Intn(6), Unsafe: true}}
			if r.Chance(1, 3) {
				in.Layout.Keep = r.Range(1, 3)
			}
			pt := pointsAfterWindow[k%len(pointsAfterWindow)]
			if r.Chance(1, 4) {
				pt = vrand.Pick(r, points)
			}
			as := genActionsK(r, nids, in.NKeys, r.Intn(4), &ver, []int{0, 200, 2000}, 3) // some history (file segments, merges) first
			as = append(as, memMergeWindow(r, nids, in.NKeys, &ver)...)
			as = append(as, genActionsK(r, nids, in.NKeys, r.Range(0, 4), &ver, []int{0, 200, 2000}, 4)...)
			if r.Chance(1, 3) {
				// a second window in the same session
				as = append(as, memMergeWindow(r, nids, in.NKeys, &ver)...)
				as = append(as, genActionsK(r, nids, in.NKeys, r.Range(0, 2), &ver, []int{200}, 0)...)
			}
			as = append(as, Action{Kind: "sleep", US: 15000})
			s1 := Session{Actions: as, Crash: &Crash{Point: pt, Occ: r.Range(1, 3), Late: true}, Garble: r.Chance(1, 3)}
			// the reopened index: more batches, sometimes another window, crash again or close
			as2 := genActionsK(r, nids, in.NKeys, r.Range(1, 4), &ver, []int{200}, 0)
			s2 := Session{}
			if r.Chance(1, 2) {
				as2 = append(as2, memMergeWindow(r, nids, in.NKeys, &ver)...)
				as2 = append(as2, Action{Kind: "sleep", US: 15000})
				s2.Crash = &Crash{Point: vrand.Pick(r, pointsAfterWindow), Occ: r.Range(1, 3), Late: true}
			} else if r.Chance(1, 2) {
				s2.Crash = &Crash{Point: vrand.Pick(r, points), Occ: r.Range(1, 5)}
			}
			s2.Actions = as2
			in.Sessions = []Session{s1, s2, {}}
			emit(in)
		}
		// arbitrary wall-clock instants: SIGKILL, no hook involved
		nk := f.N(12, 600)
		for k := 0; k < nk; k++ {
			nids := r.Range(3, 6)
			var ver int64
			in := In{Mode: mode, NIDs: nids, Layout: sw.Layout{Config: "scorch-disk", Opts: r.Intn(5)}, KillUS: r.Range(2000, 300000)}
			s1 := Session{Actions: genActions(r, nids, r.Range(8, 20), &ver, []int{0, 200, 2000}, 4)}
			s2 := Session{Actions: genActions(r, nids, r.Range(1, 4), &ver, []int{200}, 0)}
			in.Sessions = []Session{s1, s2}
			emit(in)
		}
	case "c13":
		n := f.N(16, 500)
		for k := 0; k < n; k++ {
			nids := r.Range(3, 6)
			var ver int64
			// numSnapshotsToKeep 1, 2, 3, 5 (every value in every eight cases), with and without a
			// rollback sampling interval / retention factor
			in := In{Mode: mode, NIDs: nids, NKeys: 3, Layout: sw.Layout{Config: "scorch-disk", Opts: r.Intn(5), Keep: []int{2, 3, 5, 1}[(k/2)%4]}}
			if r.Chance(1, 3) {
				in.Layout.Sampling = vrand.Pick(r, []string{"2ms", "6ms", "25ms"})
				if r.Bool() {
					in.Layout.RetFactor = vrand.Pick(r, []float64{0.25, 0.75, 1.0})
				}
			}
			// spaced batches so that the retained rollback points really differ ...
			pauses := []int{3000, 8000, 20000}
			if k%2 == 1 {
				// ... or bursts of unsafe batches, so that snapshots are persisted through the
				// in-memory-merge path while later batches keep arriving
				in.Layout.Unsafe = true
				in.Layout.Keep = []int{3, 5, 8, 2}[(k/2)%4]
				pauses = []int{0, 0, 0, 300, 2000}
			}
			// now and then a batch is undone by the next one (the documents it added are deleted
			// again), in every second spaced case also at the very end of the history: the newest
			// segment files then belong to older rollback points only
			as := genActionsU(r, nids, in.NKeys, r.Range(5, 12)+8*(k%2), &ver, pauses, 5, 6)
			if k%4 == 0 || k%8 == 1 {
				var last []sw.Op
				for {
					last = genOps(r, nids, &ver)
					if undoOf(last) != nil {
						break
					}
				}
				as = append(as, Action{Kind: "batch", Ops: append(last, genIntOps(r, in.NKeys, &ver)...)}, Action{Kind: "sleep", US: vrand.Pick(r, pauses)},
					Action{Kind: "batch", Ops: append(undoOf(last), genIntOps(r, in.NKeys, &ver)...)})
			}
			if k%4 == 3 {
				// ... with obsoleting batches scheduled into the window between the persister's pick
				// and the introduction of the in-memory merge (see memMergeWindow), the picked epoch
				// staying on offer as a rollback point
				pos := r.Intn(len(as) + 1)
				w := memMergeWindow(r, nids, in.NKeys, &ver)
				as = append(as[:pos:pos], append(w, as[pos:]...)...)
			}
			s1 := Session{Actions: as}
			s1.Actions = append(s1.Actions, Action{Kind: "settle"})
			s2 := Session{Actions: genActionsK(r, nids, in.NKeys, r.Range(1, 4), &ver, []int{500}, 0)}
			in.Sessions = []Session{s1, s2, {}}
			for len(undoOf(in.Probe)) == 0 {
				in.Probe = genOps(r, nids, &ver)
			}
			in.Rollback = 1
			in.Pick = r.Intn(8)
			if r.Chance(1, 3) {
				in.Pick = 0 // the newest point: rolling back to it changes nothing
			}
			emit(in)
		}
	case "c14":
		n := f.N(20, 500)
		for k := 0; k < n; k++ {
			nids := r.Range(3, 6)
			var ver int64
			in := In{Mode: mode, NIDs: nids, Layout: sw.Layout{Config: "scorch-disk", Opts: r.Intn(5), Unsafe: r.Chance(2, 3), Keep: r.Range(0, 2)}}
			builder := k%4 == 3
			heavy := k%2 == 0 || builder
			fm := 4
			if heavy {
				fm = 2 // merges, persists and purges all the time
				in.Layout.Keep = 1
			}
			as := genActions(r, nids, r.Range(8, 20), &ver, []int{0, 300, 3000}, fm)
			// copies started at random positions of the workload; they run concurrently with what
			// follows and with each other (each pauses before every file it writes)
			nc := r.Range(1, 3)
			if heavy {
				nc = r.Range(2, 3)
			}
			for c := 0; c < nc; c++ {
				pos := r.Intn(len(as)/2 + 1)
				us := vrand.Pick(r, []int{0, 2000, 8000, 20000})
				if heavy {
					us = vrand.Pick(r, []int{8000, 20000, 50000})
				}
				as = append(as[:pos], append([]Action{{Kind: "copy", Dest: fmt.Sprintf("copy%d", c), US: us}}, as[pos:]...)...)
			}
			as = append(as, Action{Kind: "sleep", US: 10000})
			in.Sessions = []Session{{Actions: as}, {}}
			if builder {
				// the same workload on an index made by the offline Builder (safe batches: after
				// the clean close the source must hold every batch)
				in.Layout.Unsafe = k%8 == 3 // with unsafe batches the backed-up root usually has no snapshot record of its own
				in.Layout.Keep = 1
				// a slow backup taken straight after opening, while the Builder's segment is merged
				// away, the merged root persisted and the old snapshot purged
				front := []Action{}
				if in.Layout.Unsafe {
					// ... and the backed-up root is one the persister never gives a record of its own:
					// the persister is held at the end of the round the first batch causes; the backup
					// starts on the root of the second batch, the third follows, then the persister is
					// let go and persists the newest root only
					in.Layout.Opts = 5
					front = append(front, Action{Kind: "hold_persister"}, Action{Kind: "batch", Ops: genOps(r, nids, &ver)}, Action{Kind: "await_held"},
						Action{Kind: "batch", Ops: genOps(r, nids, &ver)})
				}
				front = append(front, Action{Kind: "copy", Dest: "copyb", Gate: true, US: vrand.Pick(r, []int{2000, 20000})})
				// while the backup sits before its first segment file (gated, not timed: the sequence
				// must not depend on how loaded the machine is): another batch, the persister writes
				// everything down, a merge of all files, the merged root is persisted and what it
				// replaced purged, one more batch and round; only then may the backup touch its files
				front = append(front, Action{Kind: "batch", Ops: genOps(r, nids, &ver)}, Action{Kind: "release_persister"}, Action{Kind: "quiesce"},
					Action{Kind: "forcemerge"}, Action{Kind: "quiesce"},
					Action{Kind: "batch", Ops: genOps(r, nids, &ver)}, Action{Kind: "quiesce"}, Action{Kind: "release"})
				in.Sessions[0].Actions = append(front, in.Sessions[0].Actions...)
				for i := 0; i < nids; i++ {
					if r.Chance(3, 4) {
						ver++
						in.Builder = append(in.Builder, sw.Op{Kind: "index", ID: i, Ver: ver})
					}
				}
				if in.Builder == nil {
					ver++
					in.Builder = []sw.Op{{Kind: "index", ID: 0, Ver: ver}}
				}
			}
			emit(in)
		}
		// scheduled copy windows (see copyWindow): two of three with two overlapping copies
		for k, n2 := 0, f.N(6, 300); k < n2; k++ {
			emit(copyWindowCase(r, mode, []string{"two", "two", "mem"}[k%3], k < 3))
		}
	case "c12":
		n := f.N(18, 400)
		for k := 0; k < n; k++ {
			nids := r.Range(3, 6)
			var ver int64
			in := In{Mode: mode, NIDs: nids, Layout: sw.Layout{Config: "scorch-disk", Opts: r.Intn(5), Unsafe: r.Chance(1, 2), Keep: r.Range(0, 3)}}
			as := genActions(r, nids, r.Range(8, 24), &ver, []int{0, 200, 1500}, 3)
			for c := r.Range(0, 2); c > 0; c-- {
				pos := r.Intn(len(as) + 1)
				as = append(as[:pos], append([]Action{{Kind: "hold", US: r.Range(2000, 30000)}}, as[pos:]...)...)
			}
			nc := r.Range(0, 1)
			if k%2 == 0 {
				nc = 2 // two overlapping backups straddling persists and purges
			}
			for c := nc; c > 0; c-- {
				pos := r.Intn(len(as)/2 + 1)
				as = append(as[:pos], append([]Action{{Kind: "copy", Dest: fmt.Sprintf("copy%d", c), US: vrand.Pick(r, []int{2000, 8000, 20000})}}, as[pos:]...)...)
			}
			as = append(as, Action{Kind: "settle"})
			in.Sessions = []Session{{Actions: as, Sampler: true, FdCheck: true}, {}}
			emit(in)
		}
		// scheduled copy windows (see copyWindow): two of three with a copy pinned at a root that
		// holds in-memory segments
		for k, n2 := 0, f.N(6, 300); k < n2; k++ {
			emit(copyWindowCase(r, mode, []string{"mem", "mem", "two"}[k%3], k < 3))
		}
	}
}

// ---------------------------------------------------------------- child

func zapIDs(storeDir string) []uint64 {
	ents, err := os.ReadDir(storeDir)
	if err != nil {
		return nil
	}
	var ids []uint64
	for _, e := range ents {
		if filepath.Ext(e.Name()) == ".zap" {
			if id, err := strconv.ParseUint(strings.TrimSuffix(e.Name(), ".zap"), 16, 64); err == nil {
				ids = append(ids, id)
			}
		}
	}
	sort.Slice(ids, func(i, j int) bool { return ids[i] < ids[j] })
	return ids
}

func childMain(specJSON string) {
	var spec childSpec
	if err := json.Unmarshal([]byte(specJSON), &spec); err != nil {
		fmt.Fprintln(os.Stderr, "child: bad spec:", err)
		os.Exit(2)
	}
	if spec.Builder != nil {
		// make the index with the offline Builder (segment ids and file names do not coincide there)
		b, err := bleve.NewBuilder(spec.Path, sw.Mapping(), map[string]interface{}{"buildPathPrefix": filepath.Dir(spec.Path)})
		if err != nil {
			fmt.Fprintln(os.Stderr, "child: NewBuilder:", err)
			os.Exit(12)
		}
		for _, o := range spec.Builder {
			if err := b.Index(sw.DocName(o.ID), sw.DocFor(o.ID, o.Ver)); err != nil {
				fmt.Fprintln(os.Stderr, "child: builder index:", err)
				os.Exit(12)
			}
		}
		if err := b.Close(); err != nil {
			fmt.Fprintln(os.Stderr, "child: builder close:", err)
			os.Exit(12)
		}
		os.Exit(0)
	}
	out := bufio.NewWriter(os.Stdout)
	var mu sync.Mutex
	var nEvents, nMergeStarts int64 // guarded by mu
	emit := func(ev *scorch.VerifEvent) {
		b, _ := json.Marshal(ev)
		out.Write(b)
		out.WriteByte('\n')
		out.Flush()
		nEvents++
		if ev.Kind == "merge_start" {
			nMergeStarts++
		}
	}
	armed := false
	var copyWaiters []chan struct{}
	mappingPersisted := make(chan struct{})
	var once sync.Once
	count := 0
	// holds[p] != nil (guarded by mu): the persister is held at place p until the channel is closed
	// - a sequencing aid for unsafe-batch scenarios, bounded by 30 s.  Places (no lock is held at
	// either): "" = the end of its current round (hook point persist_release_waiters: the round's
	// commit is done); "mem_merge" = it has picked a root and merged that root's in-memory segments
	// into new files, and is about to hand the merge to the introducer (merge_start event of an
	// in-memory merge)
	holds := map[string]chan struct{}{}
	heldNow := map[string]chan struct{}{"": make(chan struct{}, 1), "mem_merge": make(chan struct{}, 1)}
	ctl := func(ev *scorch.VerifEvent) {
		mu.Lock()
		emit(ev)
		if ev.Kind == "point" && ev.Name == "persist_synced" {
			once.Do(func() { close(mappingPersisted) })
		}
		if ev.Kind == "copy_start" && len(copyWaiters) > 0 {
			close(copyWaiters[0])
			copyWaiters = copyWaiters[1:]
		}
		var wait chan struct{}
		place := ""
		if ev.Kind == "point" && ev.Name == "persist_release_waiters" {
			wait = holds[""]
		} else if ev.Kind == "merge_start" && !ev.FileMerge {
			place = "mem_merge"
			wait = holds[place]
		}
		if armed && spec.Session.Crash != nil {
			name := ev.Kind
			if ev.Kind == "point" {
				name = ev.Name
			}
			if name == spec.Session.Crash.Point {
				count++
				if count == spec.Session.Crash.Occ {
					os.Exit(3) // the process dies here: nothing after this point runs
				}
			}
		}
		mu.Unlock()
		if wait != nil {
			select {
			case heldNow[place] <- struct{}{}:
			default:
			}
			select {
			case <-wait:
			case <-time.After(30 * time.Second):
			}
		}
	}
	note := func(ev *scorch.VerifEvent) {
		mu.Lock()
		emit(ev)
		mu.Unlock()
	}
	scorch.VerifSetController(ctl)
	var idx bleve.Index
	var err error
	if spec.First {
		idx, err = bleve.NewUsing(spec.Path, sw.Mapping(), scorch.Name, scorch.Name, sw.ScorchConfig(spec.Layout))
	} else {
		idx, err = bleve.OpenUsing(spec.Path, sw.ScorchConfig(spec.Layout))
	}
	if err != nil {
		fmt.Fprintln(os.Stderr, "child: open failed:", err)
		os.Exit(4)
	}
	adv, _ := idx.Advanced()
	sc := adv.(*scorch.Scorch)
	storeDir := filepath.Join(spec.Path, "store")
	if !spec.First {
		eps, _ := sc.RootBoltSnapshotEpochs()
		var cur uint64
		for _, e := range eps {
			if e > cur {
				cur = e
			}
		}
		// (informational: the parent has read the snapshot epoch this session starts from off
		// root.bolt before starting it and put its own "recover" note in front of the session)
		note(sw.Note("reopened", cur))
		vs, err := sw.DocVersions(idx, spec.NIDs)
		if err != nil {
			fmt.Fprintln(os.Stderr, "child: observe failed:", err)
			os.Exit(5)
		}
		note(sw.ObserveNote(vs))
		if spec.NKeys > 0 {
			var gerr error
			args := sw.IntArgs(spec.NKeys, func(k []byte) []byte {
				v, err := idx.GetInternal(k)
				if err != nil {
					gerr = err
				}
				return v
			})
			if gerr != nil {
				fmt.Fprintln(os.Stderr, "child: observe failed: GetInternal:", gerr)
				os.Exit(5)
			}
			note(sw.Note("observe_int", args...))
		}
		// the reopened index must also answer searches and counts consistently with Document()
		cnt, _ := idx.DocCount()
		live := 0
		for _, v := range vs {
			if v != nil {
				live++
			}
		}
		if int(cnt) != live {
			fmt.Fprintf(os.Stderr, "child: after reopen DocCount=%d but %d documents are retrievable\n", cnt, live)
			os.Exit(10)
		}
		if spec.ObserveOnly {
			idx.Close()
			os.Exit(0)
		}
	}
	if spec.First {
		// a crash before the mapping written by bleve.New has been persisted is outside the
		// statement (with unsafe batches New returns before that): wait for the first commit
		select {
		case <-mappingPersisted:
		case <-time.After(120 * time.Second): // generous: the machine may be heavily loaded
			fmt.Fprintln(os.Stderr, "child: the mapping was never persisted")
			os.Exit(9)
		}
	}
	mu.Lock()
	armed = spec.Session.Crash == nil || !spec.Session.Crash.Late
	mu.Unlock()

	stopSampler := make(chan struct{})
	var samplerWG sync.WaitGroup
	if spec.Session.Sampler {
		samplerWG.Add(1)
		go func() {
			defer samplerWG.Done()
			for {
				select {
				case <-stopSampler:
					return
				case <-time.After(1500 * time.Microsecond):
				}
				note(sw.Note("dir_begin"))
				ids := zapIDs(storeDir)
				note(sw.Note("dir_end", ids...))
			}
		}()
	}

	// "At rest" is decided from scorch's own monotonic counters, not from wall-clock silence (a
	// persister stalled in an fsync for a second is not at rest):
	//   - the persister sits in the wait at the end of its loop (TotPersistLoopWait is bumped after
	//     removeOldData, right before that wait; TotPersistLoopEnd right after it), so every one of
	//     its hook events has been emitted;
	//   - the root epoch is the last persisted epoch and the last epoch the merger planned (it found
	//     nothing to merge there: a merge would have moved the root on).
	st, _ := sc.Stats().(*scorch.Stats)
	type bgCounters struct {
		wait, end, persisted, merged, root uint64
		events                             int64
	}
	readBG := func() bgCounters {
		var c bgCounters
		if st != nil {
			c.wait = atomic.LoadUint64(&st.TotPersistLoopWait)
			c.end = atomic.LoadUint64(&st.TotPersistLoopEnd)
			c.persisted = atomic.LoadUint64(&st.LastPersistedEpoch)
			c.merged = atomic.LoadUint64(&st.LastMergedEpoch)
			c.root = atomic.LoadUint64(&st.CurRootEpoch)
		}
		mu.Lock()
		c.events = nEvents
		mu.Unlock()
		return c
	}
	quiet := func(c bgCounters) bool {
		if st == nil || c.wait != c.end+1 || c.persisted != c.merged {
			return false
		}
		// CurRootEpoch is only set by the introducer: 0 = nothing introduced since Open
		return c.root == 0 || c.root == c.persisted
	}
	waitQuiet := func(d time.Duration) bool {
		deadline := time.Now().Add(d)
		for !quiet(readBG()) {
			if time.Now().After(deadline) {
				return false
			}
			time.Sleep(2 * time.Millisecond)
		}
		return true
	}
	mergeStarts := func() int64 {
		mu.Lock()
		defer mu.Unlock()
		return nMergeStarts
	}
	releaseHold := func(place string) {
		mu.Lock()
		if holds[place] != nil {
			close(holds[place])
			holds[place] = nil
		}
		mu.Unlock()
	}
	// gates[name]: closed by the "release" action of that name (made on first use; only the action
	// loop touches the map)
	gates := map[string]chan struct{}{}
	gateOf := func(name string) chan struct{} {
		if gates[name] == nil {
			gates[name] = make(chan struct{})
		}
		return gates[name]
	}
	gateOpen := map[string]bool{}
	copyDone := map[string]chan struct{}{} // per destination: closed when its CopyTo has returned

	tg := sw.NewTagger()
	tg.Seq = spec.TagBase
	var bg sync.WaitGroup
	var nReturned, nSubmitted, nCopies int64 // batches of this session returned / submitted so far
	for _, a := range spec.Session.Actions {
		switch a.Kind {
		case "batch":
			b, seq, err := tg.Build(idx, a.Ops, true)
			if err != nil {
				fmt.Fprintln(os.Stderr, "child: build:", err)
				os.Exit(6)
			}
			if spec.Layout.Unsafe {
				s := uint64(seq)
				b.SetPersistedCallback(func(err error) {
					if err == nil {
						note(sw.Note("ack", s))
					}
				})
			}
			atomic.AddInt64(&nSubmitted, 1)
			note(sw.Note("submit", uint64(seq)))
			if err := idx.Batch(b); err != nil {
				fmt.Fprintln(os.Stderr, "child: batch:", err)
				os.Exit(7)
			}
			atomic.AddInt64(&nReturned, 1)
			if !spec.Layout.Unsafe {
				note(sw.Note("ack", uint64(seq)))
			}
		case "forcemerge":
			sw.ForceMerge(idx)
		case "sleep":
			time.Sleep(time.Duration(a.US) * time.Microsecond)
		case "copy":
			// copies may overlap; only their STARTS are serialised (the next action waits for this
			// copy's copy_start event), so that copy_start events and destinations pair up in order
			bg.Add(1)
			dest := filepath.Join(filepath.Dir(spec.Path), a.Dest)
			started := make(chan struct{})
			mu.Lock()
			copyWaiters = append(copyWaiters, started)
			mu.Unlock()
			us := a.US
			var gate <-chan struct{}
			if a.Gate {
				gate = gateOf(a.Name)
			}
			done := make(chan struct{})
			copyDone[a.Dest] = done
			ci := uint64(nCopies)
			nCopies++
			note(sw.Note("copy_begin", ci, uint64(atomic.LoadInt64(&nReturned))))
			go func() {
				defer bg.Done()
				if err := idx.(bleve.IndexCopyable).CopyTo(&slowDir{FileSystemDirectory: bleve.FileSystemDirectory(dest), us: us, gate: gate}); err != nil {
					fmt.Fprintln(os.Stderr, "child: CopyTo:", err)
					os.Exit(11)
				}
				note(sw.Note("copy_done", ci, uint64(atomic.LoadInt64(&nSubmitted))))
				close(done)
			}()
			select {
			case <-started:
			case <-time.After(120 * time.Second):
			}
		case "hold":
			// hold an index reader for a while and check that the files of its snapshot stay on disk
			bg.Add(1)
			us := a.US
			go func() {
				defer bg.Done()
				r, err := sc.Reader()
				if err != nil {
					return
				}
				defer r.Close()
				snap, ok := r.(*scorch.IndexSnapshot)
				if !ok {
					return
				}
				var files []string
				for _, ss := range snap.Segments() {
					if ps, ok := ss.Segment().(segment.PersistedSegment); ok {
						files = append(files, ps.Path())
					}
				}
				deadline := time.Now().Add(time.Duration(us) * time.Microsecond)
				for time.Now().Before(deadline) {
					for _, f := range files {
						if _, err := os.Stat(f); err != nil {
							id, _ := strconv.ParseUint(strings.TrimSuffix(filepath.Base(f), ".zap"), 16, 64)
							note(sw.Note("reader_file_missing", id))
							return
						}
					}
					time.Sleep(300 * time.Microsecond)
				}
			}()
		case "quiesce":
			// sequencing aid (no observation): let the persister, merger and purger finish what the
			// previous actions caused, however long that takes on a loaded machine
			waitQuiet(30 * time.Second)
		case "release":
			if !gateOpen[a.Name] {
				gateOpen[a.Name] = true
				close(gateOf(a.Name))
			}
		case "await_copy":
			// sequencing aid (no observation): the copy into Dest has run to its end
			if done := copyDone[a.Dest]; done != nil {
				select {
				case <-done:
				case <-time.After(60 * time.Second):
				}
			}
		case "hold_persister":
			// the persister stops when it next comes to that place, and waits there
			if _, ok := heldNow[a.Point]; ok {
				select { // forget an earlier stop at that place nobody waited for
				case <-heldNow[a.Point]:
				default:
				}
				mu.Lock()
				if holds[a.Point] == nil {
					holds[a.Point] = make(chan struct{})
				}
				mu.Unlock()
			}
		case "await_held":
			if ch, ok := heldNow[a.Point]; ok {
				// ... or until the persister has come to rest without passing that place (then the
				// schedule this session was meant to explore did not come about; nothing is judged by it)
				deadline := time.Now().Add(30 * time.Second)
			awaiting:
				for time.Now().Before(deadline) {
					select {
					case <-ch:
						break awaiting
					case <-time.After(3 * time.Millisecond):
						if a.Point != "" && quiet(readBG()) {
							break awaiting
						}
					}
				}
			}
		case "release_persister":
			releaseHold(a.Point)
		case "observe":
			// what the open index shows right now (used on copies rolled back to a rollback point)
			vs, err := sw.DocVersions(idx, spec.NIDs)
			if err != nil {
				fmt.Fprintln(os.Stderr, "child: observe failed:", err)
				os.Exit(5)
			}
			note(sw.ObserveNote(vs))
			cnt, _ := idx.DocCount()
			live := 0
			for _, v := range vs {
				if v != nil {
					live++
				}
			}
			if int(cnt) != live {
				fmt.Fprintf(os.Stderr, "child: DocCount=%d but %d documents are retrievable\n", cnt, live)
				os.Exit(10)
			}
		case "arm":
			// the crash counter of a session with a late crash starts here
			mu.Lock()
			armed = true
			count = 0
			mu.Unlock()
		case "settle":
			// Wait until the background work has come to rest (waitQuiet above), then read the retained
			// snapshot epochs and list the directory.  The observation only counts if the counters and
			// the number of emitted events are the same before and after it (all counters are
			// monotonic, so nothing moved in between).
			bg.Wait()
			if spec.Session.Sampler {
				close(stopSampler)
				samplerWG.Wait()
				stopSampler = make(chan struct{})
			}
			var eps, ids []uint64
			settled := false
			settleBy := time.Now().Add(90 * time.Second) // give up (and say so: "unsettled") rather than hang
			for round := 0; round < 6 && !settled && time.Now().Before(settleBy); round++ {
				if !waitQuiet(time.Until(settleBy)) {
					break
				}
				m0 := mergeStarts()
				if spec.Session.Sampler {
					// the merger is done with this root (whatever it un-marked is un-marked by now):
					// one more empty batch makes the persister run another round, and with it the
					// purger, before the directory is judged.  The first of these batches is tagged
					// (the parent mirrors it); should a merge start meanwhile the round is repeated.
					var err error
					if round == 0 {
						var b *bleve.Batch
						var seq int64
						if b, seq, err = tg.Build(idx, nil, true); err == nil {
							note(sw.Note("submit", uint64(seq)))
							if err = idx.Batch(b); err == nil && !spec.Layout.Unsafe {
								note(sw.Note("ack", uint64(seq)))
							}
						}
					} else {
						err = idx.Batch(idx.NewBatch())
					}
					if err != nil {
						fmt.Fprintln(os.Stderr, "child: settle batch:", err)
						os.Exit(7)
					}
				}
				for try := 0; try < 50 && !settled && time.Now().Before(settleBy); try++ {
					if !waitQuiet(time.Until(settleBy)) {
						break
					}
					c1 := readBG()
					if !quiet(c1) {
						continue
					}
					eps, _ = sc.RootBoltSnapshotEpochs()
					ids = zapIDs(storeDir)
					settled = readBG() == c1
				}
				if settled && spec.Session.Sampler && mergeStarts() != m0 {
					settled = false
				}
			}
			sort.Slice(eps, func(i, j int) bool { return eps[i] < eps[j] })
			if settled {
				note(sw.Note("bolt_epochs", eps...))
				if spec.Session.Sampler {
					note(sw.Note("quiescent", ids...))
				}
			} else {
				note(sw.Note("unsettled"))
			}
		}
	}
	bg.Wait()
	releaseHold("")
	releaseHold("mem_merge")
	select {
	case <-stopSampler:
	default:
		close(stopSampler)
	}
	samplerWG.Wait()
	if err := idx.Close(); err != nil {
		fmt.Fprintln(os.Stderr, "child: close:", err)
		os.Exit(8)
	}
	if spec.Session.FdCheck {
		ents, _ := os.ReadDir("/proc/self/fd")
		open := 0
		for _, e := range ents {
			if t, err := os.Readlink("/proc/self/fd/" + e.Name()); err == nil && strings.HasPrefix(t, spec.Path) {
				open++
			}
		}
		note(sw.Note("fds_open_after_close", uint64(open)))
	}
	os.Exit(0)
}

// slowDir makes an online copy take a while (a pause before every file it writes), so that
// persists, merges, purges and other copies really overlap with it.
type slowDir struct {
	bleve.FileSystemDirectory
	us   int
	gate <-chan struct{} // if set: the first file is not written before this is closed (or 60 s have passed)
	once sync.Once
}

func (d *slowDir) GetWriter(filePath string) (io.WriteCloser, error) {
	if d.gate != nil {
		d.once.Do(func() {
			select {
			case <-d.gate:
			case <-time.After(60 * time.Second):
			}
		})
	}
	if d.us > 0 {
		time.Sleep(time.Duration(d.us) * time.Microsecond)
	}
	return d.FileSystemDirectory.GetWriter(filePath)
}

// ---------------------------------------------------------------- parent

func runChild(spec childSpec) (evs []*scorch.VerifEvent, code int, stderr string, err error) {
	return runChildKill(spec, 0)
}

// runChildKill runs a child session and, when killAfter > 0, sends it SIGKILL that long after the
// child reported that the index is open and armed (its first "submit" note) - or at the latest
// killAfter + 2s after start.
func runChildKill(spec childSpec, killAfter time.Duration) (evs []*scorch.VerifEvent, code int, stderr string, err error) {
	sj, _ := json.Marshal(spec)
	cmd := exec.Command(os.Args[0])
	// BLEVE_VERIF_LOCKED_INTRO: the introducer reports its events while it still holds rootLock
	// (index/scorch/verif_on.go), so no goroutine acts on a root before its event is in the stream
	cmd.Env = append(os.Environ(), "VH_CHILD="+string(sj), "BLEVE_VERIF_LOCKED_INTRO=1")
	var eb strings.Builder
	cmd.Stderr = &eb
	pipe, err := cmd.StdoutPipe()
	if err != nil {
		return nil, -1, "", err
	}
	if err := cmd.Start(); err != nil {
		return nil, -1, "", err
	}
	done := make(chan struct{})
	go func() {
		sc := bufio.NewScanner(pipe)
		sc.Buffer(make([]byte, 1<<20), 1<<26)
		armedKill := false
		for sc.Scan() {
			var ev scorch.VerifEvent
			if json.Unmarshal(sc.Bytes(), &ev) == nil {
				evs = append(evs, &ev)
				if killAfter > 0 && !armedKill && ev.Kind == "note" && ev.Name == "submit" {
					armedKill = true
					time.AfterFunc(killAfter, func() { _ = cmd.Process.Kill() })
				}
			}
		}
		close(done)
	}()
	// hang watchdog (a session takes well under a second of CPU; the bound is wall-clock and has to
	// hold on a machine whose cores are all taken by other work)
	timer := time.AfterFunc(300*time.Second, func() { _ = cmd.Process.Kill() })
	<-done
	werr := cmd.Wait()
	timer.Stop()
	code = 0
	if werr != nil {
		if ee, ok := werr.(*exec.ExitError); ok {
			code = ee.ExitCode()
		} else {
			return evs, -1, eb.String(), werr
		}
	}
	return evs, code, eb.String(), nil
}

// garble damages every .zap file that no committed bolt snapshot names (truncate, overwrite or
// remove): recovery must not depend on them.
func garble(storeDir string, r *vrand.R) (int, error) {
	named, _, err := sw.NamedFiles(storeDir)
	if err != nil {
		return 0, err
	}
	ents, err := os.ReadDir(storeDir)
	if err != nil {
		return 0, err
	}
	n := 0
	for _, e := range ents {
		if filepath.Ext(e.Name()) != ".zap" || named[e.Name()] {
			continue
		}
		p := filepath.Join(storeDir, e.Name())
		switch r.Intn(3) {
		case 0:
			err = os.Truncate(p, int64(r.Intn(20)))
		case 1:
			err = os.WriteFile(p, []byte("garbage garbage garbage"), 0o600)
		case 2:
			err = os.Remove(p)
		}
		if err != nil {
			return n, err
		}
		n++
	}
	return n, nil
}

func mirrorTags(tg *sw.Tagger, s Session, calls map[uint64][]sw.Op) {
	for _, a := range s.Actions {
		if a.Kind == "settle" && s.Sampler {
			tg.Seq++ // the empty batch that triggers a last persister / purger round
			tg.Vers[tg.Seq] = map[string]int64{}
			calls[uint64(tg.Seq)] = []sw.Op{}
			continue
		}
		if a.Kind != "batch" {
			continue
		}
		tg.Seq++
		calls[uint64(tg.Seq)] = a.Ops
		vers := map[string]int64{}
		for _, o := range a.Ops {
			switch o.Kind {
			case "index":
				vers[sw.DocName(o.ID)] = o.Ver
			case "delete":
				delete(vers, sw.DocName(o.ID))
			}
		}
		tg.Vers[tg.Seq] = vers
	}
}

func exec_(in In) vh.Result {
	dir, err := os.MkdirTemp("", "vh_"+in.Mode+"_")
	if err != nil {
		return vh.Result{Direct: &vh.Direct{Kind: "error", Detail: err.Error()}}
	}
	defer os.RemoveAll(dir)
	path := dir + "/idx"
	var all []*scorch.VerifEvent
	tg := sw.NewTagger() // parent-side copy of the batch -> versions table (same tagging as the child)
	var tagBase int64
	crashes := 0
	hist := []string{}
	gr := vrand.New(uint64(len(in.Sessions))*7919 + uint64(in.NIDs))
	var direct *vh.Direct
	class := ""
	var copyEpochs []uint64
	var copyDests []string
	rolledBack := false
	calls := map[uint64][]sw.Op{} // the calls of every tagged batch, as generated
	if in.Builder != nil {
		return execBuilder(in, dir, path)
	}
	if in.KillUS > 0 {
		return execKill(in, dir, path)
	}
	for si, s := range in.Sessions {
		spec := childSpec{Path: path, Layout: in.Layout, NIDs: in.NIDs, NKeys: in.NKeys, Session: s, TagBase: tagBase, First: si == 0}
		mirrorTags(tg, s, calls)
		tagBase = tg.Seq
		if si > 0 {
			// the snapshot this session starts from, read off root.bolt while no process has the
			// index open; the note stands in front of everything the session emits (the background
			// goroutines of a reopened index run before Open returns)
			rec := sw.Note("recover")
			if _, beps, err := sw.NamedFiles(path + "/store"); err == nil && len(beps) > 0 {
				var cur uint64
				for _, e := range beps {
					cur = max(cur, e)
				}
				rec = sw.Note("recover", cur)
			}
			all = append(all, rec)
		}
		evs, code, stderr, err := runChild(spec)
		if err != nil {
			return vh.Result{Direct: &vh.Direct{Kind: "error", Detail: "child: " + err.Error()}}
		}
		for _, e := range evs {
			switch {
			case e.Kind == "copy_start":
				copyEpochs = append(copyEpochs, e.Epoch)
			case e.Kind == "note" && e.Name == "reader_file_missing":
				if direct == nil {
					direct = &vh.Direct{Kind: "reader-held-file-unlinked", Detail: fmt.Sprintf("segment file %012x.zap of a snapshot held by an open index reader was removed from the directory while the reader was open", e.Args[0])}
					class = "reader-held-file-unlinked"
				}
			case e.Kind == "note" && e.Name == "fds_open_after_close":
				if e.Args[0] > 0 {
					return vh.Result{Direct: &vh.Direct{Kind: "files-open-after-close", Detail: fmt.Sprintf("%d file descriptors of the index directory are still open after Close returned", e.Args[0])}}
				}
				hist = append(hist, "fd-check-clean")
			}
		}
		for _, a := range s.Actions {
			if a.Kind == "copy" {
				copyDests = append(copyDests, filepath.Join(dir, a.Dest))
			}
		}
		all = append(all, evs...)
		switch code {
		case 0:
			hist = append(hist, "session:clean-close")
		case 3:
			crashes++
			hist = append(hist, "crash:"+s.Crash.Point)
		case 4:
			return vh.Result{Class: "reopen-failed", Direct: &vh.Direct{Kind: "reopen-failed",
				Detail: fmt.Sprintf("session %d: the index could not be opened after the previous session ended (%s): %s", si, describePrev(in, si), strings.TrimSpace(stderr))}}
		case 10:
			return vh.Result{Direct: &vh.Direct{Kind: "reopen-inconsistent", Detail: fmt.Sprintf("session %d: %s", si, strings.TrimSpace(stderr))}}
		default:
			return vh.Result{Direct: &vh.Direct{Kind: "child-failed", Detail: fmt.Sprintf("session %d exit %d: %s", si, code, lastLines(stderr, 12))}}
		}
		all = append(all, sw.Note("crash")) // the process is gone (killed or closed): volatile state is lost
		if s.Garble && si+1 < len(in.Sessions) {
			if n, err := garble(path+"/store", gr); err != nil {
				return vh.Result{Direct: &vh.Direct{Kind: "error", Detail: "garble: " + err.Error()}}
			} else if n > 0 {
				hist = append(hist, "garbled-files")
			}
		}
		if in.Rollback == si+1 {
			pts, err := scorch.RollbackPoints(path + "/store")
			if err != nil || len(pts) == 0 {
				return vh.Result{Direct: &vh.Direct{Kind: "no-rollback-points", Detail: fmt.Sprintf("RollbackPoints after a clean close: %v (%d points)", err, len(pts))}}
			}
			p := pts[in.Pick%len(pts)]
			// every point on offer: its epoch and the internal values it reports ...
			var pargs []uint64
			for _, pt := range pts {
				pargs = append(pargs, pointEpoch(pt))
				pargs = append(pargs, sw.IntArgs(in.NKeys, pt.GetInternal)...)
			}
			all = append(all, sw.Note("rollback_points", pargs...))
			// ... and the state it stands for: a copy of the closed index is rolled back to it and opened
			for pi := 0; pi < len(pts) && pi < 6; pi++ {
				cp := fmt.Sprintf("%s/pt%d", dir, pi)
				sts, d := pointState(in, path, cp, pi, pointEpoch(pts[pi]))
				if d != nil {
					return vh.Result{Direct: d}
				}
				all = append(all, sts...)
				os.RemoveAll(cp)
			}
			if err := scorch.Rollback(path+"/store", p); err != nil {
				return vh.Result{Direct: &vh.Direct{Kind: "rollback-failed", Detail: err.Error()}}
			}
			var eps []uint64
			var epoch uint64
			_, beps, _ := sw.NamedFiles(path + "/store")
			sort.Slice(beps, func(i, j int) bool { return beps[i] < beps[j] })
			eps = beps
			if len(eps) > 0 {
				epoch = eps[len(eps)-1] // after Rollback the newest remaining bucket is the chosen point
			}
			all = append(all, sw.Note("rollback", epoch))
			rolledBack = true
			hist = append(hist, fmt.Sprintf("rollback:points=%d", min(len(pts), 6)), fmt.Sprintf("rollback:pick=%d", in.Pick%len(pts)))
		}
	}
	// drop the trailing crash marker (nothing is reopened after the last session)
	all = all[:len(all)-1]
	// open every online copy as an index of its own and report what it contains
	for i, dest := range copyDests {
		if i >= len(copyEpochs) {
			break
		}
		evs, code, stderr, err := runChild(childSpec{Path: dest, Layout: in.Layout, NIDs: in.NIDs, ObserveOnly: true})
		if err != nil || code != 0 {
			return vh.Result{Direct: &vh.Direct{Kind: "copy-unusable", Detail: fmt.Sprintf("the online copy #%d could not be opened / read (exit %d, %v): %s", i, code, err, lastLines(stderr, 6))}}
		}
		for _, e := range evs {
			if e.Kind == "note" && e.Name == "observe" {
				// judged where the copy ended (same session: the batch history is intact there)
				n := &scorch.VerifEvent{Kind: "note", Name: "copy_dest", Args: append([]uint64{copyEpochs[i]}, e.Args...)}
				seen, pos := 0, len(all)
				for j, a := range all {
					if a.Kind == "copy_end" {
						if seen == i {
							pos = j + 1
							break
						}
						seen++
					}
				}
				all = append(all, nil)
				copy(all[pos+1:], all[pos:])
				all[pos] = n
				hist = append(hist, "copy-opened")
			}
		}
	}
	namer := &strace.Namer{DocID: sw.DocNum}
	calls[probeCallsTag] = in.Probe
	terms, stats := sw.DiskTermsWith(all, namer, tg.VersionOf, func(tag uint64) ([]sw.Op, bool) { ops, ok := calls[tag]; return ops, ok }, in.NKeys)
	for k, v := range stats {
		if v > 0 {
			hist = append(hist, "ev:"+k)
		}
	}
	// did a scheduled window come about?  an in-memory merge whose new segment already carried
	// deletions when it was introduced: documents of the picked segments were obsoleted between the
	// persister's pick and the introduction
	windows, hit := 0, 0
	for _, s := range in.Sessions {
		for _, a := range s.Actions {
			if a.Kind == "hold_persister" && a.Point == "mem_merge" {
				windows++
			}
		}
	}
	for _, e := range all {
		if e == nil || e.Kind != "merge_finish" || e.FileMerge {
			continue
		}
		for _, t := range e.Tasks {
			for _, sg := range e.Root {
				if sg.ID == t.New && len(sg.Deleted) > 0 {
					hit++
				}
			}
			if t.Skipped && windows > 0 {
				hist = append(hist, "window:merge-skipped")
			}
		}
	}
	if hit > 0 {
		hist = append(hist, "window:obsoleted-before-merge-intro")
	} else if windows > 0 {
		hist = append(hist, "window:none")
	}
	// did a scheduled copy window come about?  files removed / merges introduced while a gated copy
	// was pinned
	cwins := 0
	for _, s := range in.Sessions {
		for _, a := range s.Actions {
			if a.Kind == "copy" && a.Gate && a.Name != "" {
				cwins++
			}
		}
	}
	if cwins > 0 {
		inflight, removed, merged := 0, 0, 0
		for _, e := range all {
			switch {
			case e == nil:
			case e.Kind == "copy_start":
				inflight++
			case e.Kind == "copy_end":
				inflight--
			case inflight > 0 && e.Kind == "point" && e.Name == "zap_remove":
				removed++
			case inflight > 0 && e.Kind == "merge_finish" && e.FileMerge:
				merged++
			}
		}
		if removed > 0 && merged > 0 {
			hist = append(hist, "copywin:merge-and-purge-under-pinned-copy")
		} else if removed > 0 {
			// (fully obsoleted segments leave the root at the introduction, without a merge)
			hist = append(hist, "copywin:purge-under-pinned-copy")
		} else {
			hist = append(hist, "copywin:none")
		}
	}
	sort.Strings(hist)
	nontrivial := false
	switch in.Mode {
	case "c03":
		nontrivial = crashes > 0 && stats["commit"] >= 2
	case "c13":
		nontrivial = rolledBack && stats["commit"] >= 3
	case "c14":
		nontrivial = len(copyEpochs) > 0 && stats["merge_finish"]+stats["purge"] > 0
	case "c12":
		nontrivial = stats["zap_remove"] > 0 && stats["listing"] >= 3
	}
	return vh.Result{Term: cf.App("CDisk", cf.List(terms)), Nontrivial: nontrivial, Hist: hist, Direct: direct, Class: class, Traces: 1,
		Key: fmt.Sprintf("%d/%d/%d", len(terms), stats["commit"], stats["merge_finish"])}
}

// under this pseudo tag the lineariser finds the calls of the probe batch of "point_write" notes
const probeCallsTag = ^uint64(0)

// pointEpoch reads the snapshot epoch of a rollback point (an unexported field the API does not
// show; read through reflection, which permits reading - not setting - unexported integer fields).
func pointEpoch(p *scorch.RollbackPoint) uint64 {
	return reflect.ValueOf(p).Elem().FieldByName("epoch").Uint()
}

// pointState copies the closed index at path to cp, rolls the copy back to its rollback point number
// pi (which must be the point of the given epoch), opens it in a child process, which reports what
// it shows, writes the probe batch and reports again.  Returned notes: "point_state" (epoch, number
// of documents, versions, internal values) and "point_write" (epoch, new segment id, number of
// documents, versions afterwards).
func pointState(in In, path, cp string, pi int, epoch uint64) ([]*scorch.VerifEvent, *vh.Direct) {
	if err := os.CopyFS(cp, os.DirFS(path)); err != nil {
		return nil, &vh.Direct{Kind: "error", Detail: "copy: " + err.Error()}
	}
	cpts, err := scorch.RollbackPoints(cp + "/store")
	if err != nil || pi >= len(cpts) || pointEpoch(cpts[pi]) != epoch {
		return nil, &vh.Direct{Kind: "rollback-points-unstable", Detail: fmt.Sprintf("RollbackPoints on a byte-for-byte copy of the closed index: %v, %d points, point #%d is not the point of epoch %d", err, len(cpts), pi, epoch)}
	}
	if err := scorch.Rollback(cp+"/store", cpts[pi]); err != nil {
		return nil, &vh.Direct{Kind: "rollback-failed", Detail: fmt.Sprintf("Rollback to point #%d (epoch %d): %v", pi, epoch, err)}
	}
	const probeTagBase = 900000
	sess := Session{}
	if len(in.Probe) > 0 {
		sess.Actions = []Action{{Kind: "batch", Ops: in.Probe}, {Kind: "observe"}}
	}
	evs, code, stderr, err := runChild(childSpec{Path: cp, Layout: in.Layout, NIDs: in.NIDs, NKeys: in.NKeys, Session: sess, TagBase: probeTagBase, ObserveOnly: len(in.Probe) == 0})
	if err != nil {
		return nil, &vh.Direct{Kind: "error", Detail: err.Error()}
	}
	what := fmt.Sprintf("Rollback to point #%d (epoch %d)", pi, epoch)
	switch code {
	case 0:
	case 4:
		return nil, &vh.Direct{Kind: "reopen-failed", Detail: fmt.Sprintf("the index could not be opened after %s: %s", what, lastLines(stderr, 6))}
	case 10:
		return nil, &vh.Direct{Kind: "reopen-inconsistent", Detail: fmt.Sprintf("after %s: %s", what, strings.TrimSpace(stderr))}
	case 7:
		return nil, &vh.Direct{Kind: "write-after-rollback-failed", Detail: fmt.Sprintf("after %s a batch was refused: %s", what, lastLines(stderr, 6))}
	default:
		return nil, &vh.Direct{Kind: "child-failed", Detail: fmt.Sprintf("after %s: exit %d: %s", what, code, lastLines(stderr, 8))}
	}
	var obs [][]uint64
	var ints []uint64
	newSeg := uint64(0)
	probeTag := strconv.Itoa(probeTagBase + 1)
	for _, e := range evs {
		switch {
		case e.Kind == "note" && e.Name == "observe":
			obs = append(obs, e.Args)
		case e.Kind == "note" && e.Name == "observe_int" && ints == nil:
			ints = e.Args
		case e.Kind == "introduce" && string(e.Internal["__b"]) == probeTag:
			newSeg = e.NewSegID
		}
	}
	if len(obs) == 0 {
		return nil, &vh.Direct{Kind: "error", Detail: "no observation of rollback point"}
	}
	args := append([]uint64{epoch, uint64(len(obs[0]))}, obs[0]...)
	out := []*scorch.VerifEvent{sw.Note("point_state", append(args, ints...)...)}
	if len(obs) > 1 {
		out = append(out, sw.Note("point_write", append([]uint64{epoch, newSeg, uint64(len(obs[1]))}, obs[1]...)...))
	}
	return out, nil
}

// execBuilder: the index is made by the offline Builder, then opened and written to while online
// copies run.  The trace model starts from an empty index and cannot follow this one, so the run is
// judged at the level of the statement (Scorch/DiskCorr.v check_prefix): every copy is the replay of
// a whole-batch prefix no older than what had returned when it began, the source keeps everything.
func execBuilder(in In, dir, path string) vh.Result {
	_, code, stderr, err := runChild(childSpec{Path: path, Layout: in.Layout, NIDs: in.NIDs, Builder: in.Builder})
	if err != nil || code != 0 {
		return vh.Result{Direct: &vh.Direct{Kind: "child-failed", Detail: fmt.Sprintf("builder session exit %d %v: %s", code, err, lastLines(stderr, 8))}}
	}
	opsTerm := func(ops []sw.Op) cf.T {
		d, _ := sw.OpsTerms(ops)
		return cf.List(d)
	}
	batches := []cf.T{opsTerm(in.Builder)}
	s := in.Sessions[0]
	for _, a := range s.Actions {
		if a.Kind == "batch" {
			batches = append(batches, opsTerm(a.Ops))
		}
	}
	evs, code, stderr, err := runChild(childSpec{Path: path, Layout: in.Layout, NIDs: in.NIDs, Session: s})
	if err != nil {
		return vh.Result{Direct: &vh.Direct{Kind: "error", Detail: err.Error()}}
	}
	switch code {
	case 0:
	case 4:
		return vh.Result{Direct: &vh.Direct{Kind: "reopen-failed", Detail: "an index made by the Builder could not be opened: " + lastLines(stderr, 6)}}
	case 11:
		return vh.Result{Direct: &vh.Direct{Kind: "copy-failed", Detail: "CopyTo failed on an index made by the Builder while it was being written: " + lastLines(stderr, 6)}}
	default:
		return vh.Result{Direct: &vh.Direct{Kind: "child-failed", Detail: fmt.Sprintf("exit %d: %s", code, lastLines(stderr, 12))}}
	}
	begin, done := map[uint64]uint64{}, map[uint64]uint64{}
	for _, e := range evs {
		if e.Kind == "note" && e.Name == "copy_begin" {
			begin[e.Args[0]] = e.Args[1]
		}
		if e.Kind == "note" && e.Name == "copy_done" {
			done[e.Args[0]] = e.Args[1]
		}
	}
	docsTerm := func(args []uint64) cf.T {
		var ds []cf.T
		for i, a := range args {
			if a == 0 {
				ds = append(ds, cf.Pair(cf.Int(i), cf.None))
			} else {
				ds = append(ds, cf.Pair(cf.Int(i), cf.Some(cf.Z(int64(a)-1))))
			}
		}
		return cf.List(ds)
	}
	observe := func(p string) ([]uint64, *vh.Direct) {
		evs, code, stderr, err := runChild(childSpec{Path: p, Layout: in.Layout, NIDs: in.NIDs, ObserveOnly: true})
		if err != nil || code != 0 {
			return nil, &vh.Direct{Kind: "copy-unusable", Detail: fmt.Sprintf("%s could not be opened / read (exit %d, %v): %s", filepath.Base(p), code, err, lastLines(stderr, 6))}
		}
		for _, e := range evs {
			if e.Kind == "note" && e.Name == "observe" {
				return e.Args, nil
			}
		}
		return nil, &vh.Direct{Kind: "error", Detail: "no observation from " + p}
	}
	var copies []cf.T
	ci := uint64(0)
	for _, a := range s.Actions {
		if a.Kind != "copy" {
			continue
		}
		args, d := observe(filepath.Join(dir, a.Dest))
		if d != nil {
			return vh.Result{Direct: d}
		}
		// +1: the Builder's documents are batch number one of the history
		copies = append(copies, cf.Tuple(cf.Nat(int(begin[ci])+1), cf.Nat(int(done[ci])+1), docsTerm(args)))
		ci++
	}
	final, d := observe(path)
	if d != nil {
		return vh.Result{Direct: d}
	}
	finalLo := len(batches) // safe batches: every returned batch is durable at the clean close
	if in.Layout.Unsafe {
		finalLo = 1 // only the Builder's documents are known durable
	}
	return vh.Result{Term: cf.App("CPrefix", cf.List(batches), cf.List(copies), cf.Nat(finalLo), docsTerm(final)), Nontrivial: len(copies) > 0,
		Hist: []string{"builder-made-index", fmt.Sprintf("builder:copies=%d", len(copies))}, Key: fmt.Sprintf("builder/%d", len(batches))}
}

// execKill: the first session is killed with SIGKILL at an arbitrary wall-clock instant.  The event
// log can lag behind the disk then, so the run is judged by the statement (DiskCorr.check_kill).
func execKill(in In, dir, path string) vh.Result {
	opsTerm := func(s Session) []cf.T {
		var out []cf.T
		for _, a := range s.Actions {
			if a.Kind == "batch" {
				d, _ := sw.OpsTerms(a.Ops)
				out = append(out, cf.List(d))
			}
		}
		return out
	}
	docsTerm := func(args []uint64) cf.T {
		var ds []cf.T
		for i, a := range args {
			if a == 0 {
				ds = append(ds, cf.Pair(cf.Int(i), cf.None))
			} else {
				ds = append(ds, cf.Pair(cf.Int(i), cf.Some(cf.Z(int64(a)-1))))
			}
		}
		return cf.List(ds)
	}
	evs, code, stderr, err := runChildKill(childSpec{Path: path, Layout: in.Layout, NIDs: in.NIDs, Session: in.Sessions[0], First: true}, time.Duration(in.KillUS)*time.Microsecond)
	if err != nil {
		return vh.Result{Direct: &vh.Direct{Kind: "error", Detail: err.Error()}}
	}
	if code != -1 && code != 0 && code != 137 {
		return vh.Result{Direct: &vh.Direct{Kind: "child-failed", Detail: fmt.Sprintf("killed session exit %d: %s", code, lastLines(stderr, 8))}}
	}
	lo, hi := 0, 0
	for _, e := range evs {
		if e.Kind == "note" && e.Name == "ack" {
			lo++
		}
		if e.Kind == "note" && e.Name == "submit" {
			hi++
		}
	}
	obs := func(s Session, base int64) ([]uint64, *vh.Direct) {
		evs, code, stderr, err := runChild(childSpec{Path: path, Layout: in.Layout, NIDs: in.NIDs, Session: s, TagBase: base})
		if err != nil {
			return nil, &vh.Direct{Kind: "error", Detail: err.Error()}
		}
		if code == 4 {
			return nil, &vh.Direct{Kind: "reopen-failed", Detail: fmt.Sprintf("the index could not be opened after SIGKILL %d us into the workload: %s", in.KillUS, lastLines(stderr, 6))}
		}
		if code != 0 {
			return nil, &vh.Direct{Kind: "child-failed", Detail: fmt.Sprintf("exit %d: %s", code, lastLines(stderr, 8))}
		}
		for _, e := range evs {
			if e.Kind == "note" && e.Name == "observe" {
				return e.Args, nil
			}
		}
		return nil, &vh.Direct{Kind: "error", Detail: "no observation"}
	}
	o1, d := obs(in.Sessions[1], 1000)
	if d != nil {
		return vh.Result{Direct: d, Class: "reopen-failed"}
	}
	o2, d := obs(Session{}, 2000)
	if d != nil {
		return vh.Result{Direct: d}
	}
	return vh.Result{Term: cf.App("CKill", cf.List(opsTerm(in.Sessions[0])), cf.Nat(lo), cf.Nat(hi), docsTerm(o1), cf.List(opsTerm(in.Sessions[1])), docsTerm(o2)),
		Nontrivial: hi > 0 && hi < len(opsTerm(in.Sessions[0])), Hist: []string{"sigkill", fmt.Sprintf("sigkill:acked=%d", min(lo, 9))}, Key: fmt.Sprintf("kill/%d/%d/%d", in.KillUS, lo, hi)}
}

func describePrev(in In, si int) string {
	if si == 0 {
		return "first session"
	}
	p := in.Sessions[si-1]
	if p.Crash != nil {
		return fmt.Sprintf("crash at %s #%d, garble=%v", p.Crash.Point, p.Crash.Occ, p.Garble)
	}
	return "clean close"
}

func lastLines(s string, n int) string {
	ls := strings.Split(strings.TrimSpace(s), "\n")
	if len(ls) > n {
		ls = ls[len(ls)-n:]
	}
	return strings.Join(ls, " | ")
}

var rules = map[string]string{
	"c03": "three-session runs on a disk-backed scorch index (5-6 persister/merge option variants, safe and unsafe batches, retention 1-3 or default): session 1 = 4-12 tagged batches with forced merges, killed (os.Exit in a child process) at the n-th occurrence of one of 22 hook points (every point used in every quick run; n = 1, 2-4 or 3-12), optionally followed by damaging every segment file no committed snapshot names; session 2 = reopen, observe, 2-6 more batches, crash again or close; session 3 = reopen, observe. Scheduled family (unsafe batches, batches also set/delete two internal keys): the persister is held (bounded) at the end of a round while 2-3 batches build in-memory segments, then at the merge_start of their in-memory merge while 1-3 batches delete/overwrite documents of the picked segments, released with the crash counter armed, killed at the m-th (1-3) occurrence of a hook point from there on; the reopened session may contain another window; reopens also report every internal key. Plus sessions killed by SIGKILL at wall-clock instants (judged by the statement). Non-trivial: a crash really happened and at least two snapshots had been committed",
	"c13": "session 1 = 5-12 spaced (or 13-20 unsafe, bursty; every fourth case with a scheduled in-memory-merge window) tagged batches that also set/delete three internal keys, forced merges, numSnapshotsToKeep 1/2/3/5 (unsafe 2/3/5/8), a third with rollbackSamplingInterval 2-25 ms and a retention factor; settle, clean close; RollbackPoints is listed: epoch and GetInternal of every key for EVERY point go to the model; now and then a batch is undone by the next one (also at the very end of the history), so that the newest segment files belong to older points only; for each point (up to 6) a copy of the index is rolled back to it, opened, its documents and internal values reported, one more batch written to it and the documents reported again (the model, rolled back to that record, must accept that write - fresh segment id - and show the same contents); Rollback applied to one point (chosen by seed); session 2 = reopen, observe documents and internal values (must equal the state of that point), write 1-4 batches, close; session 3 = reopen, observe. Non-trivial: at least three snapshots were committed before the rollback",
	"c14": "6-16 tagged batches with forced merges and pauses; 1-3 CopyTo calls start at random positions and run concurrently with the rest of the workload (persists, merges, purges); every destination is then opened as an index and its contents reported. Non-trivial: a merge or purge happened during the run. Scheduled copy windows (6 per quick run): gated copies pinned at roots the held persister never writes a record for (a root with in-memory segments / two copies at the same or neighbouring roots, one of which completes first) are held across the persist of those segments, batches obsoleting the pinned files, a forced merge and purge rounds sequenced by scorch's counters; then they run: CopyTo must succeed and each destination equal its pinned root",
	"c12": "8-24 tagged batches (safe/unsafe, retention 0-3) with forced merges, held readers and an online copy; a sampler lists the segment files every 1.5 ms (begin/end markers), the directory is listed at quiescence together with the retained snapshot epochs, and /proc/self/fd is checked after Close. Non-trivial: at least one segment file was removed and three listings were taken. Scheduled copy windows (6 per quick run): gated copies pinned at roots the held persister never writes a record for (a root with in-memory segments / two copies at the same or neighbouring roots, one of which completes first) are held across the persist of those segments, batches obsoleting the pinned files, a forced merge and purge rounds sequenced by scorch's counters; then they run: CopyTo must succeed and each destination equal its pinned root",
}

func main() {
	if sj := os.Getenv("VH_CHILD"); sj != "" {
		childMain(sj)
		return
	}
	mode := vh.PeekMode()
	if mode == "" {
		mode = "c03"
	}
	vh.Main(vh.Config{
		Property:  strings.ToUpper(mode),
		Imports:   []string{"Common.Bytes", "Scorch.Model", "Scorch.Corr", "Scorch.Disk", "Scorch.DiskCorr"},
		CaseType:  "DiskCorr.dcase",
		CheckFn:   "DiskCorr.dcheck",
		ExplainFn: "DiskCorr.dexplain",
		Rule:      rules[mode] + ". The whole multi-session event stream goes to the Coq persistence model.",
		ShardSize: 3,
		Workers:   8,
	}, gen, exec_)
}
