// C15 correspondence harness: operation sequences (batches of set/delete/merge — small ones, and
// large ones that touch keys repeatedly —, readers opened at arbitrary points and read later, get /
// multi-get / prefix and range iterators driven by Seek/Next programs, including backward Seeks and
// Seeks on exhausted iterators over keys deleted by several earlier batches) run against the five KV stores usable under the upsidedown index, obtained through
// registry.KVStoreConstructorByName.  Every value the implementation returns is recorded in the
// Coq case; the oracle is the Coq model/spec (Kv/Adapter.v, Kv/AdapterCorr.v).
//
// Store configurations: the five stores in their default form, and moss over a LOWER-LEVEL store
// (mossLowerLevelStoreName = gtreap / boltdb / goleveldb through llStore in moss/lower.go, or the
// native mossStore) with mossLowerLevelMaxBatchSize unset / 1 / 2 / 3 / 4 / 7.  In those the
// sequences contain `sync` steps (the harness polls moss' collection statistics until no dirty
// segment is left, i.e. the persister has handed everything to the lower level) and `reopen` steps
// (store closed and opened again over the same lower-level files); reads go through readers opened
// before and after the flush.
package main

import (
	"bytes"
	"encoding/binary"
	"fmt"
	"math"
	"os"
	"sort"
	"strings"
	"sync/atomic"
	"time"

	"github.com/blevesearch/bleve/v2/index/upsidedown"
	_ "github.com/blevesearch/bleve/v2/index/upsidedown/store/boltdb"
	_ "github.com/blevesearch/bleve/v2/index/upsidedown/store/goleveldb"
	"github.com/blevesearch/bleve/v2/index/upsidedown/store/gtreap"
	_ "github.com/blevesearch/bleve/v2/index/upsidedown/store/metrics"
	bmoss "github.com/blevesearch/bleve/v2/index/upsidedown/store/moss"
	"github.com/blevesearch/bleve/v2/registry"
	index "github.com/blevesearch/bleve_index_api"
	store "github.com/blevesearch/upsidedown_store_api"

	cf "verifharness/internal/coqfmt"
	"verifharness/internal/vh"
	"verifharness/internal/vrand"
)

// ---------------------------------------------------------------- inputs

type Op struct {
	T string `json:"t"` // set | del | merge
	K []byte `json:"k"`
	V []byte `json:"v,omitempty"`
}

type IOp struct {
	T string `json:"t"` // seek | next | drain (Next until invalid)
	K []byte `json:"k,omitempty"`
	// KNil: Seek(nil) instead of Seek([]byte{})
	KNil bool `json:"knil,omitempty"`
}

type Read struct {
	T    string   `json:"t"` // get | mget | prefix | range
	K    []byte   `json:"k,omitempty"`
	Ks   [][]byte `json:"ks,omitempty"`
	P    []byte   `json:"p,omitempty"`
	PNil bool     `json:"pnil,omitempty"`
	S    []byte   `json:"s,omitempty"`
	SNil bool     `json:"snil,omitempty"`
	E    []byte   `json:"e,omitempty"`
	ENil bool     `json:"enil,omitempty"`
	Prog []IOp    `json:"prog,omitempty"`
}

type Step struct {
	T    string `json:"t"` // batch | open | read | close | sync | reopen
	Ops  []Op   `json:"ops,omitempty"`
	Rid  int    `json:"rid,omitempty"`
	Read *Read  `json:"read,omitempty"`
}

type In struct {
	Kind  string `json:"kind"`  // seq | pfxff | mget | dup | policy | bigdup | bseek | persist | llmix | mopfull | moppartial
	Store string `json:"store"` // gtreap | boltdb | goleveldb | moss | metrics
	Mo    string `json:"mo"`    // cat | catnp | udc
	// store configuration (moss only): lower-level store ("" = none, moss purely in memory) and
	// mossLowerLevelMaxBatchSize (0 = not set)
	LL    string `json:"ll,omitempty"` // gtreap | boltdb | goleveldb | mossStore
	LLMax int    `json:"llmax,omitempty"`
	Steps []Step `json:"steps,omitempty"`
	// merge-operator cases
	Key      []byte   `json:"key,omitempty"`
	Existing []byte   `json:"existing,omitempty"`
	ExNil    bool     `json:"exnil,omitempty"`
	Operands [][]byte `json:"operands,omitempty"`
	L        []byte   `json:"l,omitempty"`
	R        []byte   `json:"r,omitempty"`
}

var stores = []string{"gtreap", "boltdb", "goleveldb", "moss", "metrics"}

func storeCode(s string) int {
	for i, n := range stores {
		if n == s {
			return i
		}
	}
	return -1
}

var lowerLevels = []string{"gtreap", "boltdb", "goleveldb", "mossStore"}

func llCode(s string) int {
	for i, n := range lowerLevels {
		if n == s {
			return i
		}
	}
	return -1
}

// does the lower level keep its contents when the store is closed?
func llPersistent(ll string) bool { return ll == "boltdb" || ll == "goleveldb" || ll == "mossStore" }

func moCode(s string) int {
	switch s {
	case "cat":
		return 0
	case "catnp":
		return 1
	}
	return 2
}

// ---------------------------------------------------------------- merge operators

// catMerge: FullMerge appends the operands to the existing value; PartialMerge concatenates, or
// (partial=false) always refuses.  Mirrors mo_cat / mo_catnp in Kv/Adapter.v.
type catMerge struct{ partial bool }

func (catMerge) FullMerge(key, existing []byte, operands [][]byte) ([]byte, bool) {
	rv := append([]byte{}, existing...)
	for _, o := range operands {
		rv = append(rv, o...)
	}
	return rv, true
}
func (c catMerge) PartialMerge(key, l, r []byte) ([]byte, bool) {
	if !c.partial {
		return nil, false
	}
	return append(append([]byte{}, l...), r...), true
}
func (c catMerge) Name() string { return "cat" }

// upsidedown's own (unexported) mergeOperator, captured from a store constructor it is passed to.
var udcMO store.MergeOperator

func captureUDC() {
	err := registry.RegisterKVStore("vh_c15_capture", func(mo store.MergeOperator, cfg map[string]interface{}) (store.KVStore, error) {
		udcMO = mo
		return gtreap.New(mo, map[string]interface{}{"path": ""})
	})
	if err != nil {
		panic(err)
	}
	idx, err := upsidedown.NewUpsideDownCouch("vh_c15_capture", map[string]interface{}{}, index.NewAnalysisQueue(1))
	if err != nil {
		panic(err)
	}
	if err := idx.Open(); err != nil {
		panic(err)
	}
	_ = idx.Close()
	if udcMO == nil {
		panic("upsidedown merge operator not captured")
	}
}

func moOf(name string) store.MergeOperator {
	switch name {
	case "cat":
		return catMerge{partial: true}
	case "catnp":
		return catMerge{partial: false}
	}
	return udcMO
}

// ---------------------------------------------------------------- generation

var alphabet = []byte{0x00, 0x61, 0x62, 0xff}

func randKey(r *vrand.R, minLen, maxLen int) []byte {
	n := r.Range(minLen, maxLen)
	k := make([]byte, n)
	for i := range k {
		k[i] = vrand.Pick(r, alphabet)
	}
	return k
}

type genCtx struct {
	r     *vrand.R
	store string
	mo    string
	ll    string // moss lower level ("" = none)
	pool  [][]byte
}

// bbolt rejects empty keys ("key required"), as a store and as moss' lower level alike
func (g *genCtx) minKeyLen() int {
	if g.store == "boltdb" || g.ll == "boltdb" {
		return 1
	}
	return 0
}

func le64(v int64) []byte {
	b := make([]byte, 8)
	binary.LittleEndian.PutUint64(b, uint64(v))
	return b
}

func uvar(v uint64) []byte {
	b := make([]byte, binary.MaxVarintLen64)
	return b[:binary.PutUvarint(b, v)]
}

// key pool of a case: small, with shared prefixes; udc keys look like dictionary rows ('d' field term).
func (g *genCtx) makePool() { g.makePoolN(g.r.Range(4, 11)) }

func (g *genCtx) makePoolN(n int) {
	r := g.r
	minLen := g.minKeyLen()
	for len(g.pool) < n {
		var k []byte
		if len(g.pool) > 0 && r.Chance(1, 2) {
			b := vrand.Pick(r, g.pool)
			if g.mo == "udc" {
				if len(b) < 5 {
					k = append(append([]byte{}, b...), vrand.Pick(r, alphabet))
				}
			} else if len(b) < 3 {
				k = append(append([]byte{}, b...), vrand.Pick(r, alphabet))
			}
		}
		if k == nil {
			if g.mo == "udc" {
				k = append([]byte{'d', byte(r.Intn(2)), 0}, randKey(r, 0, 2)...)
			} else {
				k = randKey(r, minLen, 3)
			}
		}
		dup := false
		for _, p := range g.pool {
			if string(p) == string(k) {
				dup = true
			}
		}
		if !dup || r.Chance(1, 8) {
			g.pool = append(g.pool, k)
		}
	}
}

func (g *genCtx) poolKey() []byte { return vrand.Pick(g.r, g.pool) }

// any key: mostly from the pool, else a neighbour (extended, truncated) or a fresh one
func (g *genCtx) anyKey() []byte {
	r := g.r
	switch r.Intn(6) {
	case 0:
		return randKey(r, 0, 3)
	case 1:
		k := g.poolKey()
		return append(append([]byte{}, k...), vrand.Pick(r, alphabet))
	case 2:
		k := g.poolKey()
		if len(k) > 0 {
			return append([]byte{}, k[:r.Intn(len(k))]...)
		}
		return k
	default:
		return g.poolKey()
	}
}

func (g *genCtx) value() []byte {
	r := g.r
	if g.mo == "udc" {
		if r.Chance(1, 8) {
			return []byte{}
		}
		return uvar(vrand.Pick(r, []uint64{0, 1, 2, 3, 127, 128, 300, 16384, 1 << 63, math.MaxUint64, math.MaxUint64 - 1}))
	}
	if r.Chance(1, 5) {
		return []byte{}
	}
	n := r.Range(1, 2)
	v := make([]byte, n)
	for i := range v {
		v[i] = vrand.Pick(r, []byte{'A', 'B', 'C', 0x00, 0xff})
	}
	return v
}

func (g *genCtx) operand() []byte {
	r := g.r
	if g.mo == "udc" {
		return le64(vrand.Pick(r, []int64{1, 1, -1, -1, 2, -2, 0, -5, 1000, math.MinInt64, math.MaxInt64, -300}))
	}
	if r.Chance(1, 8) {
		return []byte{}
	}
	return []byte{vrand.Pick(r, []byte{'m', 'n', 'o', 0xff, 0x00})}
}

// a batch whose native form has no repeated key: set/delete keys distinct, merge keys disjoint from
// them; a merge key may repeat only when the operator partial-merges (one operand results).
func (g *genCtx) cleanBatch() []Op {
	r := g.r
	n := r.Intn(6)
	if r.Chance(1, 12) {
		n = r.Range(6, 10)
	}
	used := map[string]string{}
	var ops []Op
	for i := 0; i < n; i++ {
		k := g.poolKey()
		kind := []string{"set", "set", "del", "merge"}[r.Intn(4)]
		prev, seen := used[string(k)]
		if seen {
			if !(prev == "merge" && kind == "merge" && g.mo != "catnp") {
				continue
			}
		}
		used[string(k)] = kind
		switch kind {
		case "set":
			ops = append(ops, Op{T: "set", K: k, V: g.value()})
		case "del":
			ops = append(ops, Op{T: "del", K: k})
		case "merge":
			ops = append(ops, Op{T: "merge", K: k, V: g.operand()})
		}
	}
	return ops
}

// a batch that touches some key more than once with set/delete (in-order application matters), or
// gives one key several operands under an operator that refuses partial merges
func (g *genCtx) dupBatch() []Op {
	r := g.r
	var ops []Op
	k := g.poolKey()
	if g.mo == "catnp" && r.Chance(1, 3) {
		for i := r.Range(2, 3); i > 0; i-- {
			ops = append(ops, Op{T: "merge", K: k, V: []byte{vrand.Pick(r, []byte{'m', 'n', 'o'})}})
		}
	} else {
		for i := r.Range(2, 4); i > 0; i-- {
			if r.Chance(2, 5) {
				ops = append(ops, Op{T: "del", K: k})
			} else {
				ops = append(ops, Op{T: "set", K: k, V: g.value()})
			}
		}
	}
	// unrelated ops around it
	for _, o := range g.cleanBatch() {
		if string(o.K) != string(k) && len(ops) < 6 {
			if r.Bool() {
				ops = append(ops, o)
			} else {
				ops = append([]Op{o}, ops...)
			}
		}
	}
	return ops
}

// a batch in which one key is both merged and set/deleted (judged per adapter policy)
func (g *genCtx) policyBatch() []Op {
	r := g.r
	k := g.poolKey()
	var ops []Op
	sd := func() Op {
		if r.Chance(1, 3) {
			return Op{T: "del", K: k}
		}
		return Op{T: "set", K: k, V: g.value()}
	}
	switch r.Intn(3) {
	case 0:
		ops = []Op{{T: "merge", K: k, V: g.operand()}, sd()}
	case 1:
		ops = []Op{sd(), {T: "merge", K: k, V: g.operand()}}
	default:
		ops = []Op{{T: "merge", K: k, V: g.operand()}, sd(), {T: "merge", K: k, V: g.operand()}}
	}
	for _, o := range g.cleanBatch() {
		if string(o.K) != string(k) && len(ops) < 6 {
			ops = append(ops, o)
		}
	}
	return ops
}

func endsFF(b []byte) bool { return len(b) > 0 && b[len(b)-1] == 0xff }

func (g *genCtx) seekKey(around ...[]byte) IOp {
	r := g.r
	var k []byte
	switch r.Intn(8) {
	case 0:
		if r.Bool() {
			return IOp{T: "seek", KNil: true}
		}
		k = []byte{}
	case 1, 2:
		if len(around) > 0 {
			b := vrand.Pick(r, around)
			switch r.Intn(4) {
			case 0:
				k = append([]byte{}, b...)
			case 1:
				k = append(append([]byte{}, b...), vrand.Pick(r, alphabet))
			case 2:
				k = append(append([]byte{}, b...), 0xff, 0xff)
			default:
				if len(b) > 0 {
					k = append([]byte{}, b[:len(b)-1]...)
				}
			}
		} else {
			k = g.anyKey()
		}
	case 3:
		k = []byte{0xff, 0xff, 0xff, 0xff}
	default:
		k = g.anyKey()
	}
	if k == nil {
		k = []byte{}
	}
	return IOp{T: "seek", K: k}
}

func (g *genCtx) program(around ...[]byte) []IOp {
	r := g.r
	switch r.Intn(4) {
	case 0: // full iteration
		return []IOp{{T: "drain"}}
	case 1: // seek then full iteration
		return []IOp{g.seekKey(around...), {T: "drain"}}
	}
	var prog []IOp
	for n := r.Range(1, 7); n > 0; n-- {
		if r.Chance(2, 5) {
			prog = append(prog, g.seekKey(around...))
		} else {
			prog = append(prog, IOp{T: "next"})
		}
	}
	if r.Bool() {
		prog = append(prog, IOp{T: "drain"})
	}
	return prog
}

func (g *genCtx) prefixRead(wantFF bool) *Read {
	r := g.r
	for try := 0; ; try++ {
		var p []byte
		switch r.Intn(5) {
		case 0:
			p = []byte{}
		case 1:
			p = randKey(r, 1, 2)
		default:
			k := g.poolKey()
			p = append([]byte{}, k[:r.Intn(len(k)+1)]...)
		}
		if wantFF && !endsFF(p) {
			if try < 20 {
				continue
			}
			p = append(p, 0xff)
		}
		if !wantFF && endsFF(p) && g.store == "moss" {
			// moss + prefix ending in 0xff lives in the pfxff cases only (class moss-prefix-ff)
			continue
		}
		rd := &Read{T: "prefix", P: p}
		if len(p) == 0 && r.Bool() {
			rd.PNil = true
		}
		rd.Prog = g.program(p)
		return rd
	}
}

func (g *genCtx) rangeRead() *Read {
	r := g.r
	rd := &Read{T: "range"}
	a, b := g.anyKey(), g.anyKey()
	if string(a) > string(b) && !r.Chance(1, 10) {
		a, b = b, a
	}
	rd.S, rd.E = a, b
	switch r.Intn(6) {
	case 0:
		rd.S, rd.SNil = nil, true
	case 1:
		rd.E, rd.ENil = nil, true
	case 2:
		rd.S, rd.SNil, rd.E, rd.ENil = nil, true, nil, true
	}
	if rd.S == nil && !rd.SNil {
		rd.S = []byte{}
	}
	if rd.E == nil && !rd.ENil {
		rd.E = []byte{}
	}
	rd.Prog = g.program(rd.S, rd.E)
	return rd
}

func (g *genCtx) read() *Read {
	switch g.r.Intn(5) {
	case 0, 1:
		return &Read{T: "get", K: g.anyKey()}
	case 2, 3:
		return g.prefixRead(false)
	default:
		return g.rangeRead()
	}
}

// final observation of the whole store and of every reader still open
func (g *genCtx) finish(steps []Step, open []int, nextRid int) []Step {
	steps = append(steps, Step{T: "open", Rid: nextRid})
	open = append(open, nextRid)
	for _, rid := range open {
		steps = append(steps, Step{T: "read", Rid: rid, Read: &Read{T: "range", SNil: true, ENil: true, Prog: []IOp{{T: "drain"}}}})
	}
	for i, k := range g.pool {
		if i < 6 {
			steps = append(steps, Step{T: "read", Rid: nextRid, Read: &Read{T: "get", K: k}})
		}
	}
	for _, rid := range open {
		steps = append(steps, Step{T: "close", Rid: rid})
	}
	return steps
}

func genSeq(r *vrand.R, storeName, mo string) In { return genSeqLL(r, storeName, mo, "", 0) }

// the dump every case ends with: whole-store range iteration
func dumpRead() *Read {
	return &Read{T: "range", SNil: true, ENil: true, Prog: []IOp{{T: "drain"}}}
}

// persisting configurations: a sync after about every second batch (so that later reads are served
// partly or wholly by the lower-level store, through readers opened before and after the flush) and,
// where the lower level keeps its files, at the end a sync + close + reopen + dump on a fresh reader.
// All readers are closed by then (finish).
func withPersistence(r *vrand.R, ll string, steps []Step) []Step {
	var out []Step
	for _, st := range steps {
		out = append(out, st)
		if st.T == "batch" && r.Bool() {
			out = append(out, Step{T: "sync"})
		}
	}
	if llPersistent(ll) {
		const rid = 9000
		out = append(out, Step{T: "sync"}, Step{T: "reopen"}, Step{T: "open", Rid: rid},
			Step{T: "read", Rid: rid, Read: dumpRead()}, Step{T: "close", Rid: rid})
	}
	return out
}

func genSeqLL(r *vrand.R, storeName, mo, ll string, llmax int) In {
	g := &genCtx{r: r, store: storeName, mo: mo, ll: ll}
	g.makePool()
	var steps []Step
	var open []int
	nextRid := 1
	n := r.Range(3, 25)
	for i := 0; i < n; i++ {
		c := r.Intn(10)
		switch {
		case c < 4 || i == 0:
			steps = append(steps, Step{T: "batch", Ops: g.cleanBatch()})
		case c < 6 && len(open) < 3:
			steps = append(steps, Step{T: "open", Rid: nextRid})
			open = append(open, nextRid)
			nextRid++
		case c < 9:
			if len(open) == 0 || r.Chance(1, 3) {
				// fresh reader, one read, closed again
				steps = append(steps, Step{T: "open", Rid: nextRid}, Step{T: "read", Rid: nextRid, Read: g.read()}, Step{T: "close", Rid: nextRid})
				nextRid++
			} else {
				steps = append(steps, Step{T: "read", Rid: vrand.Pick(r, open), Read: g.read()})
			}
		default:
			if len(open) > 0 {
				j := r.Intn(len(open))
				steps = append(steps, Step{T: "close", Rid: open[j]})
				open = append(open[:j], open[j+1:]...)
			}
		}
	}
	steps = g.finish(steps, open, nextRid)
	if ll != "" {
		steps = withPersistence(r, ll, steps)
	}
	return In{Kind: "seq", Store: storeName, Mo: mo, LL: ll, LLMax: llmax, Steps: steps}
}

// small cases: a few batches, then ONE read of the special kind on a fresh reader
func genSmall(r *vrand.R, kind, storeName, mo string) In {
	g := &genCtx{r: r, store: storeName, mo: mo}
	g.makePool()
	var steps []Step
	nb := r.Range(1, 4)
	for i := 0; i < nb; i++ {
		switch kind {
		case "dup":
			if i == nb-1 || r.Bool() {
				steps = append(steps, Step{T: "batch", Ops: g.dupBatch()})
				continue
			}
		case "policy":
			if i == nb-1 || r.Bool() {
				steps = append(steps, Step{T: "batch", Ops: g.policyBatch()})
				continue
			}
		}
		steps = append(steps, Step{T: "batch", Ops: g.cleanBatch()})
	}
	switch kind {
	case "pfxff":
		// make sure something lives under and right after an 0xff-terminated prefix
		k := g.poolKey()
		base := append(append([]byte{}, k...), 0xff)
		var succ []byte // the key the carry computes: k+1 with a 0x00 appended region
		for i := len(k) - 1; i >= 0; i-- {
			if k[i] != 0xff {
				succ = append(append([]byte{}, k[:i]...), k[i]+1)
				break
			}
		}
		ops := []Op{{T: "set", K: append(append([]byte{}, base...), 0x61), V: []byte("u")}}
		if succ != nil {
			ops = append(ops, Op{T: "set", K: succ, V: []byte("s")})
		}
		steps = append(steps, Step{T: "batch", Ops: ops})
		rd := g.prefixRead(true)
		if r.Bool() {
			rd = &Read{T: "prefix", P: base, Prog: g.program(base)}
		}
		steps = append(steps, Step{T: "open", Rid: 1}, Step{T: "read", Rid: 1, Read: rd}, Step{T: "close", Rid: 1})
		return In{Kind: kind, Store: storeName, Mo: mo, Steps: steps}
	case "mget":
		var ks [][]byte
		for i := r.Range(1, 4); i > 0; i-- {
			ks = append(ks, g.anyKey())
		}
		steps = append(steps, Step{T: "open", Rid: 1}, Step{T: "read", Rid: 1, Read: &Read{T: "mget", Ks: ks}}, Step{T: "close", Rid: 1})
		return In{Kind: kind, Store: storeName, Mo: mo, Steps: steps}
	}
	return In{Kind: kind, Store: storeName, Mo: mo, Steps: g.finish(steps, nil, 1)}
}

func genMop(r *vrand.R, full bool) In {
	key := append([]byte{'d', byte(r.Intn(3)), byte(r.Intn(2))}, randKey(r, 0, 3)...)
	opnd := func() []byte {
		switch r.Intn(4) {
		case 0:
			return le64(vrand.Pick(r, []int64{0, 1, -1, math.MinInt64, math.MaxInt64, math.MinInt64 + 1, -2, 2}))
		case 1:
			return le64(int64(r.Range(-300, 300)))
		case 2:
			// 8 significant bytes followed by junk (only the first 8 are read)
			return append(le64(int64(r.Range(-3, 3))), 0x7f)
		default:
			return le64(r.I64() >> uint(r.Intn(64)))
		}
	}
	if !full {
		return In{Kind: "moppartial", Key: key, L: opnd(), R: opnd()}
	}
	in := In{Kind: "mopfull", Key: key}
	switch r.Intn(8) {
	case 0:
		in.ExNil = true
	case 1:
		in.Existing = []byte{}
	case 2: // truncated varint: parse error
		in.Existing = []byte{0x80}
	case 3: // 11 continuation bytes: overflow
		in.Existing = []byte{0xff, 0xff, 0xff, 0xff, 0xff, 0xff, 0xff, 0xff, 0xff, 0xff, 0x01}
	case 4: // 10th byte > 1: overflow; or exactly the largest
		in.Existing = []byte{0xff, 0xff, 0xff, 0xff, 0xff, 0xff, 0xff, 0xff, 0xff, byte(r.Range(0, 3))}
	case 5: // varint followed by junk
		in.Existing = append(uvar(uint64(r.Range(0, 400))), 0x80, 0x05)
	default:
		in.Existing = uvar(vrand.Pick(r, []uint64{0, 1, 2, 127, 128, 255, 16383, 16384, 1 << 32, 1 << 62, 1 << 63, math.MaxUint64, math.MaxUint64 - 1, uint64(r.Range(0, 100000))}))
	}
	for n := r.Intn(5); n > 0; n-- {
		in.Operands = append(in.Operands, opnd())
	}
	return in
}

// ---------------------------------------------------------------- large batches with repeated keys

// a value different from every one in prev (so that a reordering of two sets is observable)
func (g *genCtx) otherValue(prev [][]byte) []byte {
	for try := 0; ; try++ {
		v := g.value()
		if try > 20 {
			v = append(v, byte('0'+len(prev)))
		}
		same := false
		for _, p := range prev {
			if string(p) == string(v) {
				same = true
			}
		}
		if !same {
			return v
		}
	}
}

// ops on ONE key, in the order they are to be issued: 2-3 set/deletes, never all deletes, all set
// values distinct (set/set, set/delete, delete/set and their three-op extensions)
func (g *genCtx) dupGroup(k []byte) []Op {
	r := g.r
	n := r.Range(2, 3)
	var ops []Op
	var vals [][]byte
	sets := 0
	for i := 0; i < n; i++ {
		if r.Chance(2, 5) && !(i == n-1 && sets == 0) {
			ops = append(ops, Op{T: "del", K: k})
		} else {
			v := g.otherValue(vals)
			vals = append(vals, v)
			ops = append(ops, Op{T: "set", K: k, V: v})
			sets++
		}
	}
	return ops
}

// a batch of 13-40 operations in which 1-6 keys are touched two or three times by set/delete; the
// other keys once (set / delete), or by merges only (1-2 operands).  The per-key order is the order
// of dupGroup; the groups are interleaved at random.  Returns the ops and the repeated keys.
func (g *genCtx) bigDupBatch() ([]Op, [][]byte) {
	r := g.r
	n := r.Range(13, 40)
	keys := append([][]byte{}, g.pool...)
	vrand.Shuffle(r, keys)
	nd := r.Range(1, 6)
	var groups [][]Op
	var dupKeys [][]byte
	total := 0
	for total < n && len(keys) > 0 {
		k := keys[0]
		keys = keys[1:]
		var grp []Op
		switch {
		case len(dupKeys) < nd:
			grp = g.dupGroup(k)
			dupKeys = append(dupKeys, k)
		case r.Chance(1, 6):
			for i := r.Range(1, 2); i > 0; i-- {
				grp = append(grp, Op{T: "merge", K: k, V: g.operand()})
			}
		case r.Chance(1, 4):
			grp = []Op{{T: "del", K: k}}
		default:
			grp = []Op{{T: "set", K: k, V: g.value()}}
		}
		groups = append(groups, grp)
		total += len(grp)
	}
	// order-preserving random interleaving
	var tokens []int
	for gi, grp := range groups {
		for range grp {
			tokens = append(tokens, gi)
		}
	}
	vrand.Shuffle(r, tokens)
	ops := make([]Op, 0, total)
	for _, gi := range tokens {
		ops = append(ops, groups[gi][0])
		groups[gi] = groups[gi][1:]
	}
	return ops, dupKeys
}

// sets (sometimes merges) on m distinct pool keys
func (g *genCtx) fillBatch(m int) []Op {
	r := g.r
	keys := append([][]byte{}, g.pool...)
	vrand.Shuffle(r, keys)
	if m > len(keys) {
		m = len(keys)
	}
	var ops []Op
	for _, k := range keys[:m] {
		if r.Chance(1, 8) {
			ops = append(ops, Op{T: "merge", K: k, V: g.operand()})
		} else {
			ops = append(ops, Op{T: "set", K: k, V: g.value()})
		}
	}
	return ops
}

// bigdup: some keys present, a reader opened, then one or two LARGE batches touching keys repeatedly;
// the old reader, a new reader (full dump) and a Get of every repeated key observe the outcome
func genBigDup(r *vrand.R, storeName, mo string) In {
	g := &genCtx{r: r, store: storeName, mo: mo}
	minLen := 0
	if storeName == "boltdb" {
		minLen = 1
	}
	seen := map[string]bool{}
	for n := r.Range(20, 44); len(g.pool) < n; {
		k := randKey(r, minLen, 3)
		if !seen[string(k)] {
			seen[string(k)] = true
			g.pool = append(g.pool, k)
		}
	}
	var steps []Step
	for i := r.Range(0, 2); i > 0; i-- {
		steps = append(steps, Step{T: "batch", Ops: g.fillBatch(r.Range(3, 12))})
	}
	steps = append(steps, Step{T: "open", Rid: 1})
	var dups [][]byte
	for i := r.Range(1, 2); i > 0; i-- {
		ops, dk := g.bigDupBatch()
		steps = append(steps, Step{T: "batch", Ops: ops})
		dups = append(dups, dk...)
	}
	steps = append(steps, Step{T: "open", Rid: 2})
	for _, k := range dups {
		steps = append(steps, Step{T: "read", Rid: 2, Read: &Read{T: "get", K: k}})
	}
	for _, rid := range []int{1, 2} {
		steps = append(steps, Step{T: "read", Rid: rid, Read: &Read{T: "range", SNil: true, ENil: true, Prog: []IOp{{T: "drain"}}}})
	}
	steps = append(steps, Step{T: "close", Rid: 1}, Step{T: "close", Rid: 2})
	return In{Kind: "bigdup", Store: storeName, Mo: mo, Steps: steps}
}

// ---------------------------------------------------------------- backward seeks after spread deletions

func cloneKey(k []byte) []byte { return append([]byte{}, k...) }

// Seek targets that lie at or before positions an iterator has already passed: a deleted key, a
// truncation / extension of one, the start of the iterated range, nil / empty, a live key
func (g *genCtx) backTarget(deleted, live [][]byte, around ...[]byte) IOp {
	r := g.r
	c := r.Intn(16)
	switch {
	case c < 7 && len(deleted) > 0:
		return IOp{T: "seek", K: cloneKey(vrand.Pick(r, deleted))}
	case c < 9 && len(deleted) > 0:
		k := vrand.Pick(r, deleted)
		if len(k) > 0 && r.Bool() {
			return IOp{T: "seek", K: cloneKey(k[:len(k)-1])}
		}
		return IOp{T: "seek", K: append(cloneKey(k), 0x00)}
	case c < 10:
		if r.Bool() {
			return IOp{T: "seek", KNil: true}
		}
		return IOp{T: "seek", K: []byte{}}
	case c < 12 && len(around) > 0:
		return IOp{T: "seek", K: cloneKey(vrand.Pick(r, around))}
	case c < 14 && len(live) > 0:
		return IOp{T: "seek", K: cloneKey(vrand.Pick(r, live))}
	}
	return g.seekKey(around...)
}

func (g *genCtx) backProgram(deleted, live [][]byte, around ...[]byte) []IOp {
	r := g.r
	tgt := func() IOp { return g.backTarget(deleted, live, around...) }
	nexts := func(prog []IOp, lo, hi int) []IOp {
		for n := r.Range(lo, hi); n > 0; n-- {
			prog = append(prog, IOp{T: "next"})
		}
		return prog
	}
	var prog []IOp
	switch r.Intn(4) {
	case 0: // forward, back, forward, back, to the end
		prog = nexts(prog, 1, 3)
		prog = append(prog, tgt())
		prog = nexts(prog, 0, 2)
		prog = append(prog, tgt(), IOp{T: "drain"})
	case 1: // exhaust, then Seek on the exhausted iterator
		prog = append(prog, IOp{T: "drain"}, tgt())
		prog = nexts(prog, 0, 2)
		if r.Bool() {
			prog = append(prog, tgt())
		}
		prog = append(prog, IOp{T: "drain"})
	case 2: // jump past everything, then back
		prog = append(prog, IOp{T: "seek", K: []byte{0xff, 0xff, 0xff, 0xff}}, tgt(), IOp{T: "drain"}, tgt())
		prog = nexts(prog, 0, 2)
	default:
		for n := r.Range(4, 9); n > 0; n-- {
			if r.Bool() {
				prog = append(prog, tgt())
			} else {
				prog = append(prog, IOp{T: "next"})
			}
		}
		if r.Bool() {
			prog = append(prog, IOp{T: "drain"}, tgt())
		}
	}
	return prog
}

// an iterator whose range starts at or before deleted keys.  focus (nil = none): the point from
// which the case deleted upwards — the iterator then starts exactly there, i.e. directly behind
// the tombstones
func (g *genCtx) backRead(deleted, live [][]byte, focus []byte) *Read {
	r := g.r
	if focus != nil && r.Chance(2, 3) {
		if len(focus) == 0 && r.Bool() {
			return &Read{T: "range", SNil: true, ENil: true, Prog: g.backProgram(deleted, live)}
		}
		if r.Bool() && !(endsFF(focus) && g.store == "moss") {
			rd := &Read{T: "prefix", P: cloneKey(focus)}
			rd.Prog = g.backProgram(deleted, live, focus)
			return rd
		}
		rd := &Read{T: "range", S: cloneKey(focus), ENil: true}
		rd.Prog = g.backProgram(deleted, live, focus)
		return rd
	}
	anchor := func() []byte {
		if len(deleted) > 0 && !r.Chance(1, 4) {
			return vrand.Pick(r, deleted)
		}
		return g.poolKey()
	}
	switch r.Intn(5) {
	case 0:
		return &Read{T: "range", SNil: true, ENil: true, Prog: g.backProgram(deleted, live)}
	case 1, 2:
		rd := &Read{T: "range"}
		k := anchor()
		rd.S = cloneKey(k[:r.Range(0, len(k))])
		if r.Chance(1, 6) {
			rd.S, rd.SNil = nil, true
		}
		if r.Chance(2, 3) {
			rd.ENil = true
		} else {
			rd.E = g.anyKey()
			if string(rd.E) < string(rd.S) {
				rd.E = append(cloneKey(rd.S), 0xff, 0xff)
			}
		}
		if rd.S == nil && !rd.SNil {
			rd.S = []byte{}
		}
		if rd.E == nil && !rd.ENil {
			rd.E = []byte{}
		}
		rd.Prog = g.backProgram(deleted, live, rd.S)
		return rd
	}
	for {
		k := anchor()
		p := cloneKey(k[:r.Range(0, len(k))])
		if endsFF(p) && g.store == "moss" {
			// moss + prefix ending in 0xff lives in the pfxff cases only (class moss-prefix-ff)
			continue
		}
		rd := &Read{T: "prefix", P: p}
		if len(p) == 0 && r.Bool() {
			rd.PNil = true
		}
		rd.Prog = g.backProgram(deleted, live, p)
		return rd
	}
}

// bseek: keys written by 1-3 batches, then 2-4 further batches each deleting one or two of them,
// readers opened before, between and after; then iterators driven by programs that Seek backwards
// and Seek after exhaustion.  Every batch holds each key once.  Three shapes:
//
//	0 (2/5): one base batch; every deletion takes the smallest live key at/after a per-case focus
//	         point and nothing else is written — an iterator started at the focus begins behind
//	         tombstones that sit in several engine segments / versions over ONE segment of live data
//	1 (1/5): as 0, but some deletions elsewhere and now and then another key written alongside
//	2 (2/5): base data spread over 1-3 batches, deletions mostly of small keys, other keys set /
//	         merged / brought back in the deleting batches
func genBackSeek(r *vrand.R, storeName, mo string) In {
	return genBackSeekLL(r, storeName, mo, "", 0)
}

func genBackSeekLL(r *vrand.R, storeName, mo, ll string, llmax int) In {
	g := &genCtx{r: r, store: storeName, mo: mo, ll: ll}
	g.makePoolN(r.Range(6, 12))
	sort.Slice(g.pool, func(i, j int) bool { return bytes.Compare(g.pool[i], g.pool[j]) < 0 })
	uniq := g.pool[:0]
	for i, k := range g.pool {
		if i == 0 || !bytes.Equal(k, g.pool[i-1]) {
			uniq = append(uniq, k)
		}
	}
	g.pool = uniq
	shape := []int{0, 0, 1, 2, 2}[r.Intn(5)]
	// focus: empty (the whole store) or a proper prefix / the whole of a pool key
	focus := []byte{}
	if r.Chance(2, 3) {
		k := g.poolKey()
		focus = cloneKey(k[:r.Range(0, len(k))])
	}
	var steps []Step
	live := map[string]bool{}
	liveKeys := func() [][]byte { // sorted
		var l [][]byte
		for _, k := range g.pool {
			if live[string(k)] {
				l = append(l, k)
			}
		}
		return l
	}
	// base data: one batch (everything in one engine segment) or spread over 2-3
	nb := 1
	if shape == 2 && r.Chance(2, 3) {
		nb = r.Range(2, 3)
	}
	base := make([][]Op, nb)
	for _, k := range g.pool {
		if r.Chance(5, 6) {
			b := r.Intn(nb)
			if r.Chance(1, 8) {
				base[b] = append(base[b], Op{T: "merge", K: k, V: g.operand()})
			} else {
				base[b] = append(base[b], Op{T: "set", K: k, V: g.value()})
			}
			live[string(k)] = true
		}
	}
	for _, ops := range base {
		steps = append(steps, Step{T: "batch", Ops: ops})
	}
	var open []int
	nextRid := 1
	openReader := func() {
		steps = append(steps, Step{T: "open", Rid: nextRid})
		open = append(open, nextRid)
		nextRid++
	}
	if r.Bool() {
		openReader()
	}
	var deleted [][]byte
	nd := r.Range(2, 4)
	for i := 0; i < nd; i++ {
		used := map[string]bool{}
		var ops []Op
		for v := r.Range(1, 2); v > 0; v-- {
			var cand [][]byte
			for _, k := range liveKeys() {
				if !used[string(k)] {
					cand = append(cand, k)
				}
			}
			if len(cand) == 0 {
				break
			}
			var k []byte
			if shape == 0 || r.Chance(2, 3) {
				// the smallest live key at/after the focus (none left there: the smallest of all)
				k = cand[0]
				for _, c := range cand {
					if bytes.Compare(c, focus) >= 0 {
						k = c
						break
					}
				}
			} else {
				k = vrand.Pick(r, cand)
			}
			used[string(k)] = true
			live[string(k)] = false
			deleted = append(deleted, k)
			ops = append(ops, Op{T: "del", K: k})
		}
		// company: a set / merge of another key (sometimes bringing an earlier deleted key back)
		company := 0
		switch shape {
		case 1:
			if r.Chance(1, 4) {
				company = 1
			}
		case 2:
			company = r.Intn(3)
		}
		for ; company > 0; company-- {
			k := g.poolKey()
			if used[string(k)] {
				continue
			}
			used[string(k)] = true
			o := Op{T: "set", K: k, V: g.value()}
			if r.Chance(1, 4) {
				o = Op{T: "merge", K: k, V: g.operand()}
			}
			live[string(k)] = true
			if r.Bool() {
				ops = append(ops, o)
			} else {
				ops = append([]Op{o}, ops...)
			}
		}
		steps = append(steps, Step{T: "batch", Ops: ops})
		if i < nd-1 && len(open) < 2 && r.Chance(1, 3) {
			openReader()
		}
	}
	openReader()
	newest := open[len(open)-1]
	for n := r.Range(2, 4); n > 0; n-- {
		rd := g.backRead(deleted, liveKeys(), focus)
		steps = append(steps, Step{T: "read", Rid: newest, Read: rd})
		// the same iterator on the readers opened earlier (they still hold the deleted keys)
		for _, rid := range open[:len(open)-1] {
			if r.Bool() {
				steps = append(steps, Step{T: "read", Rid: rid, Read: rd})
			}
		}
	}
	if r.Chance(1, 3) {
		// one more version on top, then the now stale newest reader again
		var ops []Op
		if len(deleted) > 0 {
			k := vrand.Pick(r, deleted)
			ops = append(ops, Op{T: "set", K: k, V: g.value()})
			live[string(k)] = true
		}
		for _, k := range liveKeys() {
			if len(ops) == 0 || !bytes.Equal(k, ops[0].K) {
				ops = append(ops, Op{T: "del", K: k})
				deleted = append(deleted, k)
				live[string(k)] = false
				break
			}
		}
		steps = append(steps, Step{T: "batch", Ops: ops})
		steps = append(steps, Step{T: "read", Rid: newest, Read: g.backRead(deleted, liveKeys(), nil)})
	}
	steps = g.finish(steps, open, nextRid)
	if ll != "" {
		steps = withPersistence(r, ll, steps)
	}
	return In{Kind: "bseek", Store: storeName, Mo: mo, LL: ll, LLMax: llmax, Steps: steps}
}

// ---------------------------------------------------------------- persisting configurations

// batch sizes around the lower level's chunking: k*max-1, k*max, k*max+1 for k = 1..3 (max = 0, no
// chunking: a spread of small sizes), cut to the number of keys available
func boundarySizes(max, avail int) (exact, near []int) {
	if max <= 0 {
		for _, n := range []int{1, 2, 3, 4, 5, 7, 8, 9, 12} {
			if n <= avail {
				exact = append(exact, n)
			}
		}
		return exact, exact
	}
	for k := 1; k <= 3; k++ {
		if k*max <= avail {
			exact = append(exact, k*max)
		}
		for _, n := range []int{k*max - 1, k*max + 1} {
			if n >= 1 && n <= avail {
				near = append(near, n)
			}
		}
	}
	return exact, near
}

// persist: moss over a lower-level store.  12-24 distinct keys; 2-4 rounds of
//
//	[open a reader]  batch of n DISTINCT keys (sets of new / changed values, deletes mostly of live
//	keys, single merges; n an exact multiple of mossLowerLevelMaxBatchSize or one off)
//	[a second batch]  [dump through a fresh reader before the flush]  sync
//	fresh reader: dump, Get of keys of the batch, one random read; every reader opened earlier: dump
//	and now and then a random read
//
// at least one round has an exact-multiple batch alone in front of its sync.  Persistent lower levels:
// everything closed, reopen, dump + Gets on a fresh reader, sometimes one more batch + sync + dump.
// No key occurs twice in a batch.
func genPersist(r *vrand.R, ll string, llmax int, mo string) In {
	g := &genCtx{r: r, store: "moss", mo: mo, ll: ll}
	want := 3*llmax + 3
	if want < 12 {
		want = 12
	}
	if want > 24 {
		want = 24
	}
	seen := map[string]bool{}
	for len(g.pool) < want {
		var k []byte
		if mo == "udc" {
			k = append([]byte{'d', byte(r.Intn(2)), 0}, randKey(r, 0, 2)...)
		} else {
			k = randKey(r, g.minKeyLen(), 3)
		}
		if !seen[string(k)] {
			seen[string(k)] = true
			g.pool = append(g.pool, k)
		}
	}
	exact, near := boundarySizes(llmax, len(g.pool))
	cur := map[string][]byte{} // the generator's idea of what is live (steers op choice only)
	live := func(k []byte) bool { _, ok := cur[string(k)]; return ok }
	batch := func(n int) []Op {
		keys := append([][]byte{}, g.pool...)
		vrand.Shuffle(r, keys)
		var ops []Op
		for _, k := range keys[:n] {
			c := r.Intn(6)
			switch {
			case live(k) && c < 3:
				ops = append(ops, Op{T: "del", K: k})
				delete(cur, string(k))
			case c == 5:
				ops = append(ops, Op{T: "merge", K: k, V: g.operand()})
				cur[string(k)] = nil
			case !live(k) && c == 4:
				ops = append(ops, Op{T: "del", K: k}) // tombstone for an absent key
			default:
				var prev [][]byte
				if v := cur[string(k)]; v != nil {
					prev = append(prev, v)
				}
				v := g.otherValue(prev)
				ops = append(ops, Op{T: "set", K: k, V: v})
				cur[string(k)] = v
			}
		}
		return ops
	}
	var steps []Step
	var open []int
	nextRid := 1
	fresh := func(reads ...*Read) {
		steps = append(steps, Step{T: "open", Rid: nextRid})
		for _, rd := range reads {
			steps = append(steps, Step{T: "read", Rid: nextRid, Read: rd})
		}
		steps = append(steps, Step{T: "close", Rid: nextRid})
		nextRid++
	}
	rounds := r.Range(2, 4)
	forced := r.Intn(rounds) // this round: exact multiple, alone, synced
	for i := 0; i < rounds; i++ {
		if len(open) < 2 && r.Chance(2, 3) {
			steps = append(steps, Step{T: "open", Rid: nextRid})
			open = append(open, nextRid)
			nextRid++
		}
		sizes := near
		if i == forced || r.Bool() || len(near) == 0 {
			sizes = exact
		}
		ops := batch(vrand.Pick(r, sizes))
		steps = append(steps, Step{T: "batch", Ops: ops})
		touched := ops
		if i != forced && r.Chance(1, 4) {
			ops2 := batch(r.Range(1, len(g.pool)/2))
			steps = append(steps, Step{T: "batch", Ops: ops2})
			touched = append(append([]Op{}, ops...), ops2...)
		}
		if r.Chance(1, 3) {
			fresh(dumpRead())
		}
		if i == forced || r.Chance(5, 6) {
			steps = append(steps, Step{T: "sync"})
		}
		reads := []*Read{dumpRead()}
		for n := r.Range(1, 2); n > 0; n-- {
			reads = append(reads, &Read{T: "get", K: vrand.Pick(r, touched).K})
		}
		reads = append(reads, g.read())
		fresh(reads...)
		for _, rid := range open {
			steps = append(steps, Step{T: "read", Rid: rid, Read: dumpRead()})
			if r.Chance(1, 3) {
				steps = append(steps, Step{T: "read", Rid: rid, Read: g.read()})
			}
		}
		if len(open) > 0 && r.Chance(1, 3) {
			j := r.Intn(len(open))
			steps = append(steps, Step{T: "close", Rid: open[j]})
			open = append(open[:j], open[j+1:]...)
		}
	}
	steps = g.finish(steps, open, nextRid)
	nextRid++
	if llPersistent(ll) {
		steps = append(steps, Step{T: "sync"}, Step{T: "reopen"})
		reads := []*Read{dumpRead()}
		for n := r.Range(1, 3); n > 0; n-- {
			reads = append(reads, &Read{T: "get", K: g.poolKey()})
		}
		reads = append(reads, g.read())
		fresh(reads...)
		if r.Bool() {
			// the reopened store keeps working: old reader, batch, flush, both readers
			steps = append(steps, Step{T: "open", Rid: nextRid})
			old := nextRid
			nextRid++
			steps = append(steps, Step{T: "batch", Ops: batch(vrand.Pick(r, exact))}, Step{T: "sync"})
			fresh(dumpRead())
			steps = append(steps, Step{T: "read", Rid: old, Read: dumpRead()}, Step{T: "close", Rid: old})
			if r.Bool() {
				steps = append(steps, Step{T: "reopen"})
				fresh(dumpRead())
			}
		}
	}
	return In{Kind: "persist", Store: "moss", Mo: mo, LL: ll, LLMax: llmax, Steps: steps}
}

// llmix: iteration over BOTH layers of moss at once.  8-14 distinct keys; one or two batches flushed
// to the lower level; one or two more batches (sets of further keys, deletes of flushed ones, merges)
// left in memory; a reader opened on that state and driven through a dump, Gets and 2-3 iterators
// under Seek/Next programs (backward Seeks over the deleted keys included); then the flush happens
// under the open reader and it is read again, next to a fresh one.
func genLLMix(r *vrand.R, ll string, llmax int, mo string) In {
	g := &genCtx{r: r, store: "moss", mo: mo, ll: ll}
	seen := map[string]bool{}
	for want := r.Range(8, 14); len(g.pool) < want; {
		var k []byte
		if mo == "udc" {
			k = append([]byte{'d', byte(r.Intn(2)), 0}, randKey(r, 0, 2)...)
		} else {
			k = randKey(r, g.minKeyLen(), 3)
		}
		if !seen[string(k)] {
			seen[string(k)] = true
			g.pool = append(g.pool, k)
		}
	}
	sort.Slice(g.pool, func(i, j int) bool { return bytes.Compare(g.pool[i], g.pool[j]) < 0 })
	live := map[string]bool{}
	liveKeys := func() [][]byte {
		var l [][]byte
		for _, k := range g.pool {
			if live[string(k)] {
				l = append(l, k)
			}
		}
		return l
	}
	var deleted [][]byte
	batch := func(n int, delShare int) []Op { // n distinct keys; delShare of 6 slots delete a live key
		keys := append([][]byte{}, g.pool...)
		vrand.Shuffle(r, keys)
		var ops []Op
		for _, k := range keys[:n] {
			switch c := r.Intn(6); {
			case live[string(k)] && c < delShare:
				ops = append(ops, Op{T: "del", K: k})
				live[string(k)] = false
				deleted = append(deleted, k)
			case c == 5:
				ops = append(ops, Op{T: "merge", K: k, V: g.operand()})
				live[string(k)] = true
			default:
				ops = append(ops, Op{T: "set", K: k, V: g.value()})
				live[string(k)] = true
			}
		}
		return ops
	}
	var steps []Step
	for i := r.Range(1, 2); i > 0; i-- {
		steps = append(steps, Step{T: "batch", Ops: batch(r.Range(len(g.pool)/2, len(g.pool)-1), 1)}, Step{T: "sync"})
	}
	for i := r.Range(1, 2); i > 0; i-- {
		steps = append(steps, Step{T: "batch", Ops: batch(r.Range(1, 4), 3)})
	}
	const rid = 1
	steps = append(steps, Step{T: "open", Rid: rid}, Step{T: "read", Rid: rid, Read: dumpRead()})
	for _, k := range deleted {
		if r.Bool() {
			steps = append(steps, Step{T: "read", Rid: rid, Read: &Read{T: "get", K: k}})
		}
	}
	for n := r.Range(2, 3); n > 0; n-- {
		if r.Bool() {
			steps = append(steps, Step{T: "read", Rid: rid, Read: g.backRead(deleted, liveKeys(), nil)})
		} else {
			steps = append(steps, Step{T: "read", Rid: rid, Read: g.read()})
		}
	}
	steps = append(steps, Step{T: "sync"}, Step{T: "read", Rid: rid, Read: dumpRead()},
		Step{T: "read", Rid: rid, Read: g.backRead(deleted, liveKeys(), nil)})
	return In{Kind: "llmix", Store: "moss", Mo: mo, LL: ll, LLMax: llmax, Steps: g.finish(steps, []int{rid}, rid+1)}
}

// the configurations of moss over a lower level: every registry store with every chunk size, and the
// native mossStore (which does not chunk)
type layout struct {
	ll  string
	max int
}

func persistLayouts() []layout {
	var ls []layout
	for _, ll := range []string{"gtreap", "boltdb", "goleveldb"} {
		for _, m := range []int{0, 1, 2, 3, 4, 7} {
			ls = append(ls, layout{ll, m})
		}
	}
	return append(ls, layout{"mossStore", 0})
}

// the cases of the persisting configurations are three times the size of the others: they are spread
// evenly over the run (and so over the shards evaluated in parallel) instead of filling the last ones
func gen(f vh.Flags, r *vrand.R, emit func(In)) {
	var base, extra []In
	genDefault(f, r, func(in In) { base = append(base, in) })
	genLayouts(f, r, func(in In) { extra = append(extra, in) })
	next := 0
	for i, in := range base {
		emit(in)
		for next < len(extra) && next*len(base) < (i+1)*len(extra) {
			emit(extra[next])
			next++
		}
	}
	for ; next < len(extra); next++ {
		emit(extra[next])
	}
}

func genDefault(f vh.Flags, r *vrand.R, emit func(In)) {
	per := f.N(60, 3000) // general sequences per store
	for _, s := range stores {
		for i := 0; i < per; i++ {
			mo := "cat"
			switch i % 4 {
			case 2:
				mo = "catnp"
			case 3:
				mo = "udc"
			}
			emit(genSeq(r.Fork(), s, mo))
		}
	}
	small := func(kind string, quick, thorough int, storesFor []string) {
		n := f.N(quick, thorough)
		for _, s := range storesFor {
			for i := 0; i < n; i++ {
				mo := "cat"
				if kind == "dup" && i%2 == 1 {
					mo = "catnp"
				}
				if kind == "policy" && i%3 == 2 {
					mo = "udc"
				}
				emit(genSmall(r.Fork(), kind, s, mo))
			}
		}
	}
	small("pfxff", 8, 400, stores)
	small("mget", 3, 40, stores)
	small("dup", 10, 500, stores)
	// merge + set/delete of one key in one batch: moss is left out — its native batch would hold the
	// key twice, which the moss engine excludes ("keys in a Batch must be unique"); see the dup cases
	small("policy", 10, 500, []string{"gtreap", "boltdb", "goleveldb", "metrics"})
	nm := f.N(150, 7500)
	for i := 0; i < nm; i++ {
		emit(genMop(r.Fork(), i%3 != 0))
	}
	// large batches (13-40 ops) with keys touched two or three times: not moss — a repeated key in a
	// moss batch is the class of the dup cases above (moss-batch-dupkey), which stay the only place
	// where moss sees one
	nbd := f.N(12, 600)
	for _, s := range []string{"gtreap", "boltdb", "goleveldb", "metrics"} {
		for i := 0; i < nbd; i++ {
			mo := "cat"
			if i%3 == 2 {
				mo = "catnp"
			}
			emit(genBigDup(r.Fork(), s, mo))
		}
	}
	// backward Seeks / Seeks on exhausted iterators after deletions spread over several batches
	nbs := f.N(14, 700)
	for _, s := range stores {
		for i := 0; i < nbs; i++ {
			mo := "cat"
			switch i % 5 {
			case 3:
				mo = "catnp"
			case 4:
				mo = "udc"
			}
			emit(genBackSeek(r.Fork(), s, mo))
		}
	}
}

func genLayouts(f vh.Flags, r *vrand.R, emit func(In)) {
	// moss over a lower-level store (19 configurations): batch sizes around the lower level's chunk
	// size with waits for the flush, and the general / backward-seek streams with flushes interleaved
	mos := []string{"cat", "udc", "catnp"}
	np, ns, nb := f.N(3, 150), f.N(1, 60), f.N(1, 60)
	for li, l := range persistLayouts() {
		for i := 0; i < np; i++ {
			emit(genPersist(r.Fork(), l.ll, l.max, mos[(li+i)%3]))
		}
		for i := 0; i < ns; i++ {
			emit(genSeqLL(r.Fork(), "moss", mos[(li+i+1)%3], l.ll, l.max))
		}
		for i := 0; i < nb; i++ {
			emit(genBackSeekLL(r.Fork(), "moss", mos[(li+i+2)%3], l.ll, l.max))
		}
	}
	nx := f.N(1, 60)
	for li, l := range persistLayouts() {
		for i := 0; i < nx; i++ {
			emit(genLLMix(r.Fork(), l.ll, l.max, mos[(li+i)%3]))
		}
	}
}

// ---------------------------------------------------------------- execution

var pathCtr int64

func newPath() string {
	return fmt.Sprintf("/tmp/vh_c15_%d_%d", os.Getpid(), atomic.AddInt64(&pathCtr, 1))
}

// moss over a lower-level store; the lower level gets the options it would get as a store of its own
// (moss hands its whole config down to it).  path = "" for the gtreap lower level.
func openMossLL(mo store.MergeOperator, ll string, llmax int, path string) (store.KVStore, error) {
	cfg := map[string]interface{}{"mossLowerLevelStoreName": ll, "path": path}
	if llmax > 0 {
		cfg["mossLowerLevelMaxBatchSize"] = float64(llmax) // JSON number, as moss.New expects
	}
	switch ll {
	case "gtreap":
		cfg["path"] = ""
	case "boltdb":
		cfg["nosync"] = true
		cfg["initialMmapSize"] = 1 << 24
	case "goleveldb":
		cfg["create_if_missing"] = true
	case "mossStore":
	default:
		return nil, fmt.Errorf("unknown lower level %q", ll)
	}
	ctor := registry.KVStoreConstructorByName("moss")
	if ctor == nil {
		return nil, fmt.Errorf("no constructor for moss")
	}
	return ctor(mo, cfg)
}

// waits until moss' persister has handed every executed batch to the lower-level store: no segment
// left in the dirty top / mid / base stacks (moss clears the base stack and installs the new
// lower-level snapshot in one critical section, and Stats() reads under the same lock).  Progress
// is polled, never assumed after a delay; the deadline only turns a persister that has stopped
// making progress into a report.
func waitPersisted(s store.KVStore) *vh.Direct {
	ms, ok := s.(*bmoss.Store)
	if !ok {
		return &vh.Direct{Kind: "not-moss", Detail: fmt.Sprintf("moss constructor returned %T", s)}
	}
	deadline := time.Now().Add(150 * time.Second)
	pause := 20 * time.Microsecond
	for {
		st, err := ms.Collection().Stats()
		if err != nil {
			return &vh.Direct{Kind: "stats-error", Detail: err.Error()}
		}
		if st.TotPersisterLowerLevelUpdateErr > 0 {
			return &vh.Direct{Kind: "lower-level-update-error", Detail: fmt.Sprintf("moss persister: %d failed lower-level updates", st.TotPersisterLowerLevelUpdateErr)}
		}
		if st.CurDirtyOps == 0 && st.CurDirtySegments == 0 {
			return nil
		}
		if time.Now().After(deadline) {
			return &vh.Direct{Kind: "persist-stall", Detail: fmt.Sprintf("moss persister left %d dirty ops in %d segments (lower-level updates begun %d, ended %d)", st.CurDirtyOps, st.CurDirtySegments, st.TotPersisterLowerLevelUpdateBeg, st.TotPersisterLowerLevelUpdateEnd)}
		}
		time.Sleep(pause)
		if pause < 2*time.Millisecond {
			pause *= 2
		}
	}
}

func openStore(name string, mo store.MergeOperator) (store.KVStore, string, error) {
	path := newPath()
	cfg := map[string]interface{}{}
	rm := ""
	switch name {
	case "gtreap", "moss":
		cfg["path"] = ""
	case "metrics":
		cfg["path"] = ""
		cfg["kvStoreName_actual"] = "gtreap"
	case "boltdb":
		cfg["path"] = path
		cfg["nosync"] = true
		// a read transaction held across a write that has to re-map the file blocks that write
		// (bbolt); a 16 MiB initial map is never outgrown here
		cfg["initialMmapSize"] = 1 << 24
		rm = path
	case "goleveldb":
		cfg["path"] = path
		cfg["create_if_missing"] = true
		rm = path
	default:
		return nil, "", fmt.Errorf("unknown store %q", name)
	}
	ctor := registry.KVStoreConstructorByName(name)
	if ctor == nil {
		return nil, rm, fmt.Errorf("no constructor for %q", name)
	}
	s, err := ctor(mo, cfg)
	return s, rm, err
}

func cBytes(b []byte) cf.T { return cf.Bytes(b) }

func cOptBytes(b []byte, isNil bool) cf.T {
	if isNil {
		return cf.None
	}
	return cf.Some(cf.Bytes(b))
}

func cEntry(k, v []byte, ok bool) cf.T {
	if !ok {
		return cf.None
	}
	return cf.Some(cf.Pair(cf.Bytes(k), cf.Bytes(v)))
}

func observe(it store.KVIterator) (cf.T, bool) {
	k, v, ok := it.Current()
	valid := it.Valid()
	var kk, vv []byte
	if valid {
		kk, vv = it.Key(), it.Value()
	}
	return cf.Pair(cEntry(k, v, ok), cEntry(kk, vv, valid)), ok
}

// what kinds of Seek a case contained (for the input distribution in the evidence)
type iterFlags struct{ backward, exhausted bool }

// runs an iterator program; returns the recorded (expanded) program, the observations and whether
// any position was valid
func runIter(it store.KVIterator, prog []IOp, fl *iterFlags) (cf.T, cf.T, bool) {
	var ops, obs []cf.T
	any := false
	o, valid := observe(it)
	obs = append(obs, o)
	any = any || valid
	for _, p := range prog {
		switch p.T {
		case "seek":
			if ck, _, ok := it.Current(); !ok {
				fl.exhausted = true
			} else if bytes.Compare(p.K, ck) < 0 {
				fl.backward = true
			}
			if p.KNil {
				it.Seek(nil)
			} else {
				it.Seek(bytesOrNil(p.K, false))
			}
			ops = append(ops, cf.App("ISeek", cf.Bytes(p.K)))
			o, valid = observe(it)
			obs = append(obs, o)
		case "next":
			// Next only while valid; the model skips it in the same way
			if valid {
				it.Next()
			}
			ops = append(ops, "INext")
			o, valid = observe(it)
			obs = append(obs, o)
		case "drain":
			for n := 0; valid && n < 400; n++ {
				it.Next()
				ops = append(ops, "INext")
				o, valid = observe(it)
				obs = append(obs, o)
				any = true
			}
		}
		any = any || valid
	}
	return cf.List(ops), cf.List(obs), any
}

func bytesOrNil(b []byte, isNil bool) []byte {
	if isNil {
		return nil
	}
	if b == nil {
		return []byte{}
	}
	return b
}

func execSeq(in In) vh.Result {
	res := vh.Result{Hist: []string{"kind:" + in.Kind, "store:" + in.Store, "mo:" + in.Mo}}
	if in.Store == "moss" {
		switch in.Kind {
		case "pfxff":
			res.Class = "moss-prefix-ff"
		case "dup":
			res.Class = "moss-batch-dupkey"
		}
	}
	if in.Kind == "mget" {
		res.Class = "multiget-panic"
	}
	var steps []cf.T
	var direct *vh.Direct
	batches, nonEmptyReads, staleReads, maxBatch := 0, 0, 0, 0
	syncs, reopens, reopenRetries, readsAfterSync, readsAcrossSync, chunkedFlush := 0, 0, 0, 0, 0, false
	lastBatchLen, batchesSinceSync := 0, 0
	var fl iterFlags
	what, limit := "sequence on "+in.Store, 60*time.Second
	if in.LL != "" {
		res.Hist = append(res.Hist, "ll:"+in.LL, fmt.Sprintf("llmax:%d", in.LLMax))
		what = fmt.Sprintf("sequence on moss over %s (max batch %d)", in.LL, in.LLMax)
		limit = 300 * time.Second
	}
	d := vh.Guard(limit, what, func() {
		var s store.KVStore
		var rm string
		var err error
		if in.LL != "" {
			rm = newPath()
			s, err = openMossLL(moOf(in.Mo), in.LL, in.LLMax, rm)
		} else {
			s, rm, err = openStore(in.Store, moOf(in.Mo))
		}
		if rm != "" {
			defer os.RemoveAll(rm)
		}
		if err != nil {
			direct = &vh.Direct{Kind: "open-error", Detail: err.Error()}
			return
		}
		readers := map[int]store.KVReader{}
		openedAt := map[int]int{}
		openedAtSync := map[int]int{}
		defer func() {
			for _, rd := range readers {
				_ = rd.Close()
			}
			if s != nil {
				_ = s.Close()
			}
		}()
		for _, st := range in.Steps {
			switch st.T {
			case "sync":
				if in.LL == "" {
					continue
				}
				if p := waitPersisted(s); p != nil {
					direct = p
					return
				}
				if in.LLMax > 0 && batchesSinceSync == 1 && lastBatchLen > 0 && lastBatchLen%in.LLMax == 0 {
					chunkedFlush = true
				}
				batchesSinceSync = 0
				syncs++
				steps = append(steps, "SSync")
			case "reopen":
				if !llPersistent(in.LL) {
					continue
				}
				for rid, rd := range readers {
					_ = rd.Close()
					delete(readers, rid)
				}
				err := s.Close()
				s = nil
				if err != nil {
					direct = &vh.Direct{Kind: "close-error", Detail: err.Error()}
					return
				}
				// mossStore: the closed store deletes a data file that compaction has made obsolete in a
				// goroutine of its own, after Close has returned (moss store.go removeFileOnClose); an
				// OpenStore that listed the file before and tries to remove it itself then fails with
				// ENOENT.  That collision is moss' own, says nothing about the contents, and is over at
				// the next attempt (the file is gone), so the open is repeated; any other error, or one
				// that persists, is reported.
				for deadline := time.Now().Add(60 * time.Second); ; {
					s, err = openMossLL(moOf(in.Mo), in.LL, in.LLMax, rm)
					if err == nil {
						break
					}
					s = nil
					if in.LL == "mossStore" && strings.Contains(err.Error(), "err: remove ") &&
						strings.Contains(err.Error(), "no such file or directory") && time.Now().Before(deadline) {
						reopenRetries++
						time.Sleep(time.Millisecond)
						continue
					}
					direct = &vh.Direct{Kind: "reopen-error", Detail: err.Error()}
					return
				}
				reopens++
				steps = append(steps, "SReopen")
			case "batch":
				w, err := s.Writer()
				if err != nil {
					direct = &vh.Direct{Kind: "writer-error", Detail: err.Error()}
					return
				}
				b := w.NewBatch()
				var ops []cf.T
				for _, o := range st.Ops {
					switch o.T {
					case "set":
						v := o.V
						if v == nil {
							v = []byte{}
						}
						b.Set(o.K, v)
						ops = append(ops, cf.App("BSet", cf.Bytes(o.K), cf.Bytes(v)))
					case "del":
						b.Delete(o.K)
						ops = append(ops, cf.App("BDel", cf.Bytes(o.K)))
					case "merge":
						b.Merge(o.K, bytesOrNil(o.V, false))
						ops = append(ops, cf.App("BMerge", cf.Bytes(o.K), cf.Bytes(o.V)))
					}
				}
				if len(st.Ops) > maxBatch {
					maxBatch = len(st.Ops)
				}
				if len(st.Ops) > 0 {
					lastBatchLen = len(st.Ops)
					batchesSinceSync++
				}
				err = w.ExecuteBatch(b)
				_ = b.Close()
				_ = w.Close()
				steps = append(steps, cf.App("SBatch", cf.List(ops), cf.Bool(err == nil)))
				batches++
			case "open":
				rd, err := s.Reader()
				if err != nil {
					direct = &vh.Direct{Kind: "reader-error", Detail: err.Error()}
					return
				}
				readers[st.Rid] = rd
				openedAt[st.Rid] = batches
				openedAtSync[st.Rid] = syncs
				steps = append(steps, cf.App("SOpen", cf.Int(st.Rid)))
			case "close":
				if rd := readers[st.Rid]; rd != nil {
					_ = rd.Close()
					delete(readers, st.Rid)
				}
				steps = append(steps, cf.App("SClose", cf.Int(st.Rid)))
			case "read":
				rd := readers[st.Rid]
				if rd == nil || st.Read == nil {
					continue
				}
				if openedAt[st.Rid] < batches {
					staleReads++
				}
				if syncs > 0 {
					readsAfterSync++
					if openedAtSync[st.Rid] < syncs {
						readsAcrossSync++
					}
				}
				q := st.Read
				var term cf.T
				switch q.T {
				case "get":
					v, err := rd.Get(bytesOrNil(q.K, false))
					if err != nil {
						direct = &vh.Direct{Kind: "get-error", Detail: err.Error()}
						return
					}
					if v != nil {
						nonEmptyReads++
					}
					term = cf.App("RGet", cf.Bytes(q.K), cOptBytes(v, v == nil))
				case "mget":
					var vals [][]byte
					var merr error
					if p := vh.Guard(20*time.Second, fmt.Sprintf("%s Reader.MultiGet(%x)", in.Store, q.Ks), func() { vals, merr = rd.MultiGet(q.Ks) }); p != nil {
						direct = p
						return
					}
					if merr != nil {
						direct = &vh.Direct{Kind: "mget-error", Detail: merr.Error()}
						return
					}
					var vs []cf.T
					for _, v := range vals {
						vs = append(vs, cOptBytes(v, v == nil))
						if v != nil {
							nonEmptyReads++
						}
					}
					term = cf.App("RMGet", cf.ListOf(q.Ks, cBytes), cf.List(vs))
				case "prefix":
					it := rd.PrefixIterator(bytesOrNil(q.P, q.PNil))
					if it == nil {
						direct = &vh.Direct{Kind: "nil-iterator", Detail: fmt.Sprintf("PrefixIterator(%x) returned nil", q.P)}
						return
					}
					prog, obs, any := runIter(it, q.Prog, &fl)
					_ = it.Close()
					if any {
						nonEmptyReads++
					}
					term = cf.App("RPrefix", cOptBytes(q.P, q.PNil), prog, obs)
				case "range":
					it := rd.RangeIterator(bytesOrNil(q.S, q.SNil), bytesOrNil(q.E, q.ENil))
					if it == nil {
						direct = &vh.Direct{Kind: "nil-iterator", Detail: fmt.Sprintf("RangeIterator(%x,%x) returned nil", q.S, q.E)}
						return
					}
					prog, obs, any := runIter(it, q.Prog, &fl)
					_ = it.Close()
					if any {
						nonEmptyReads++
					}
					term = cf.App("RRange", cOptBytes(q.S, q.SNil), cOptBytes(q.E, q.ENil), prog, obs)
				default:
					continue
				}
				steps = append(steps, cf.App("SRead", cf.Int(st.Rid), term))
			}
		}
	})
	if d != nil {
		res.Direct = d
		return res
	}
	if direct != nil {
		res.Direct = direct
		return res
	}
	if in.LL != "" {
		res.Term = cf.App("CSeqCfg", cf.Int(storeCode(in.Store)), cf.Int(moCode(in.Mo)), cf.Int(llCode(in.LL)), cf.Int(in.LLMax), cf.List(steps))
		res.Nontrivial = batches >= 1 && nonEmptyReads >= 1 && syncs >= 1 && readsAfterSync >= 1
		if readsAcrossSync > 0 {
			res.Hist = append(res.Hist, "read-on-reader-opened-before-flush")
		}
		if chunkedFlush {
			res.Hist = append(res.Hist, "flush-of-exact-multiple-of-max-batch")
		}
		if reopens > 0 {
			res.Hist = append(res.Hist, "reopened-over-lower-level")
		}
		if reopenRetries > 0 {
			res.Hist = append(res.Hist, "reopen-repeated-after-deferred-file-removal")
		}
	} else {
		res.Term = cf.App("CSeq", cf.Int(storeCode(in.Store)), cf.Int(moCode(in.Mo)), cf.List(steps))
		res.Nontrivial = batches >= 1 && nonEmptyReads >= 1
	}
	if staleReads > 0 {
		res.Hist = append(res.Hist, "reads-on-stale-reader")
	}
	if nonEmptyReads > 0 {
		res.Hist = append(res.Hist, "nonempty-read")
	}
	if fl.backward {
		res.Hist = append(res.Hist, "backward-seek")
	}
	if fl.exhausted {
		res.Hist = append(res.Hist, "seek-on-invalid-iterator")
	}
	if maxBatch > 12 {
		res.Hist = append(res.Hist, "batch-over-12-ops")
	}
	return res
}

func execMop(in In) vh.Result {
	res := vh.Result{Hist: []string{"kind:" + in.Kind}}
	var out []byte
	var ok bool
	var d *vh.Direct
	if in.Kind == "mopfull" {
		ex := bytesOrNil(in.Existing, in.ExNil)
		d = vh.Guard(10*time.Second, "upsidedown FullMerge", func() { out, ok = udcMO.FullMerge(in.Key, ex, in.Operands) })
		if d != nil {
			res.Direct = d
			return res
		}
		res.Term = cf.App("CMopFull", cf.Bytes(in.Key), cOptBytes(in.Existing, in.ExNil), cf.ListOf(in.Operands, cBytes), cOptBytes(out, !ok))
	} else {
		d = vh.Guard(10*time.Second, "upsidedown PartialMerge", func() { out, ok = udcMO.PartialMerge(in.Key, in.L, in.R) })
		if d != nil {
			res.Direct = d
			return res
		}
		res.Term = cf.App("CMopPartial", cf.Bytes(in.Key), cf.Bytes(in.L), cf.Bytes(in.R), cOptBytes(out, !ok))
	}
	res.Nontrivial = ok
	return res
}

func exec(in In) vh.Result {
	switch in.Kind {
	case "mopfull", "moppartial":
		return execMop(in)
	}
	if storeCode(in.Store) < 0 || (in.LL != "" && (in.Store != "moss" || llCode(in.LL) < 0)) {
		return vh.Result{Skip: true}
	}
	return execSeq(in)
}

func main() {
	captureUDC()
	vh.Main(vh.Config{
		Property:  "C15",
		Imports:   []string{"Common.Bytes", "Kv.Adapter", "Kv.AdapterCorr"},
		CaseType:  "AdapterCorr.case",
		CheckFn:   "AdapterCorr.check",
		ExplainFn: "AdapterCorr.explain",
		Rule: "operation sequences (3-25 steps + a final dump) over keys from {00,61,62,ff}^0..3 with shared prefixes and empty values, " +
			"for gtreap, boltdb (non-empty keys), goleveldb, moss and metrics-over-gtreap with merge operators cat / cat-without-partial-merge / upsidedown's own: " +
			"batches whose native form holds each key once; readers opened at random points and read later (get, prefix and range iterators under Seek/Next programs, Next only while valid); " +
			"separate small case kinds: pfxff (one prefix iteration with a prefix ending in 0xff), mget (one MultiGet of 1-4 keys), dup (a key set/deleted several times in one batch, or several operands under an operator refusing partial merges), " +
			"policy (a key merged and set/deleted in one batch; not moss), " +
			"bigdup (one or two batches of 13-40 operations over 20-44 keys in which 1-6 keys are set/deleted two or three times with distinct values, the rest once or merged; old and new reader dump everything; not moss), " +
			"bseek (6-12 keys written by 1-3 batches, then 2-4 batches each deleting one or two of them, mostly the smallest live ones, readers opened before / between / after; " +
			"prefix and range iterators starting at or before deleted keys under programs that Seek backwards - to deleted keys, their truncations, the range start, nil - and Seek after exhaustion; all five stores, every batch holding each key once), " +
			"mopfull/moppartial (upsidedown's merge operator called directly). " +
			"Configurations: besides the five default ones, moss over a lower-level store - gtreap, boltdb (non-empty keys), goleveldb (llStore of moss/lower.go) each with mossLowerLevelMaxBatchSize unset, 1, 2, 3, 4, 7, and the native mossStore - 19 in all, each with: " +
			"persist (12-24 distinct keys; 2-4 rounds of [reader opened] + a batch of distinct keys whose size is k*max or k*max+-1, k = 1..3 (sizes 1-12 where max is unset) + [second batch] + [dump before the flush] + sync " +
			"(the harness polls the collection statistics until moss has no dirty segment, i.e. the persister has pushed everything to the lower level) + dump / Gets / a random read on a fresh reader + dumps on the readers opened before the flush; " +
			"at least one exact-multiple batch is flushed alone; lower levels with files: close, reopen over the same files, dump, sometimes another batch + sync + dump + reopen), " +
			"seq and bseek as above with a sync after about every second batch and a final sync + reopen + dump, " +
			"llmix (8-14 distinct keys: one or two batches flushed, one or two left in memory - sets, deletes of flushed keys, merges -, a reader opened on the two layers: dump, Gets, 2-3 iterators under Seek/Next programs with backward Seeks, then the flush under the open reader and the same reader and a fresh one read again). " +
			"No batch of these holds a key twice. " +
			"A case of these configurations is non-trivial when, in addition, at least one sync completed and a read was made after it. " +
			"A sequence case is non-trivial when at least one batch ran and at least one read returned something (a value, or an iterator position that was valid).",
		ShardSize: 90, // 10 shards in the quick tier, evaluated in parallel
		Workers:   8,
	}, gen, exec)
}
