// C13 (snapshot-epoch key codec) correspondence harness: encodeUvarintAscending /
// decodeUvarintAscending of index/scorch/int.go — the names of the per-snapshot buckets in
// root.bolt, on which Rollback, RollbackPoints, reopen ("which snapshot is newest") and the
// purger depend — through index/scorch/verif_export_epoch.go.  The oracle is
// coq/Scorch/EpochCodec.v (evaluated by EpochCodecCorr.check); nothing here computes an
// expected answer.
package main

import (
	"bytes"
	"fmt"
	"io"
	"log"
	"math/bits"
	"os"
	"time"

	"github.com/blevesearch/bleve/v2/index/scorch"

	cf "verifharness/internal/coqfmt"
	"verifharness/internal/vh"
	"verifharness/internal/vrand"
)

type In struct {
	Kind   string   `json:"kind"` // enc | encto | dec | round | order | bolt
	V      uint64   `json:"v"`
	W      uint64   `json:"w,omitempty"`      // second value of an order case
	Bytes  []int    `json:"bytes,omitempty"`  // dec: input; encto: the buffer appended to; round: trailing bytes
	Epochs []uint64 `json:"epochs,omitempty"` // bolt: buckets named by the real encoder
	Raw    [][]int  `json:"raw,omitempty"`    // bolt: buckets with these literal names
}

func toBytes(l []int) []byte {
	b := make([]byte, len(l))
	for i, x := range l {
		b[i] = byte(x)
	}
	return b
}

// boundaries of the encoder's switch and their neighbours
func boundaries() []uint64 {
	out := []uint64{0, 1, 2, 107, 108, 109, 110, 111, 112, 127, 128, 135, 136, 137, 245, 246, 253, 254}
	for k := uint(8); k <= 64; k += 8 {
		var p uint64
		if k < 64 {
			p = uint64(1) << k
		}
		for d := uint64(0); d < 3; d++ {
			out = append(out, p-1-d) // 2^k-1, -2, -3 (k = 64: the top of the range)
			if k < 64 {
				out = append(out, p+d)
			}
		}
	}
	return out
}

// 2^k-1, 2^k, 2^k+1 for k <= 64 (within uint64)
func powers() []uint64 {
	var out []uint64
	for k := uint(0); k < 64; k++ {
		p := uint64(1) << k
		out = append(out, p-1, p, p+1)
	}
	return append(out, ^uint64(0))
}

// a value whose width is uniform over 1..64 bits
func randVal(r *vrand.R) uint64 {
	k := uint(r.Range(1, 64))
	v := r.U64()
	if k < 64 {
		v &= (uint64(1) << k) - 1
	}
	if r.Chance(1, 6) { // near a byte-width boundary
		j := uint(8 * r.Range(1, 8))
		var p uint64
		if j < 64 {
			p = uint64(1) << j
		}
		v = p + uint64(r.Range(-3, 3))
	}
	return v
}

// a well-formed key to damage (input construction only; never compared with anything)
func wellFormed(v uint64) []int {
	if v <= 109 {
		return []int{136 + int(v)}
	}
	n := (bits.Len64(v) + 7) / 8
	out := []int{245 + n}
	for i := n - 1; i >= 0; i-- {
		out = append(out, int(v>>(8*uint(i)))&0xff)
	}
	return out
}

func randBytes(r *vrand.R, n int) []int {
	l := make([]int, n)
	mode := r.Intn(5)
	for i := range l {
		switch mode {
		case 0:
			l[i] = 0
		case 1:
			l[i] = 255
		default:
			l[i] = r.Intn(256)
		}
	}
	return l
}

func gen(f vh.Flags, r *vrand.R, emit func(In)) {
	// ---- encoder: every value 0..1000, the powers of two and the switch boundaries, random
	for v := uint64(0); v <= 1000; v++ {
		emit(In{Kind: "enc", V: v})
	}
	for _, v := range powers() {
		emit(In{Kind: "enc", V: v})
	}
	for _, v := range boundaries() {
		emit(In{Kind: "enc", V: v})
	}
	for k, n := 0, f.N(300, 60000); k < n; k++ {
		emit(In{Kind: "enc", V: randVal(r)})
	}
	for k, n := 0, f.N(40, 4000); k < n; k++ {
		emit(In{Kind: "encto", V: randVal(r), Bytes: randBytes(r, r.Range(0, 6))})
	}
	// ---- decode after encode, with and without trailing bytes
	for v := uint64(0); v <= 300; v++ {
		emit(In{Kind: "round", V: v, Bytes: randBytes(r, r.Intn(3))})
	}
	for _, v := range powers() {
		emit(In{Kind: "round", V: v, Bytes: randBytes(r, r.Intn(3))})
	}
	for _, v := range boundaries() {
		emit(In{Kind: "round", V: v})
		emit(In{Kind: "round", V: v, Bytes: randBytes(r, r.Range(1, 9))})
	}
	for k, n := 0, f.N(200, 40000); k < n; k++ {
		emit(In{Kind: "round", V: randVal(r), Bytes: randBytes(r, r.Intn(4))})
	}
	// ---- decoder on arbitrary input
	emit(In{Kind: "dec"})
	for b0 := 0; b0 < 256; b0++ { // every tag: alone, and followed by more than it can need
		emit(In{Kind: "dec", Bytes: []int{b0}})
		emit(In{Kind: "dec", Bytes: append([]int{b0}, randBytes(r, 10)...)})
	}
	for tag := 244; tag <= 255; tag++ { // every payload length around the one the tag announces
		for n := 0; n <= 11; n++ {
			emit(In{Kind: "dec", Bytes: append([]int{tag}, randBytes(r, n)...)})
		}
	}
	for k, n := 0, f.N(150, 30000); k < n; k++ { // random strings
		emit(In{Kind: "dec", Bytes: randBytes(r, r.Range(0, 12))})
	}
	for k, n := 0, f.N(200, 40000); k < n; k++ { // damaged encodings
		e := wellFormed(randVal(r))
		switch r.Intn(6) {
		case 0: // truncated
			e = e[:r.Intn(len(e))]
		case 1: // tag moved
			e[0] = (e[0] + vrand.Pick(r, []int{-1, 1, 2, -2, 8, -8}) + 256) % 256
		case 2: // over-long: padded with leading zero bytes under a longer tag
			if len(e) >= 2 && e[0] < 253 {
				pad := r.Range(1, 253-e[0])
				e = append(append([]int{e[0] + pad}, make([]int, pad)...), e[1:]...)
			}
		case 3: // a small value in a length-prefixed form
			e = append([]int{246 + r.Intn(3)}, randBytes(r, 3)...)
			e[len(e)-1] = r.Intn(110)
		case 4: // trailing bytes
			e = append(e, randBytes(r, r.Range(1, 5))...)
		case 5: // tag beyond intMax with enough bytes for a 9- or 10-byte payload
			e = append([]int{254 + r.Intn(2)}, randBytes(r, r.Range(8, 12))...)
		}
		emit(In{Kind: "dec", Bytes: e})
	}
	// ---- order of keys
	for v := uint64(0); v <= 300; v++ {
		emit(In{Kind: "order", V: v, W: v + 1})
	}
	for _, v := range boundaries() {
		emit(In{Kind: "order", V: v, W: v + 1}) // wraps to 0 at the top: still a valid pair
		emit(In{Kind: "order", V: v, W: v})
		emit(In{Kind: "order", V: v + 1, W: v})
	}
	for k, n := 0, f.N(300, 60000); k < n; k++ {
		a, b := randVal(r), randVal(r)
		switch r.Intn(4) {
		case 0:
			b = a + uint64(r.Range(-2, 2))
		case 1: // same width, differ in a low byte only
			b = a ^ uint64(r.Range(0, 255))
		}
		emit(In{Kind: "order", V: a, W: b})
	}
	// ---- real root.bolt
	emit(In{Kind: "bolt", Epochs: []uint64{107, 108, 109, 110, 111}})
	emit(In{Kind: "bolt", Epochs: []uint64{109}})
	emit(In{Kind: "bolt", Epochs: []uint64{255, 256, 65535, 65536, 1, 110, 109}})
	emit(In{Kind: "bolt", Epochs: []uint64{3, 109, 200}, Raw: [][]int{{0}, {135, 1}, {254}, {247, 1}, {247, 0, 5}, {245, 9}}})
	for k, n := 0, f.N(40, 2000); k < n; k++ {
		var es []uint64
		base := vrand.Pick(r, []uint64{0, 100, 105, 109, 250, 65530, 1 << 24, 1<<32 - 4})
		for j, m := 0, r.Range(1, 8); j < m; j++ {
			switch r.Intn(3) {
			case 0:
				es = append(es, base+uint64(r.Range(0, 12)))
			case 1:
				es = append(es, uint64(r.Range(0, 300)))
			default:
				es = append(es, randVal(r))
			}
		}
		var raw [][]int
		if r.Chance(1, 3) {
			for j, m := 0, r.Range(1, 3); j < m; j++ {
				raw = append(raw, randBytes(r, r.Range(1, 10)))
			}
		}
		emit(In{Kind: "bolt", Epochs: es, Raw: raw})
	}
}

func widthClass(v uint64) string {
	if v <= 109 {
		return "w=0"
	}
	return fmt.Sprintf("w=%d", (bits.Len64(v)+7)/8)
}

func resT(rest []byte, v uint64, err error) cf.T {
	if err != nil {
		return cf.None
	}
	return cf.Some(cf.Pair(cf.Bytes(rest), cf.U(v)))
}

func intsT(l []int) cf.T { return cf.Bytes(toBytes(l)) }

func exec(in In) vh.Result {
	switch in.Kind {
	case "enc":
		var out []byte
		if d := vh.Guard(20*time.Second, "encodeUvarintAscending", func() {
			out = scorch.VerifEncodeUvarintAscending(nil, in.V)
		}); d != nil {
			return vh.Result{Direct: d}
		}
		return vh.Result{Term: cf.App("CEnc", cf.U(in.V), cf.Bytes(out)),
			Nontrivial: in.V > 109, Hist: []string{"enc", "enc:" + widthClass(in.V)}}
	case "encto":
		pre := toBytes(in.Bytes)
		buf := make([]byte, len(pre), len(pre)+16) // spare capacity: append writes in place
		copy(buf, pre)
		var out []byte
		if d := vh.Guard(20*time.Second, "encodeUvarintAscending", func() {
			out = scorch.VerifEncodeUvarintAscending(buf, in.V)
		}); d != nil {
			return vh.Result{Direct: d}
		}
		return vh.Result{Term: cf.App("CEncTo", cf.Bytes(pre), cf.U(in.V), cf.Bytes(out)),
			Nontrivial: len(pre) > 0, Hist: []string{"encto"}}
	case "dec":
		b := toBytes(in.Bytes)
		var rest []byte
		var v uint64
		var err error
		if d := vh.Guard(20*time.Second, "decodeUvarintAscending", func() {
			rest, v, err = scorch.VerifDecodeUvarintAscending(b)
		}); d != nil {
			return vh.Result{Direct: d}
		}
		h := "dec:ok"
		if err != nil {
			h = "dec:error"
		}
		return vh.Result{Term: cf.App("CDec", cf.Bytes(b), resT(rest, v, err)),
			Nontrivial: err == nil && len(b) >= 2, Hist: []string{"dec", h}}
	case "round":
		trail := toBytes(in.Bytes)
		var rest []byte
		var v uint64
		var err error
		if d := vh.Guard(20*time.Second, "decode after encode", func() {
			key := scorch.VerifEncodeUvarintAscending(nil, in.V)
			rest, v, err = scorch.VerifDecodeUvarintAscending(append(key, trail...))
		}); d != nil {
			return vh.Result{Direct: d}
		}
		return vh.Result{Term: cf.App("CRound", cf.U(in.V), cf.Bytes(trail), resT(rest, v, err)),
			Nontrivial: in.V > 109 || len(trail) > 0, Hist: []string{"round", "round:" + widthClass(in.V)}}
	case "order":
		var c int
		if d := vh.Guard(20*time.Second, "bytes.Compare of two keys", func() {
			c = bytes.Compare(scorch.VerifEncodeUvarintAscending(nil, in.V), scorch.VerifEncodeUvarintAscending(nil, in.W))
		}); d != nil {
			return vh.Result{Direct: d}
		}
		h := "order:same-width"
		if widthClass(in.V) != widthClass(in.W) {
			h = "order:across-widths"
		}
		return vh.Result{Term: cf.App("COrder", cf.U(in.V), cf.U(in.W), cf.Int(c)),
			Nontrivial: in.V != in.W, Hist: []string{"order", h}}
	case "bolt":
		for _, k := range in.Raw {
			if len(k) == 0 { // bolt refuses an empty bucket name
				return vh.Result{Skip: true}
			}
		}
		dir, err := os.MkdirTemp("/tmp", "vh_C13codec_")
		if err != nil {
			return vh.Result{Skip: true}
		}
		defer os.RemoveAll(dir)
		raw := make([][]byte, len(in.Raw))
		for i, k := range in.Raw {
			raw[i] = toBytes(k)
		}
		var res scorch.VerifEpochKeysResult
		if d := vh.Guard(120*time.Second, "RollbackPoints on a scratch root.bolt", func() {
			res, err = scorch.VerifEpochKeysOnBolt(dir, in.Epochs, raw)
		}); d != nil {
			return vh.Result{Direct: d}
		}
		if err != nil {
			return vh.Result{Direct: &vh.Direct{Kind: "error", Detail: err.Error()}}
		}
		if res.PointsError != "" {
			return vh.Result{Direct: &vh.Direct{Kind: "error", Detail: "RollbackPoints: " + res.PointsError}}
		}
		return vh.Result{Term: cf.App("CBolt", cf.ListOf(in.Epochs, cf.U), cf.ListOf(in.Raw, intsT),
			cf.ListOf(res.Keys, cf.Bytes), cf.ListOf(res.Points, cf.U), cf.ListOf(res.BoltEpochs, cf.U)),
			Nontrivial: len(res.Keys) >= 2, Hist: []string{"bolt", fmt.Sprintf("bolt:points=%d", len(res.Points))}}
	}
	return vh.Result{Skip: true}
}

func main() {
	log.SetOutput(io.Discard) // RollbackPoints logs every key it cannot parse
	vh.Main(vh.Config{
		Property:  "C13",
		Imports:   []string{"Common.Bytes", "Scorch.EpochCodec", "Scorch.EpochCodecCorr"},
		CaseType:  "EpochCodecCorr.case",
		CheckFn:   "EpochCodecCorr.check",
		ExplainFn: "EpochCodecCorr.explain",
		Rule: "snapshot-epoch bucket keys: enc = encodeUvarintAscending(nil, v) for every v in 0..1000, 2^k-1 / 2^k / 2^k+1 (k <= 64), the encoder's switch boundaries " +
			"(109/110/111, 255/256, 65535/65536, ... 2^64-1) and their neighbours, values of uniformly random bit width; encto = the same appended to a non-empty buffer; " +
			"round = decodeUvarintAscending(encode(v) ++ trailing bytes) for 0..300, the same boundary sets and random values; " +
			"dec = decodeUvarintAscending on the empty string, every tag byte alone and over-supplied, every payload length 0..11 under the tags 244..255, random strings, " +
			"and damaged encodings (truncated, tag moved, zero-padded under a longer tag, small value in prefixed form, trailing bytes, tags 254/255 with 8..12 bytes); " +
			"order = bytes.Compare of the keys of adjacent, equal, same-width and random pairs; " +
			"bolt = a real root.bolt with snapshot buckets for chosen epochs (around 109 and the width boundaries) and some literal malformed names, read back through the bolt cursor, " +
			"RootBoltSnapshotEpochs and scorch.RollbackPoints; " +
			"non-trivial: enc/round of a multi-byte value (or with trailing bytes), encto with a non-empty buffer, dec accepted on >= 2 bytes, order of distinct values, bolt with >= 2 keys",
		ShardSize: 250,
	}, gen, exec)
}
