// C13 (retention arithmetic) correspondence harness: the persister's choice of which persisted
// snapshots (rollback points) to keep — getTimeSeriesSnapshots, getProtectedSnapshots,
// newCheckPoints, getBoundaryCheckPoint at function level, and getLiveSnapshots +
// removeOldBoltSnapshots on a real root.bolt — through index/scorch/verif_export_retention.go.
// The oracle is coq/Scorch/Retention.v (evaluated by RetentionCorr.check); nothing here computes
// an expected answer.
package main

import (
	"fmt"
	"math"
	"os"
	"sort"
	"time"

	"github.com/blevesearch/bleve/v2/index/scorch"

	cf "verifharness/internal/coqfmt"
	"verifharness/internal/vh"
	"verifharness/internal/vrand"
)

// Snap: for the function-level kinds T is the absolute time stamp (Unix ns); for kind "purge" it
// is the AGE of the snapshot (ns before the wall clock at execution time), because
// getLiveSnapshots reads time.Now itself.
type Snap struct {
	E uint64 `json:"e"`
	T int64  `json:"t"`
}

type In struct {
	Kind     string   `json:"kind"` // ts | prot | bound | purge
	N        int      `json:"n"`    // numSnapshotsToKeep (maxDataPoints for ts)
	Interval int64    `json:"interval"`
	FBits    uint64   `json:"fbits,omitempty"`
	Cps      []Snap   `json:"cps,omitempty"`
	Snaps    []Snap   `json:"snaps"`
	Eligible []uint64 `json:"eligible,omitempty"`
	TS       int64    `json:"ts,omitempty"`
}

const (
	sec  = int64(time.Second)
	base = int64(1_700_000_000) * sec
)

var intervals = []int64{0, 0, 1, 7, 1000, 10 * sec, 600 * sec, 3600 * sec, -5, -600 * sec}

// gaps between consecutive snapshots, in terms of the sampling unit u
func gap(r *vrand.R, u int64, mode int) int64 {
	small := []int64{0, 0, 1, u / 12, u / 6, u / 4}
	around := []int64{u / 2, u - 1, u, u, u + 1, u/2 + 1}
	large := []int64{3 * u / 2, 2 * u, 2*u + 1, 3 * u, 10 * u, 6 * u / 5}
	switch mode {
	case 0: // dense burst
		return vrand.Pick(r, small)
	case 1: // sparse
		return vrand.Pick(r, large)
	case 2: // all equal time stamps
		return 0
	case 3: // exactly on the sampling grid, or a fraction of it that adds up to it
		return vrand.Pick(r, []int64{u, u, u / 2, u / 3, u / 4, 2 * u})
	}
	switch r.Intn(3) {
	case 0:
		return vrand.Pick(r, small)
	case 1:
		return vrand.Pick(r, around)
	}
	return vrand.Pick(r, large)
}

// genSnaps: newest first, epochs strictly descending (unless dup), time stamps going back by
// gaps; occasionally the clock steps back, an epoch repeats, or a time stamp is extreme.
func genSnaps(r *vrand.R, interval int64, n int, pure bool) []Snap {
	u := interval
	if u < 0 {
		u = -u
	}
	if u == 0 {
		u = vrand.Pick(r, []int64{1, 1000, 600 * sec})
	}
	mode := r.Intn(7)
	e := uint64(r.Range(n*16+1, n*16+300))
	t := base + int64(r.Range(0, 1000))
	out := make([]Snap, 0, n)
	for i := 0; i < n; i++ {
		out = append(out, Snap{E: e, T: t})
		e -= uint64(r.Range(1, 15))
		m := mode
		if mode == 5 && i%4 == 3 { // bursts separated by long pauses
			m = 1
		} else if mode == 5 {
			m = 0
		}
		g := gap(r, u, m)
		if r.Chance(1, 25) {
			g = -g - int64(r.Range(0, 3)) // clock stepped back
		}
		t -= g
	}
	if pure && n > 0 {
		if r.Chance(1, 25) { // repeated epoch (never the case for bolt keys, but the code is total)
			out[r.Intn(n)].E = out[r.Intn(n)].E
		}
		if r.Chance(1, 40) { // Time.Sub saturation
			out[r.Intn(n)].T = vrand.Pick(r, []int64{math.MinInt64, math.MaxInt64, math.MinInt64 + 5, math.MaxInt64 - 5})
		}
	}
	return out
}

func genLen(r *vrand.R) int {
	switch r.Intn(10) {
	case 0:
		return 0
	case 1:
		return 1
	case 2:
		return r.Range(13, 30)
	}
	return r.Range(2, 12)
}

var factors = []float64{0, 0.5, 0.5, 1, 0.1, 0.3, 0.7, 0.25, 0.99, 1.0 / 3, 0.9, 0.6}

func genFactor(r *vrand.R, n int) uint64 {
	switch r.Intn(4) {
	case 0:
		return math.Float64bits(vrand.Pick(r, factors))
	case 1:
		// k/n and its neighbours: products that land on, just below or just above an integer
		if n > 0 {
			f := float64(r.Range(0, n)) / float64(n)
			b := math.Float64bits(f)
			switch r.Intn(3) {
			case 0:
				if b > 0 {
					b--
				}
			case 1:
				if f < 1 {
					b++
				}
			}
			return b
		}
		return math.Float64bits(0.5)
	case 2:
		return vrand.Pick(r, []uint64{1, 0x000fffffffffffff, 0x0010000000000000, math.Float64bits(1) - 1, math.Float64bits(0.5) - 1, math.Float64bits(0.5) + 1})
	}
	return math.Float64bits(r.Float())
}

func gen(f vh.Flags, r *vrand.R, emit func(In)) {
	for k, n := 0, f.N(500, 50000); k < n; k++ {
		iv := vrand.Pick(r, intervals)
		if iv == 0 && r.Chance(2, 3) {
			iv = vrand.Pick(r, intervals)
		}
		emit(In{Kind: "ts", N: r.Range(-1, 6), Interval: iv, Snaps: genSnaps(r, iv, genLen(r), true)})
	}
	for k, n := 0, f.N(800, 80000); k < n; k++ {
		iv := vrand.Pick(r, intervals)
		nk := r.Range(0, 6)
		if r.Chance(1, 30) {
			nk = vrand.Pick(r, []int{-1, 7, 40})
		}
		emit(In{Kind: "prot", N: nk, Interval: iv, Snaps: genSnaps(r, iv, genLen(r), true)})
	}
	for k, n := 0, f.N(400, 40000); k < n; k++ {
		iv := vrand.Pick(r, intervals)
		nc := r.Range(0, 9)
		cps := genSnaps(r, iv, nc, true)
		if r.Chance(1, 5) {
			vrand.Shuffle(r, cps) // checkpoints loaded at start-up are in epoch order, not time order
		}
		ts := base + int64(r.Range(-3, 3))*vrand.Pick(r, []int64{1, sec, 600 * sec})
		if nc > 0 && r.Chance(2, 3) {
			ts = cps[r.Intn(nc)].T + int64(r.Range(-1, 1))
		}
		emit(In{Kind: "bound", FBits: genFactor(r, nc), Cps: cps, TS: ts})
	}
	purgeIntervals := []int64{0, 0, -5 * sec, 1_000_000, 60 * sec, 600 * sec, 600 * sec, 3600 * sec}
	for k, n := 0, f.N(300, 30000); k < n; k++ {
		iv := vrand.Pick(r, purgeIntervals)
		nk := r.Range(0, 6)
		nm := genLen(r)
		if nm > 16 {
			nm = 16
		}
		// ages: the generator lays time stamps out backwards from `base`; age = base - ts
		abs := genSnaps(r, ivUnit(iv), nm, false)
		meta := make([]Snap, len(abs))
		cutoffAge := int64(nk-1) * iv
		away := func(age int64) int64 {
			// keep every time stamp at least 5 s away from the clock-dependent cutoff
			// now - (N-1)*interval, so that the few ms between our clock reads cannot matter
			if d := age - cutoffAge; d > -5*sec && d < 5*sec {
				return age + 10*sec
			}
			return age
		}
		first := int64(r.Range(0, 3)) * vrand.Pick(r, []int64{0, sec, 60 * sec})
		if r.Chance(1, 12) {
			first = -30 * sec // a snapshot stamped in the future (clock skew between runs)
		}
		for i, s := range abs {
			meta[i] = Snap{E: s.E, T: away(base - s.T + first)}
		}
		// bolt keys are distinct and the cursor returns them in descending order
		sort.Slice(meta, func(i, j int) bool { return meta[i].E > meta[j].E })
		// previous checkpoints: some of the persisted snapshots and some older, since removed ones
		var cps []Snap
		for _, m := range meta {
			if r.Chance(1, 3) {
				cps = append(cps, m)
			}
		}
		for j := r.Range(0, 3); j > 0; j-- {
			cps = append(cps, Snap{E: uint64(r.Range(1, 9)), T: away(int64(r.Range(1, 40)) * ivUnit(iv) / 4)})
		}
		if r.Chance(4, 5) {
			sort.SliceStable(cps, func(i, j int) bool { return cps[i].T < cps[j].T }) // newest first
		}
		var el []uint64
		for _, m := range meta {
			if r.Chance(3, 5) {
				el = append(el, m.E)
			}
			if r.Chance(1, 3) {
				el = append(el, m.E+uint64(r.Range(1, 3))*1000) // an epoch that was never persisted
			}
		}
		if r.Chance(1, 2) {
			vrand.Shuffle(r, el)
		}
		if len(el) > 0 && r.Chance(1, 10) {
			el = append(el, el[r.Intn(len(el))])
		}
		emit(In{Kind: "purge", N: nk, Interval: iv, FBits: math.Float64bits(vrand.Pick(r, []float64{0, 0.5, 0.5, 1, 0.3, 0.7})),
			Cps: cps, Snaps: meta, Eligible: el})
	}
}

func ivUnit(iv int64) int64 {
	if iv <= 0 || iv < sec {
		return 60 * sec
	}
	return iv
}

// snapsT prints a list of snapshots as (rb B [(epoch, ts-B); ...]) — RetentionCorr.rb adds B back —
// because 19-digit literals dominate the time Coq needs to read a cases file.  Printing only;
// B = 0 when a difference would not fit int64.
func snapsT(b int64, l []scorch.VerifSnapMeta) cf.T {
	for _, s := range l {
		if d := s.TimeNanos - b; (b > 0 && d > s.TimeNanos) || (b < 0 && d < s.TimeNanos) {
			b = 0
			break
		}
	}
	return cf.App("rb", cf.Z(b), cf.ListOf(l, func(s scorch.VerifSnapMeta) cf.T {
		return cf.Pair(cf.U(s.Epoch), cf.Z(s.TimeNanos-b))
	}))
}

func toMeta(l []Snap) []scorch.VerifSnapMeta {
	rv := make([]scorch.VerifSnapMeta, len(l))
	for i, s := range l {
		rv[i] = scorch.VerifSnapMeta{Epoch: s.E, TimeNanos: s.T}
	}
	return rv
}

func exec(in In) vh.Result {
	switch in.Kind {
	case "ts":
		snaps := toMeta(in.Snaps)
		var out []scorch.VerifSnapMeta
		if d := vh.Guard(20*time.Second, "getTimeSeriesSnapshots", func() {
			out = scorch.VerifTimeSeriesSnapshots(in.N, in.Interval, snaps)
		}); d != nil {
			return vh.Result{Direct: d}
		}
		return vh.Result{Term: cf.App("CTimeSeries", cf.Int(in.N), cf.Z(in.Interval), snapsT(base, snaps), snapsT(base, out)),
			Nontrivial: len(out) >= 2, Hist: []string{"ts", fmt.Sprintf("ts:sampled=%d", len(out))}}
	case "prot":
		live := toMeta(in.Snaps)
		var prot, cps []scorch.VerifSnapMeta
		var panicked bool
		if d := vh.Guard(20*time.Second, "getProtectedSnapshots", func() {
			prot, cps, panicked = scorch.VerifProtectedSnapshots(in.N, in.Interval, live)
		}); d != nil {
			return vh.Result{Direct: d}
		}
		impl := cf.None
		if !panicked {
			impl = cf.Some(cf.Pair(snapsT(base, prot), snapsT(base, cps)))
		}
		h := "prot:interval>0"
		if in.Interval == 0 {
			h = "prot:interval=0"
		} else if in.Interval < 0 {
			h = "prot:interval<0"
		}
		return vh.Result{Term: cf.App("CProtected", cf.Int(in.N), cf.Z(in.Interval), snapsT(base, live), impl),
			Nontrivial: in.Interval != 0 && len(prot) >= 2 && len(prot) < len(live),
			Hist:       []string{"prot", h, fmt.Sprintf("prot:kept=%d", len(prot))}}
	case "bound":
		cps := toMeta(in.Cps)
		var out int64
		if d := vh.Guard(20*time.Second, "getBoundaryCheckPoint", func() {
			out = scorch.VerifBoundaryCheckPoint(math.Float64frombits(in.FBits), cps, in.TS)
		}); d != nil {
			return vh.Result{Direct: d}
		}
		return vh.Result{Term: cf.App("CBoundary", cf.U(in.FBits), snapsT(base, cps), cf.Z(in.TS), cf.Z(out)),
			Nontrivial: out != in.TS, Hist: []string{"bound"}}
	case "purge":
		dir, err := os.MkdirTemp("/tmp", "vh_c13ret_")
		if err != nil {
			return vh.Result{Skip: true}
		}
		defer os.RemoveAll(dir)
		now := time.Now().UnixNano()
		abs := func(l []Snap) []scorch.VerifSnapMeta {
			rv := make([]scorch.VerifSnapMeta, len(l))
			for i, s := range l {
				rv[i] = scorch.VerifSnapMeta{Epoch: s.E, TimeNanos: now - s.T}
			}
			return rv
		}
		meta, cps := abs(in.Snaps), abs(in.Cps)
		var res scorch.VerifPurgeResult
		if d := vh.Guard(60*time.Second, "removeOldBoltSnapshots", func() {
			res, err = scorch.VerifRemoveOldBoltSnapshots(dir, in.N, in.Interval, math.Float64frombits(in.FBits), cps, meta, in.Eligible)
		}); d != nil {
			return vh.Result{Direct: d}
		}
		if err != nil {
			return vh.Result{Direct: &vh.Direct{Kind: "error", Detail: err.Error()}}
		}
		kept := len(res.Eligible)
		return vh.Result{Term: cf.App("CPurge", cf.Int(in.N), cf.Z(in.Interval), cf.U(in.FBits), snapsT(now, cps), snapsT(now, meta),
			cf.ListOf(in.Eligible, cf.U), cf.Z(res.NowBefore), cf.Z(res.NowMid), cf.Z(res.NowAfter),
			snapsT(now, res.Live), cf.Int(res.NumRemoved), cf.ListOf(res.BoltEpochs, cf.U), cf.ListOf(res.Eligible, cf.U), snapsT(now, res.CheckPoints)),
			Nontrivial: res.NumRemoved >= 1 && kept >= 1,
			Hist:       []string{"purge", fmt.Sprintf("purge:removed=%d", res.NumRemoved), fmt.Sprintf("purge:live=%d", len(res.Live))}}
	}
	return vh.Result{Skip: true}
}

func main() {
	// quick tier: 16 small shards evaluate in parallel (bin/vcheck runs 16 coqc jobs); thorough: fewer, larger files
	shard := 125
	for i, a := range os.Args {
		if (a == "-tier" || a == "--tier") && i+1 < len(os.Args) && os.Args[i+1] == "thorough" || a == "-tier=thorough" || a == "--tier=thorough" {
			shard = 500
		}
	}
	vh.Main(vh.Config{
		Property:  "C13",
		Imports:   []string{"Common.Bytes", "Scorch.Retention", "Scorch.RetentionCorr"},
		CaseType:  "RetentionCorr.case",
		CheckFn:   "RetentionCorr.check",
		ExplainFn: "RetentionCorr.explain",
		Rule: "synthetic (epoch, time stamp) lists, newest first: dense bursts, pauses longer/shorter than the sampling interval, gaps exactly on / one ns off the interval, " +
			"equal time stamps, clock steps back, single snapshot, empty, repeated epochs and int64-extreme stamps (function level only); numSnapshotsToKeep -1..7, " +
			"sampling interval 0 / 1 ns..1 us / 10 s..1 h / negative; retention factor as float64 bits incl. k/n +- 1 ulp; " +
			"kinds ts (getTimeSeriesSnapshots), prot (getProtectedSnapshots + newCheckPoints), bound (getBoundaryCheckPoint), " +
			"purge (getLiveSnapshots + removeOldBoltSnapshots on a real root.bolt with existing checkpoints and an eligibleForRemoval list that also names never-persisted epochs; " +
			"stamps kept >= 5 s away from the clock-dependent cutoff); " +
			"non-trivial: ts with >= 2 sampled points, prot with sampling on that keeps >= 2 but not all, bound that moves the cutoff, purge that removes some and keeps some eligible epochs",
		ShardSize: shard,
	}, gen, exec)
}
