// C07 correspondence harness: numeric encoding, range splitting, candidate enumeration,
// numeric / date range queries and numeric sort on the real implementation.
package main

import (
	"bytes"
	"context"
	"fmt"
	"math"
	"os"
	"sort"
	"sync/atomic"
	"time"

	"github.com/blevesearch/bleve/v2"
	"github.com/blevesearch/bleve/v2/index/scorch"
	"github.com/blevesearch/bleve/v2/index/upsidedown"
	"github.com/blevesearch/bleve/v2/index/upsidedown/store/boltdb"
	"github.com/blevesearch/bleve/v2/index/upsidedown/store/gtreap"
	"github.com/blevesearch/bleve/v2/numeric"
	"github.com/blevesearch/bleve/v2/search"
	"github.com/blevesearch/bleve/v2/search/searcher"
	index "github.com/blevesearch/bleve_index_api"

	cf "verifharness/internal/coqfmt"
	"verifharness/internal/vh"
	"verifharness/internal/vrand"
)

type In struct {
	Kind   string     `json:"kind"`
	Bits   uint64     `json:"bits,omitempty"`
	I      int64      `json:"i,omitempty"`
	Shift  int        `json:"shift,omitempty"`
	P      []byte     `json:"p,omitempty"`
	A      uint64     `json:"a,omitempty"`
	B      uint64     `json:"b,omitempty"`
	Lo     int64      `json:"lo,omitempty"`
	Hi     int64      `json:"hi,omitempty"`
	Mn     *uint64    `json:"mn,omitempty"`
	Mx     *uint64    `json:"mx,omitempty"`
	DLo    *int64     `json:"dlo,omitempty"`
	DHi    *int64     `json:"dhi,omitempty"`
	IMin   *bool      `json:"imin,omitempty"`
	IMax   *bool      `json:"imax,omitempty"`
	Docs   [][]uint64 `json:"docs,omitempty"`
	DDocs  [][]int64  `json:"ddocs,omitempty"`
	Engine string     `json:"engine,omitempty"` // scorch | upsidedown (gtreap) | upsidedown-bolt (boltdb on disk)
	// sortm: SortField over the multi-valued field n
	Date   bool `json:"date,omitempty"`   // DDocs (datetime field) instead of Docs (numeric field)
	Mode   int  `json:"mode,omitempty"`   // search.SortFieldMode: 0 default 1 min 2 max
	Desc   bool `json:"desc,omitempty"`
	MFirst bool `json:"mfirst,omitempty"` // SortFieldMissingFirst
	SType  int  `json:"stype,omitempty"`  // search.SortFieldType: 0 auto 2 number 3 date
	Batch  int  `json:"batch,omitempty"`  // docs per batch (0: 3)
}

const probeBudget = 4000

func isNaN(b uint64) bool { return b&0x7fffffffffffffff > 0x7ff0000000000000 }
func isNegZero(b uint64) bool { return b == 0x8000000000000000 }

// interesting sortable int64 values: nibble and 7-bit-group boundaries, extremes.
func edgeInt(r *vrand.R) int64 {
	switch r.Intn(8) {
	case 0:
		j := r.Intn(16)
		k := int64(r.Range(-20, 20))
		return k<<(4*uint(j)) + int64(r.Range(-1, 1))
	case 1:
		j := r.Intn(10)
		k := int64(r.Range(-300, 300))
		return k<<(7*uint(j)) + int64(r.Range(-1, 1))
	case 2:
		return vrand.Pick(r, []int64{math.MinInt64, math.MinInt64 + 1, math.MaxInt64, math.MaxInt64 - 1, 0, -1, 1, -2, 2})
	case 3:
		return int64(r.Range(-40, 40))
	case 4:
		return r.I64() >> uint(r.Intn(64))
	case 5:
		// around a multiple of 2^28 (both a nibble and a 7-bit group boundary)
		return int64(r.Range(-8, 8))<<uint(28*r.Range(1, 2)) + int64(r.Range(-2, 2))
	default:
		return r.I64()
	}
}

var edgeBits = []uint64{
	0, 1, 2, 0x000fffffffffffff, 0x0010000000000000, 0x0010000000000001,
	0x3ff0000000000000, 0x3fefffffffffffff, 0x3ff0000000000001, 0x4000000000000000, 0x3fffffffffffffff,
	0x7fefffffffffffff, 0x7ff0000000000000,
}

func edgeFloatBits(r *vrand.R) uint64 {
	for {
		var b uint64
		switch r.Intn(7) {
		case 0:
			b = vrand.Pick(r, edgeBits)
			if r.Bool() {
				b |= 1 << 63
			}
		case 1:
			b = math.Float64bits(float64(r.Range(-50, 50)))
		case 2:
			b = math.Float64bits(float64(r.Range(-50, 50)) / float64(r.Range(1, 16)))
		case 3:
			b = uint64(numericI2FBits(edgeInt(r)))
		case 4:
			b = math.Float64bits(math.Ldexp(float64(r.Range(-9, 9)), r.Range(-1074, 1023)))
		case 5:
			v := math.Float64bits(float64(r.Range(-4, 4)))
			b = v + uint64(int64(r.Range(-2, 2)))
		default:
			b = r.U64()
		}
		if !isNaN(b) && !isNegZero(b) {
			return b
		}
	}
}

// pure bit fiddling used only to *generate* inputs (not as an oracle)
func numericI2FBits(i int64) uint64 {
	if i < 0 {
		i ^= 0x7fffffffffffffff
	}
	return uint64(i)
}

func gen(f vh.Flags, r *vrand.R, emit func(In)) {
	nf := f.N(3000, 300000)
	for k := 0; k < nf; k++ {
		switch k % 6 {
		case 0:
			emit(In{Kind: "f2i", Bits: edgeFloatBits(r)})
		case 1:
			emit(In{Kind: "i2f", I: edgeInt(r)})
		case 2:
			sh := r.Range(0, 63)
			if r.Chance(1, 20) {
				sh = r.Range(64, 70)
			}
			emit(In{Kind: "enc", I: edgeInt(r), Shift: sh})
		case 3:
			// mostly valid terms, some mangled
			sh := uint(r.Range(0, 63))
			p, _ := numeric.NewPrefixCodedInt64(edgeInt(r), sh)
			q := append([]byte{}, p...)
			switch r.Intn(10) {
			case 0:
				q = q[:r.Intn(len(q)+1)]
			case 1:
				q[r.Intn(len(q))] = byte(r.Intn(256))
			case 2:
				q = append(q, byte(r.Intn(128)))
			}
			emit(In{Kind: "dec", P: q})
		case 4:
			emit(In{Kind: "cmp", A: edgeFloatBits(r), B: edgeFloatBits(r)})
		case 5:
			a, b := edgeInt(r), edgeInt(r)
			if r.Chance(4, 5) && a > b {
				a, b = b, a
			}
			if r.Chance(1, 3) {
				b = a + int64(r.Range(0, 70000))
				if b < a {
					b = math.MaxInt64
				}
			}
			emit(In{Kind: "split", Lo: a, Hi: b})
		}
	}
	// searcher-level candidate probes and API-level range queries
	optB := func() *bool {
		switch r.Intn(3) {
		case 0:
			return nil
		case 1:
			t := true
			return &t
		}
		fl := false
		return &fl
	}
	optBits := func() *uint64 {
		if r.Chance(1, 8) {
			return nil
		}
		b := edgeFloatBits(r)
		if r.Chance(1, 10) {
			// the infinities and the largest finite values: where "exclusive" must still exclude
			b = vrand.Pick(r, []uint64{0x7ff0000000000000, 0xfff0000000000000, 0x7fefffffffffffff, 0xffefffffffffffff})
		}
		return &b
	}
	nc := f.N(250, 20000)
	for k := 0; k < nc; k++ {
		mn, mx := optBits(), optBits()
		if mn != nil && mx != nil && r.Chance(3, 4) {
			// order them by the implementation-independent sign-magnitude rule
			if sortKey(*mn) > sortKey(*mx) {
				mn, mx = mx, mn
			}
		}
		if mn != nil && r.Chance(1, 3) {
			// narrow range around mn (this is where group-boundary crossings live)
			b := uint64(numericI2FBits(sortKey(*mn) + int64(r.Range(0, 40))))
			if !isNaN(b) && !isNegZero(b) {
				mx = &b
			}
		}
		emit(In{Kind: "cand", Mn: mn, Mx: mx, IMin: optB(), IMax: optB()})
	}
	na := f.N(120, 6000)
	for k := 0; k < na; k++ {
		nd := r.Range(1, 8)
		pool := make([]uint64, r.Range(2, 6))
		for i := range pool {
			pool[i] = edgeFloatBits(r)
			if r.Chance(1, 12) {
				pool[i] = vrand.Pick(r, []uint64{0x7ff0000000000000, 0xfff0000000000000, 0x7fefffffffffffff, 0xffefffffffffffff})
			}
		}
		docs := make([][]uint64, nd)
		for i := range docs {
			m := 1
			if r.Chance(1, 4) {
				m = r.Range(0, 3)
			}
			for j := 0; j < m; j++ {
				v := vrand.Pick(r, pool)
				if r.Chance(1, 3) {
					v = uint64(numericI2FBits(sortKey(v) + int64(r.Range(-2, 2))))
					if isNaN(v) || isNegZero(v) {
						v = pool[0]
					}
				}
				docs[i] = append(docs[i], v)
			}
		}
		pick := func() *uint64 {
			if r.Chance(1, 6) {
				return nil
			}
			v := vrand.Pick(r, pool)
			if r.Chance(1, 3) {
				v = uint64(numericI2FBits(sortKey(v) + int64(r.Range(-1, 1))))
				if isNaN(v) || isNegZero(v) {
					v = pool[0]
				}
			}
			return &v
		}
		eng := engineOf(k)
		emit(In{Kind: "api", Mn: pick(), Mx: pick(), IMin: optB(), IMax: optB(), Docs: docs, Engine: eng})
	}
	nd := f.N(60, 3000)
	for k := 0; k < nd; k++ {
		base := int64(r.Range(-3, 3)) * 1_000_000_000
		if r.Chance(1, 4) {
			base = r.I64() >> uint(r.Range(2, 30))
		}
		if r.Chance(1, 4) {
			// the ends of the representable range (years 1677..1714 and 2225..2262): the top 1/16th of
			// the sortable space, where the float view of the timestamp is a NaN bit pattern or huge
			base = vrand.Pick(r, []int64{math.MaxInt64 - 40e15, math.MaxInt64 - 3e18/4, math.MinInt64 + 40e15, math.MinInt64 + 3e18/4, 9_205_000_000_000_000_000, -9_205_000_000_000_000_000}) +
				int64(r.Range(-5, 5))*1_000_000_000_000
		}
		pt := func() int64 {
			switch r.Intn(4) {
			case 0:
				return base + int64(r.Range(-3, 3))
			case 1:
				return base + int64(r.Range(-3, 3))*1_000_000
			case 2:
				return base + int64(r.Range(-2000, 2000))
			}
			return base + int64(r.Range(-3, 3))*1_000_000_000
		}
		docs := make([][]int64, r.Range(1, 7))
		for i := range docs {
			docs[i] = []int64{pt()}
			if r.Chance(1, 5) {
				docs[i] = append(docs[i], pt())
			}
		}
		var lo, hi *int64
		if !r.Chance(1, 6) {
			v := pt()
			lo = &v
		}
		if !r.Chance(1, 6) {
			v := pt()
			hi = &v
		}
		if lo == nil && hi == nil {
			v := pt()
			lo = &v
		}
		eng := engineOf(k)
		emit(In{Kind: "date", DLo: lo, DHi: hi, IMin: optB(), IMax: optB(), DDocs: docs, Engine: eng})
	}
	ns := f.N(40, 1500)
	for k := 0; k < ns; k++ {
		seen := map[uint64]bool{}
		var vals [][]uint64
		for len(vals) < r.Range(2, 12) {
			b := edgeFloatBits(r)
			if b == 0 || seen[b] {
				continue
			}
			seen[b] = true
			vals = append(vals, []uint64{b})
		}
		eng := "scorch"
		if k%2 == 1 {
			eng = "upsidedown"
			if k%4 == 3 {
				eng = "upsidedown-bolt"
			}
		}
		emit(In{Kind: "sort", Docs: vals, Engine: eng})
	}
	// sorting by a MULTI-valued numeric / datetime field with every SortField mode, direction and
	// missing placement, on every index layout: several values per document (mostly >= 3), in the
	// (random, hence unsorted) order they were drawn, negative and fractional ones included, values
	// shared between documents (equal keys) and documents without the field
	nm := f.N(96, 4000)
	for k := 0; k < nm; k++ {
		in := In{Kind: "sortm", Engine: []string{"scorch", "upsidedown", "upsidedown-bolt", "upsidedown"}[k%4],
			Mode: (k / 4) % 3, Desc: r.Bool(), MFirst: r.Bool(), Batch: vrand.Pick(r, []int{1, 3, 3, 100})}
		in.Date = r.Chance(1, 3)
		nd := r.Range(3, 12)
		nvals := func() int { return vrand.Pick(r, []int{0, 1, 2, 3, 3, 3, 4, 5, 6}) }
		if in.Date {
			in.SType = vrand.Pick(r, []int{0, 3})
			base := int64(r.Range(-3, 3)) * 1_000_000_000
			if r.Chance(1, 3) {
				base = r.I64() >> uint(r.Range(2, 30))
			}
			pool := make([]int64, r.Range(3, 3*nd))
			for i := range pool {
				switch r.Intn(4) {
				case 0:
					pool[i] = base + int64(r.Range(-5, 5))
				case 1:
					pool[i] = base + int64(r.Range(-5, 5))*1_000_000
				case 2:
					pool[i] = int64(r.Range(-400, 400)) * 86_400_000_000_000 // days around the epoch, both sides
				default:
					pool[i] = base + int64(r.Range(-5000, 5000))*1_000_000_000
				}
			}
			in.DDocs = make([][]int64, nd)
			for i := range in.DDocs {
				for j := nvals(); j > 0; j-- {
					in.DDocs[i] = append(in.DDocs[i], vrand.Pick(r, pool))
				}
			}
		} else {
			in.SType = vrand.Pick(r, []int{0, 2})
			pool := make([]uint64, r.Range(3, 3*nd))
			for i := range pool {
				switch r.Intn(5) {
				case 0:
					pool[i] = math.Float64bits(float64(r.Range(-60, 60)))
				case 1:
					pool[i] = math.Float64bits(float64(r.Range(-400, 400)) / float64(vrand.Pick(r, []int{2, 4, 8, 16, 3, 10})))
				case 2:
					pool[i] = math.Float64bits(float64(r.Range(-9, 9)) * math.Pow(10, float64(r.Range(-6, 9))))
				default:
					pool[i] = edgeFloatBits(r)
				}
				if isNaN(pool[i]) || isNegZero(pool[i]) {
					pool[i] = math.Float64bits(-0.5)
				}
			}
			in.Docs = make([][]uint64, nd)
			for i := range in.Docs {
				for j := nvals(); j > 0; j-- {
					in.Docs[i] = append(in.Docs[i], vrand.Pick(r, pool))
				}
			}
		}
		emit(in)
	}
}

func engineOf(k int) string {
	switch k % 6 {
	case 2:
		return "upsidedown"
	case 5:
		return "upsidedown-bolt"
	}
	return "scorch"
}

// sortKey orders bit patterns as numbers (generator use only).
func sortKey(b uint64) int64 {
	i := int64(b)
	if i < 0 {
		i ^= 0x7fffffffffffffff
	}
	return i
}

func optZ(p *uint64) cf.T { return cf.Opt(p, func(u uint64) cf.T { return cf.U(u) }) }
func optI(p *int64) cf.T  { return cf.Opt(p, func(u int64) cf.T { return cf.Z(u) }) }
func optBool(p *bool) cf.T {
	return cf.Opt(p, func(b bool) cf.T { return cf.Bool(b) })
}
func fp(p *uint64) *float64 {
	if p == nil {
		return nil
	}
	f := math.Float64frombits(*p)
	return &f
}

type budgetExceeded struct{ n int }

type countingReader struct {
	index.IndexReader
	probes [][]byte
}

type countingDict struct {
	inner index.FieldDictContains
	cr    *countingReader
}

func (c *countingReader) FieldDictContains(field string) (index.FieldDictContains, error) {
	inner, err := c.IndexReader.(index.IndexReaderContains).FieldDictContains(field)
	if err != nil {
		return nil, err
	}
	return &countingDict{inner: inner, cr: c}, nil
}

func (d *countingDict) Contains(key []byte) (bool, error) {
	d.cr.probes = append(d.cr.probes, append([]byte{}, key...))
	if len(d.cr.probes) > probeBudget {
		panic(budgetExceeded{len(d.cr.probes)})
	}
	return d.inner.Contains(key)
}
func (d *countingDict) BytesRead() uint64 { return d.inner.BytesRead() }

var scratchSeq atomic.Int64

// newIndex returns the index and the function that closes it (and removes its scratch directory
// for the on-disk layout)
func newIndex(engine string) (bleve.Index, func(), error) {
	m := bleve.NewIndexMapping()
	var idx bleve.Index
	var err error
	dir := ""
	switch engine {
	case "upsidedown":
		idx, err = bleve.NewUsing("", m, upsidedown.Name, gtreap.Name, nil)
	case "upsidedown-bolt":
		dir = fmt.Sprintf("/tmp/vh_c07_%d_%d", os.Getpid(), scratchSeq.Add(1))
		_ = os.RemoveAll(dir)
		idx, err = bleve.NewUsing(dir, m, upsidedown.Name, boltdb.Name, nil)
	default:
		idx, err = bleve.NewUsing("", m, scorch.Name, scorch.Name, nil)
	}
	if err != nil {
		if dir != "" {
			_ = os.RemoveAll(dir)
		}
		return nil, nil, err
	}
	return idx, func() {
		_ = idx.Close()
		if dir != "" {
			_ = os.RemoveAll(dir)
		}
	}, nil
}

// probe runs NewNumericRangeSearcher over a scorch reader whose dictionary counts (and
// bounds) the candidate terms probed.
func probe(mn, mx *float64, imin, imax *bool) (cands [][]byte, blown bool, err error) {
	idx, closeIdx, err := newIndex("scorch")
	if err != nil {
		return nil, false, err
	}
	defer closeIdx()
	_ = idx.Index("d", map[string]interface{}{"n": 1.5})
	adv, err := idx.Advanced()
	if err != nil {
		return nil, false, err
	}
	rd, err := adv.Reader()
	if err != nil {
		return nil, false, err
	}
	defer rd.Close()
	cr := &countingReader{IndexReader: rd}
	func() {
		defer func() {
			if e := recover(); e != nil {
				if _, ok := e.(budgetExceeded); ok {
					blown = true
					return
				}
				panic(e)
			}
		}()
		s, serr := searcher.NewNumericRangeSearcher(context.Background(), cr, mn, mx, imin, imax, "n", 1.0, search.SearcherOptions{})
		if serr != nil {
			err = serr
			return
		}
		_ = s.Close()
	}()
	return cr.probes, blown, err
}

func exec(in In) vh.Result {
	switch in.Kind {
	case "f2i":
		i := numeric.Float64ToInt64(math.Float64frombits(in.Bits))
		back := math.Float64bits(numeric.Int64ToFloat64(i))
		return vh.Result{Term: cf.App("CF2I", cf.U(in.Bits), cf.Z(i), cf.U(back)), Nontrivial: in.Bits>>63 == 1, Hist: []string{"f2i"}}
	case "i2f":
		b := math.Float64bits(numeric.Int64ToFloat64(in.I))
		if isNaN(b) {
			return vh.Result{Skip: true}
		}
		back := numeric.Float64ToInt64(math.Float64frombits(b))
		return vh.Result{Term: cf.App("CI2F", cf.Z(in.I), cf.U(b), cf.Z(back)), Nontrivial: in.I < 0, Hist: []string{"i2f"}}
	case "enc":
		p, err := numeric.NewPrefixCodedInt64(in.I, uint(in.Shift))
		t := cf.None
		if err == nil {
			t = cf.Some(cf.Bytes(p))
		}
		return vh.Result{Term: cf.App("CEnc", cf.Z(in.I), cf.Int(in.Shift), t), Nontrivial: in.Shift > 0 && in.Shift < 64, Hist: []string{"enc"}}
	case "dec":
		v, err := numeric.PrefixCoded(in.P).Int64()
		t := cf.None
		if err == nil {
			t = cf.Some(cf.Z(v))
		}
		ok, sh := numeric.ValidPrefixCodedTermBytes(in.P)
		vt := cf.None
		if ok {
			vt = cf.Some(cf.Int(sh))
		}
		return vh.Result{Term: cf.App("CDec", cf.Bytes(in.P), t, vt), Nontrivial: ok, Hist: []string{"dec"}}
	case "cmp":
		fa, fb := math.Float64frombits(in.A), math.Float64frombits(in.B)
		fc := 0
		if fa < fb {
			fc = -1
		} else if fa > fb {
			fc = 1
		}
		ta := numeric.MustNewPrefixCodedInt64(numeric.Float64ToInt64(fa), 0)
		tb := numeric.MustNewPrefixCodedInt64(numeric.Float64ToInt64(fb), 0)
		return vh.Result{Term: cf.App("CCmp", cf.U(in.A), cf.U(in.B), cf.Int(fc), cf.Int(bytes.Compare(ta, tb))), Nontrivial: fc != 0, Hist: []string{"cmp"}}
	case "split":
		trs := searcher.VerifSplitInt64Range(in.Lo, in.Hi, 4)
		ts := cf.ListOf(trs, func(p [2][]byte) cf.T { return cf.Pair(cf.Bytes(p[0]), cf.Bytes(p[1])) })
		return vh.Result{Term: cf.App("CSplit", cf.Z(in.Lo), cf.Z(in.Hi), "4", ts), Nontrivial: len(trs) >= 3,
			Hist: []string{"split", fmt.Sprintf("split:ranges=%d", len(trs)/4*4)}}
	case "cand":
		var cands [][]byte
		var blown bool
		var err error
		if d := vh.Guard(60*time.Second, "NewNumericRangeSearcher(candidate probe)", func() {
			cands, blown, err = probe(fp(in.Mn), fp(in.Mx), in.IMin, in.IMax)
		}); d != nil {
			return vh.Result{Direct: d, Class: "range-enumeration"}
		}
		if blown {
			return vh.Result{Class: "range-enumeration", Direct: &vh.Direct{Kind: "nontermination",
				Detail: fmt.Sprintf("numeric range searcher probed more than %d candidate terms (the model proves <= 464 for every range (C07_range_candidates_total)); the enumeration does not terminate in practice", probeBudget)}}
		}
		if err != nil {
			return vh.Result{Direct: &vh.Direct{Kind: "error", Detail: err.Error()}}
		}
		return vh.Result{Term: cf.App("CCand", optZ(in.Mn), optZ(in.Mx), optBool(in.IMin), optBool(in.IMax),
			cf.ListOf(cands, cf.Bytes)), Nontrivial: len(cands) >= 8, Hist: []string{"cand", fmt.Sprintf("cand:n=%d", len(cands)/16*16)}}
	case "api", "date", "sort", "sortm":
		return execAPI(in)
	}
	return vh.Result{Skip: true}
}

func execAPI(in In) vh.Result {
	// never hand an un-probed range to an engine that enumerates without a filter
	if in.Kind == "api" {
		_, blown, err := probe(fp(in.Mn), fp(in.Mx), in.IMin, in.IMax)
		if blown {
			return vh.Result{Class: "range-enumeration", Direct: &vh.Direct{Kind: "nontermination",
				Detail: fmt.Sprintf("numeric range query needs more than %d enumeration steps", probeBudget)}}
		}
		if err != nil {
			return vh.Result{Direct: &vh.Direct{Kind: "error", Detail: err.Error()}}
		}
	}
	if in.Kind == "date" {
		var mn, mx *float64
		if in.DLo != nil {
			f := numeric.Int64ToFloat64(*in.DLo)
			mn = &f
		}
		if in.DHi != nil {
			f := numeric.Int64ToFloat64(*in.DHi)
			mx = &f
		}
		_, blown, err := probe(mn, mx, in.IMin, in.IMax)
		if blown {
			return vh.Result{Class: "range-enumeration", Direct: &vh.Direct{Kind: "nontermination",
				Detail: fmt.Sprintf("date range query needs more than %d enumeration steps", probeBudget)}}
		}
		if err != nil {
			return vh.Result{Direct: &vh.Direct{Kind: "error", Detail: err.Error()}}
		}
	}
	idx, closeIdx, err := newIndex(in.Engine)
	if err != nil {
		return vh.Result{Direct: &vh.Direct{Kind: "error", Detail: err.Error()}}
	}
	defer closeIdx()
	nd := len(in.Docs)
	isDate := in.Kind == "date" || (in.Kind == "sortm" && in.Date)
	if isDate {
		nd = len(in.DDocs)
	}
	bs := 3
	if in.Batch > 0 {
		bs = in.Batch
	}
	b := idx.NewBatch()
	for i := 0; i < nd; i++ {
		var vals []interface{}
		if isDate {
			for _, ns := range in.DDocs[i] {
				vals = append(vals, time.Unix(0, ns).UTC())
			}
		} else {
			for _, v := range in.Docs[i] {
				vals = append(vals, math.Float64frombits(v))
			}
		}
		_ = b.Index(fmt.Sprintf("d%03d", i), map[string]interface{}{"n": vals, "k": "x"})
		if i%bs == bs-1 {
			_ = idx.Batch(b)
			b = idx.NewBatch()
		}
	}
	_ = idx.Batch(b)

	var res *bleve.SearchResult
	var serr error
	run := func(req *bleve.SearchRequest) *vh.Direct {
		return vh.Guard(30*time.Second, "Search", func() { res, serr = idx.Search(req) })
	}
	switch in.Kind {
	case "api":
		q := bleve.NewNumericRangeInclusiveQuery(fp(in.Mn), fp(in.Mx), in.IMin, in.IMax)
		q.SetField("n")
		req := bleve.NewSearchRequestOptions(q, nd+5, 0, false)
		if d := run(req); d != nil {
			return vh.Result{Direct: d}
		}
		if serr != nil {
			return vh.Result{Direct: &vh.Direct{Kind: "error", Detail: serr.Error()}}
		}
		hits := hitVector(res, nd)
		any, all := false, true
		for _, h := range hits {
			any = any || h
			all = all && h
		}
		return vh.Result{Term: cf.App("CApi", optZ(in.Mn), optZ(in.Mx), optBool(in.IMin), optBool(in.IMax),
			cf.ListOf(in.Docs, func(vs []uint64) cf.T { return cf.ListOf(vs, cf.U) }), cf.ListOf(hits, cf.Bool)),
			Nontrivial: any && !all, Hist: []string{"api:" + in.Engine}}
	case "date":
		var st, en time.Time
		if in.DLo != nil {
			st = time.Unix(0, *in.DLo).UTC()
		}
		if in.DHi != nil {
			en = time.Unix(0, *in.DHi).UTC()
		}
		q := bleve.NewDateRangeInclusiveQuery(st, en, in.IMin, in.IMax)
		q.SetField("n")
		req := bleve.NewSearchRequestOptions(q, nd+5, 0, false)
		if d := run(req); d != nil {
			return vh.Result{Direct: d}
		}
		if serr != nil {
			return vh.Result{Direct: &vh.Direct{Kind: "error", Detail: serr.Error()}}
		}
		hits := hitVector(res, nd)
		any, all := false, true
		for _, h := range hits {
			any = any || h
			all = all && h
		}
		return vh.Result{Term: cf.App("CDate", optI(in.DLo), optI(in.DHi), optBool(in.IMin), optBool(in.IMax),
			cf.ListOf(in.DDocs, func(vs []int64) cf.T { return cf.ListOf(vs, cf.Z) }), cf.ListOf(hits, cf.Bool)),
			Nontrivial: any && !all, Hist: []string{"date:" + in.Engine}}
	case "sort":
		req := bleve.NewSearchRequestOptions(bleve.NewMatchAllQuery(), nd+5, 0, false)
		req.SortBy([]string{"n"})
		if d := run(req); d != nil {
			return vh.Result{Direct: d}
		}
		if serr != nil {
			return vh.Result{Direct: &vh.Direct{Kind: "error", Detail: serr.Error()}}
		}
		var order []int
		for _, h := range res.Hits {
			var i int
			fmt.Sscanf(h.ID, "d%d", &i)
			order = append(order, i)
		}
		vals := make([]uint64, nd)
		for i := range vals {
			vals[i] = in.Docs[i][0]
		}
		return vh.Result{Term: cf.App("CSort", cf.ListOf(vals, cf.U), cf.ListOf(order, cf.Int)),
			Nontrivial: !sort.IntsAreSorted(order), Hist: []string{"sort:" + in.Engine}}
	case "sortm":
		req := bleve.NewSearchRequestOptions(bleve.NewMatchAllQuery(), nd+5, 0, false)
		miss := search.SortFieldMissingLast
		if in.MFirst {
			miss = search.SortFieldMissingFirst
		}
		req.SortByCustom(search.SortOrder{&search.SortField{Field: "n", Type: search.SortFieldType(in.SType),
			Mode: search.SortFieldMode(in.Mode), Desc: in.Desc, Missing: miss}})
		if d := run(req); d != nil {
			return vh.Result{Direct: d}
		}
		if serr != nil {
			return vh.Result{Direct: &vh.Direct{Kind: "error", Detail: serr.Error()}}
		}
		var order []int
		for _, h := range res.Hits {
			i := -1
			fmt.Sscanf(h.ID, "d%d", &i)
			order = append(order, i)
		}
		var docsT cf.T
		multi := 0
		if in.Date {
			docsT = cf.ListOf(in.DDocs, func(vs []int64) cf.T { return cf.ListOf(vs, cf.Z) })
			for _, vs := range in.DDocs {
				if len(vs) >= 3 {
					multi++
				}
			}
		} else {
			docsT = cf.ListOf(in.Docs, func(vs []uint64) cf.T { return cf.ListOf(vs, cf.U) })
			for _, vs := range in.Docs {
				if len(vs) >= 3 {
					multi++
				}
			}
		}
		field := "numeric"
		if in.Date {
			field = "datetime"
		}
		return vh.Result{Term: cf.App("CSortM", cf.Bool(in.Date), cf.Int(in.Mode), cf.Bool(in.Desc), cf.Bool(in.MFirst), docsT, cf.ListOf(order, cf.Int)),
			Nontrivial: multi >= 2 && !sort.IntsAreSorted(order),
			Hist: []string{"sortm:" + in.Engine, fmt.Sprintf("sortm:mode=%d", in.Mode), "sortm:" + field}}
	}
	return vh.Result{Skip: true}
}

func hitVector(res *bleve.SearchResult, n int) []bool {
	hits := make([]bool, n)
	for _, h := range res.Hits {
		var i int
		fmt.Sscanf(h.ID, "d%d", &i)
		if i >= 0 && i < n {
			hits[i] = true
		}
	}
	return hits
}

func main() {
	vh.Main(vh.Config{
		Property: "C07",
		Imports:  []string{"Common.Bytes", "Numeric.Model", "Numeric.Corr"},
		CaseType: "Corr.case",
		CheckFn:  "Corr.check",
		ExplainFn: "Corr.explain",
		Rule: "boundary-directed values (signs, +-Inf, subnormals, 1-ulp neighbours, every 4-bit and 7-bit group boundary k*16^j+-1, k*128^j+-1, int64 extremes) plus random ones; " +
			"kinds f2i/i2f/enc/dec/cmp/split (function level), cand (searcher-level candidate-term probe), api/date/sort/sortm (Index.Search on scorch in-memory, upside_down over gtreap and upside_down over boltdb on disk); " +
			"sortm = sort by a multi-valued numeric or datetime field (0-6 values per document, mostly >=3, in drawn = unsorted order, negative/fractional/boundary values, values shared between documents, documents without the field) " +
			"with SortField mode default/min/max x asc/desc x missing first/last x type auto/number/date; " +
			"non-trivial: negative values, shifts 1..63, valid terms, unequal pairs, splits with >=3 ranges, >=8 candidates, queries matching some but not all documents, sorts that reorder (sortm: with >=2 documents of >=3 values)",
		ShardSize: 600,
	}, gen, exec)
}
