package main

import (
	"fmt"
	"testing"

	"github.com/blevesearch/bleve/v2"
	"github.com/blevesearch/bleve/v2/search"
)

func TestProbeMissing(t *testing.T) {
	idx, _ := newIndex("scorch")
	defer idx.Close()
	idx.Index("a", map[string]interface{}{"n": 1.0, "t": "x"})
	idx.Index("b", map[string]interface{}{"t": "x"})
	idx.Index("c", map[string]interface{}{"n": 3.0, "t": "x"})
	mk := func() *bleve.SearchRequest {
		req := bleve.NewSearchRequestOptions(bleve.NewMatchAllQuery(), 10, 0, false)
		req.SortByCustom(search.SortOrder{&search.SortField{Field: "n", Type: search.SortFieldAsNumber, Missing: search.SortFieldMissingFirst}, &search.SortDocID{}})
		return req
	}
	res, err := idx.Search(mk())
	fmt.Println(err)
	for _, h := range res.Hits {
		fmt.Printf("%s sort=%q decoded=%q\n", h.ID, h.Sort, h.DecodedSort)
	}
	req := mk()
	req.SetSearchAfter(res.Hits[0].DecodedSort)
	res2, err := idx.Search(req)
	fmt.Println("after first (missing) via DecodedSort:", err, res2)
	req = mk()
	req.SetSearchAfter(res.Hits[0].Sort)
	res2, err = idx.Search(req)
	fmt.Println("after first (missing) via Sort:", err, res2)
}
