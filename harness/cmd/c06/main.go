// C06 correspondence harness: the real TopNCollector over synthetic match streams (collector
// level) and Index.Search paging with From/Size/SearchAfter/SearchBefore on small real indexes
// (API level, scorch in-memory and upsidedown), and complete SearchAfter / SearchBefore walks over a plain
// index or an IndexAlias tree over several member indexes (walk level). The expected pages are computed
// by the Coq model and spec (Collect/TopN.v, Collect/TopNAliasModel.v, Collect/TopNCorr.v), never here.
package main

import (
	"context"
	"fmt"
	"math"
	"sort"
	"strconv"
	"strings"
	"time"

	"github.com/blevesearch/bleve/v2"
	"github.com/blevesearch/bleve/v2/index/scorch"
	"github.com/blevesearch/bleve/v2/index/upsidedown"
	"github.com/blevesearch/bleve/v2/index/upsidedown/store/gtreap"
	"github.com/blevesearch/bleve/v2/numeric"
	"github.com/blevesearch/bleve/v2/search"
	"github.com/blevesearch/bleve/v2/search/collector"
	"github.com/blevesearch/bleve/v2/search/query"
	index "github.com/blevesearch/bleve_index_api"

	cf "verifharness/internal/coqfmt"
	"verifharness/internal/vh"
	"verifharness/internal/vrand"
)

// ---------------------------------------------------------------- inputs

type Slot struct {
	Kind         string `json:"kind"` // score | id | field
	Desc         bool   `json:"desc,omitempty"`
	Field        string `json:"field,omitempty"` // API level: n | s ; collector level: f<slot>
	Type         int    `json:"type,omitempty"`  // 0 auto 1 string 2 number 3 date
	Mode         int    `json:"mode,omitempty"`  // 0 first 1 min 2 max
	MissingFirst bool   `json:"missing_first,omitempty"`
}

type Match struct {
	ID    string     `json:"id"`
	Score uint64     `json:"score"`           // float64 bits, +0 or positive finite
	Terms [][][]byte `json:"terms,omitempty"` // per sort slot: the doc values of that slot's field
}

// one search-after value per slot: the string handed to the implementation and the encoded
// sort key / score the sentinel then carries
type AfterSlot struct {
	Arg   string `json:"arg"`
	Key   []byte `json:"key"`
	Score uint64 `json:"score,omitempty"`
}

type Doc struct {
	ID string    `json:"id"`
	N  []float64 `json:"n,omitempty"`
	S  []string  `json:"s,omitempty"`
	T  string    `json:"t,omitempty"`
}

type In struct {
	Kind    string      `json:"kind"` // coll | api
	Sort    []Slot      `json:"sort"`
	Size    int         `json:"size,omitempty"`
	Skip    int         `json:"skip,omitempty"`
	After   []AfterSlot `json:"after,omitempty"`
	Matches []Match     `json:"matches,omitempty"`
	// api
	Engine  string `json:"engine,omitempty"`
	Docs    []Doc  `json:"docs,omitempty"`
	Batch   int    `json:"batch,omitempty"`   // docs per batch
	Deletes []int  `json:"deletes,omitempty"` // doc indexes deleted again after indexing
	Redo    []int  `json:"redo,omitempty"`    // doc indexes re-indexed at the end (moves them in index order)
	Query   string `json:"query,omitempty"`   // all | x | xy
	Seed    uint64 `json:"seed,omitempty"`    // probe choices
	// MissingAnchors: only probe SearchAfter/SearchBefore from hits whose typed (number) sort
	// value is missing, sending back their DecodedSort as the documentation says
	MissingAnchors bool `json:"missing_anchors,omitempty"`
	// walk: complete forward (SearchAfter) and backward (SearchBefore) walks plus From/Size tilings, for
	// each of Sizes, over one index (Tree "single") or an IndexAlias tree over Leaves member indexes
	Leaves  int      `json:"leaves,omitempty"`
	Part    []int    `json:"part,omitempty"`    // doc index -> leaf
	Engines []string `json:"engines,omitempty"` // per leaf
	Tree    string   `json:"tree,omitempty"`    // single | alias1 | flat | left | pairs | deep
	Sizes   []int    `json:"sizes,omitempty"`
}

// ---------------------------------------------------------------- Coq printing

// pool prints the numbers of one case. coqc spends ~0.4 ms elaborating a Z numeral but next to
// nothing on a primitive-integer literal, so every number is written as a %uint63 literal and
// converted inside Coq (TopNCorr.zi / bs / bn): a byte string of up to 7 bytes is ONE literal,
// 0x01 followed by its bytes; longer strings are chunked.
type pool struct{}

func newPool() *pool { return &pool{} }

func chunk(b []byte) string { return fmt.Sprintf("0x01%x%%uint63", b) }

func (p *pool) bz(b []byte) cf.T {
	switch {
	case len(b) == 0:
		return "(@nil Z)"
	case len(b) <= 7:
		return cf.T("(bs " + chunk(b) + ")")
	}
	var cs []string
	for len(b) > 0 {
		k := min(7, len(b))
		cs = append(cs, chunk(b[:k]))
		b = b[k:]
	}
	return cf.T("(bn [" + strings.Join(cs, "; ") + "])")
}
func (p *pool) bzs(s string) cf.T { return p.bz([]byte(s)) }

// hx prints a number below 2^63 (hit numbers, totals, bit patterns of non-negative floats)
func (p *pool) hx(u uint64) cf.T {
	if u>>63 != 0 {
		return cf.T(fmt.Sprintf("0x%x", u)) // plain Z numeral
	}
	return cf.T(fmt.Sprintf("(zi 0x%x%%uint63)", u))
}

func (p *pool) wrap(body cf.T) cf.T { return body }

// lst prints a list whose element type is named when it is empty: an untyped [] costs coqc a
// unification variable, and thousands of them in one definition make elaboration quadratic.
func lst[A any](typ string, xs []A, f func(A) cf.T) cf.T {
	if len(xs) == 0 {
		return cf.T("(@nil " + typ + ")")
	}
	return cf.ListOf(xs, f)
}

func slotT(s Slot) cf.T {
	var k cf.T
	switch s.Kind {
	case "score":
		k = "KScore"
	case "id":
		k = "KId"
	default:
		k = cf.App("KField", cf.Int(s.Type), cf.Int(s.Mode), cf.Bool(s.MissingFirst))
	}
	return cf.App("Build_skey", k, cf.Bool(s.Desc))
}

func sortT(so []Slot) cf.T { return lst("skey", so, slotT) }

func afterT(p *pool, a []AfterSlot, so []Slot) cf.T {
	var sc uint64
	keys := make([]cf.T, len(a))
	for i, s := range a {
		keys[i] = p.bz(s.Key)
		if so[i].Kind == "score" {
			sc = s.Score
		}
	}
	return cf.App("Build_after_doc", lst("bytes", keys, func(t cf.T) cf.T { return t }), p.hx(sc))
}

func obsT(p *pool, ids []string, total uint64, max float64) cf.T {
	return cf.App("Build_observed", lst("bytes", ids, p.bzs), p.hx(total), p.hx(math.Float64bits(max)))
}

// ---------------------------------------------------------------- sort construction

func mkSort(so []Slot) search.SortOrder {
	rv := make(search.SortOrder, len(so))
	for i, s := range so {
		switch s.Kind {
		case "score":
			rv[i] = &search.SortScore{Desc: s.Desc}
		case "id":
			rv[i] = &search.SortDocID{Desc: s.Desc}
		default:
			miss := search.SortFieldMissingLast
			if s.MissingFirst {
				miss = search.SortFieldMissingFirst
			}
			rv[i] = &search.SortField{Field: s.Field, Desc: s.Desc, Type: search.SortFieldType(s.Type),
				Mode: search.SortFieldMode(s.Mode), Missing: miss}
		}
	}
	return rv
}

func pc(i int64, shift uint) []byte { return numeric.MustNewPrefixCodedInt64(i, shift) }

// ---------------------------------------------------------------- generator

var vocab = []string{"a", "ab", "b", "ba", "c", "a\x00", "zz", "m"}
var idShapes = []string{"d%03d", "%d", "doc-%d", "k%02d"}

func scorePool(r *vrand.R) []uint64 {
	n := vrand.Pick(r, []int{1, 2, 3, 5, 12, 400})
	p := make([]uint64, n)
	for i := range p {
		switch r.Intn(4) {
		case 0:
			p[i] = math.Float64bits(float64(r.Range(0, 6)))
		case 1:
			p[i] = math.Float64bits(float64(r.Range(0, 40)) / 8)
		case 2:
			p[i] = math.Float64bits(r.Float() * 3)
		default:
			p[i] = math.Float64bits(math.Ldexp(float64(r.Range(1, 9)), r.Range(-30, 30)))
		}
	}
	return p
}

func genSlots(r *vrand.R, api bool) []Slot {
	nk := vrand.Pick(r, []int{1, 1, 1, 2, 2, 3})
	var so []Slot
	usedScore := false
	for i := 0; i < nk; i++ {
		var s Slot
		switch r.Intn(7) {
		case 0, 1:
			if usedScore {
				s.Kind = "id"
			} else {
				s.Kind = "score"
				usedScore = true
			}
		case 2:
			s.Kind = "id"
		default:
			s.Kind = "field"
			s.Type = vrand.Pick(r, []int{0, 0, 1, 2, 2, 3})
			s.Mode = vrand.Pick(r, []int{0, 0, 1, 2})
			s.MissingFirst = r.Bool()
			if api {
				if r.Bool() {
					s.Field, s.Type = "n", vrand.Pick(r, []int{0, 2})
				} else {
					s.Field, s.Type = "s", vrand.Pick(r, []int{0, 1})
				}
			} else {
				s.Field = fmt.Sprintf("f%d", i)
			}
		}
		s.Desc = r.Bool()
		so = append(so, s)
	}
	// plain relevance order is the default request; make it common
	if r.Chance(1, 6) {
		so = []Slot{{Kind: "score", Desc: true}}
	}
	return so
}

// doc values of one collector-level sort slot
func genTerms(r *vrand.R, s Slot, numPool []int64) [][]byte {
	nv := vrand.Pick(r, []int{1, 1, 1, 1, 0, 2, 3})
	var out [][]byte
	numeric := s.Type == 2 || s.Type == 3 || (s.Type == 0 && r.Chance(1, 3))
	for v := 0; v < nv; v++ {
		if numeric {
			x := vrand.Pick(r, numPool)
			out = append(out, pc(x, 0))
			for _, sh := range []uint{4, 8, 60} {
				if r.Chance(2, 3) {
					out = append(out, pc(x, sh))
				}
			}
		} else {
			out = append(out, []byte(vrand.Pick(r, vocab)))
		}
	}
	if s.Type == 0 && r.Chance(1, 10) && len(out) > 0 {
		out = append(out, []byte("t")) // a non prefix-coded term next to numeric ones
	}
	if (s.Type == 2 || s.Type == 3) && r.Chance(1, 10) {
		out = append(out, []byte("junk")) // filtered out by type
	}
	vrand.Shuffle(r, out)
	return out
}

func genSizeSkip(r *vrand.R, n int) (int, int) {
	var size, skip int
	switch r.Intn(10) {
	case 0, 1, 2:
		size, skip = r.Range(0, 12), r.Range(0, 12)
	case 3, 4:
		t := r.Range(8, 13) // right at the slice/heap switch (size+skip > 10)
		size = r.Range(0, t)
		skip = t - size
	case 5:
		size, skip = r.Range(1, 40), r.Range(0, 40)
	case 6:
		size, skip = r.Range(0, n+3), r.Range(0, n+3)
	case 7:
		size, skip = 10, r.Range(0, 3)*10
	case 8:
		// around collector.PreAllocSizeSkipCap
		t := collector.PreAllocSizeSkipCap + r.Range(-2, 3)
		skip = r.Range(0, 30)
		size = t - skip
	default:
		size, skip = r.Range(0, 25), r.Range(0, 300)
	}
	return size, skip
}

func genColl(r *vrand.R, n int, bigStore bool) In {
	so := genSlots(r, false)
	pool := scorePool(r)
	numPool := make([]int64, r.Range(1, 6))
	for i := range numPool {
		numPool[i] = vrand.Pick(r, []int64{0, 1, -1, 5, 100, -100, 1 << 40, -(1 << 40), math.MaxInt64, math.MinInt64, int64(r.Range(-20, 20))})
	}
	shape := vrand.Pick(r, idShapes)
	perm := make([]int, n)
	for i := range perm {
		perm[i] = i
	}
	vrand.Shuffle(r, perm)
	ms := make([]Match, n)
	for i := range ms {
		m := Match{ID: fmt.Sprintf(shape, perm[i]), Score: vrand.Pick(r, pool)}
		for _, s := range so {
			if s.Kind == "field" {
				m.Terms = append(m.Terms, genTerms(r, s, numPool))
			} else {
				m.Terms = append(m.Terms, nil)
			}
		}
		ms[i] = m
	}
	// monotone arrival orders stress the shortcut and the heap differently
	switch r.Intn(6) {
	case 0:
		sort.SliceStable(ms, func(a, b int) bool { return ms[a].Score < ms[b].Score })
	case 1:
		sort.SliceStable(ms, func(a, b int) bool { return ms[a].Score > ms[b].Score })
	}
	in := In{Kind: "coll", Sort: so, Matches: ms}
	in.Size, in.Skip = genSizeSkip(r, n)
	if bigStore {
		t := collector.PreAllocSizeSkipCap + r.Range(1, 60)
		in.Skip = r.Range(0, 40)
		in.Size = t - in.Skip
	}
	if r.Chance(1, 4) && !bigStore {
		in.Skip = 0
		for _, s := range so {
			var a AfterSlot
			switch s.Kind {
			case "score":
				a.Score = vrand.Pick(r, pool)
				a.Arg = strconv.FormatFloat(math.Float64frombits(a.Score), 'g', -1, 64)
				a.Key = []byte(a.Arg)
			case "id":
				a.Arg = fmt.Sprintf(shape, r.Intn(n+2))
				a.Key = []byte(a.Arg)
			default:
				switch {
				case s.Type == 2:
					x := vrand.Pick(r, numPool)
					f := numeric.Int64ToFloat64(x)
					if math.IsNaN(f) || math.IsInf(f, 0) {
						f = float64(r.Range(-3, 3))
					}
					a.Arg = strconv.FormatFloat(f, 'g', -1, 64)
					a.Key = pc(numeric.Float64ToInt64(f), 0)
				case s.Type == 3:
					ns := int64(r.Range(-5, 100)) * 1_000_000_007
					a.Arg = time.Unix(0, ns).UTC().Format(time.RFC3339Nano)
					a.Key = pc(ns, 0)
				default:
					if r.Chance(1, 3) {
						a.Key = pc(vrand.Pick(r, numPool), 0)
					} else {
						a.Key = []byte(vrand.Pick(r, vocab))
					}
					a.Arg = string(a.Key)
				}
			}
			in.After = append(in.After, a)
		}
	}
	return in
}

func genAPI(r *vrand.R, k int) In {
	so := genSlots(r, true)
	// a total order (ends in _id) in most cases so that SearchAfter/SearchBefore have a spec
	if r.Chance(3, 4) && so[len(so)-1].Kind != "id" {
		if len(so) == 3 {
			so = so[:2]
		}
		so = append(so, Slot{Kind: "id", Desc: r.Chance(1, 3)})
	}
	nd := vrand.Pick(r, []int{0, 1, 3, 8, 14, 20, 30, 45})
	if nd > 1 {
		nd += r.Intn(4)
	}
	docs := make([]Doc, nd)
	for i := range docs {
		d := Doc{ID: fmt.Sprintf("d%03d", i)}
		for j := vrand.Pick(r, []int{1, 1, 1, 0, 2, 3}); j > 0; j-- {
			d.N = append(d.N, float64(r.Range(-3, 4))/float64(vrand.Pick(r, []int{1, 1, 2})))
		}
		for j := vrand.Pick(r, []int{1, 1, 1, 0, 2}); j > 0; j-- {
			d.S = append(d.S, vrand.Pick(r, []string{"a", "ab", "b", "ba", "c", "zz", "m"}))
		}
		switch r.Intn(6) {
		case 0:
			d.T = "y y"
		case 1:
			d.T = "x x x y"
		case 2:
			d.T = "x y y y y"
		default:
			d.T = "x"
		}
		docs[i] = d
	}
	in := In{Kind: "api", Sort: so, Docs: docs, Batch: vrand.Pick(r, []int{1, 3, 7, 100}), Seed: r.U64(),
		Query: vrand.Pick(r, []string{"all", "x", "x", "xy"}), Engine: "scorch"}
	if k%3 == 2 {
		in.Engine = "upsidedown"
	}
	for i := 0; i < nd; i++ {
		if r.Chance(1, 10) {
			in.Deletes = append(in.Deletes, i)
		} else if r.Chance(1, 8) {
			in.Redo = append(in.Redo, i)
		}
	}
	return in
}

// genAPIMissing: a typed numeric sort key + _id over documents of which some lack the field
// and some have negative values; anchors are the hits with the missing value.
func genAPIMissing(r *vrand.R, k int) In {
	in := genAPI(r, k)
	in.Sort = []Slot{{Kind: "field", Field: "n", Type: 2, Mode: vrand.Pick(r, []int{0, 1, 2}), MissingFirst: r.Bool(), Desc: r.Bool()},
		{Kind: "id", Desc: r.Chance(1, 3)}}
	if len(in.Docs) < 4 {
		for i := len(in.Docs); i < 6; i++ {
			in.Docs = append(in.Docs, Doc{ID: fmt.Sprintf("d%03d", i), T: "x", N: []float64{float64(r.Range(-3, 3))}})
		}
	}
	for i := range in.Docs {
		if i%3 == 1 {
			in.Docs[i].N = nil
		}
	}
	in.Query = "all"
	in.MissingAnchors = true
	return in
}

// genWalk: the documents of an API case spread over 1-4 member indexes under an alias tree (or one
// plain index), and the page sizes to walk with: always some of 1, 2 and a size that does not divide
// the number of documents
func genWalk(r *vrand.R, k int) In {
	in := genAPI(r, k)
	in.Kind = "walk"
	in.MissingAnchors = false
	if len(in.Docs) < 6 || r.Chance(1, 2) {
		// enough documents for several pages at every size
		for i := len(in.Docs); i < 12+k%17; i++ {
			d := Doc{ID: fmt.Sprintf("d%03d", i), T: vrand.Pick(r, []string{"x", "x", "x y", "y y x", "x x y"})}
			for j := vrand.Pick(r, []int{1, 1, 0, 2, 3}); j > 0; j-- {
				d.N = append(d.N, float64(r.Range(-6, 6))/float64(vrand.Pick(r, []int{1, 2})))
			}
			for j := vrand.Pick(r, []int{1, 1, 0, 2}); j > 0; j-- {
				d.S = append(d.S, vrand.Pick(r, []string{"a", "ab", "b", "ba", "c", "zz", "m"}))
			}
			in.Docs = append(in.Docs, d)
		}
	}
	nd := len(in.Docs)
	switch k % 6 {
	case 0:
		in.Leaves, in.Tree = 1, "single"
	case 1:
		in.Leaves, in.Tree = 2, "flat"
	case 2:
		in.Leaves, in.Tree = r.Range(3, 4), "flat"
	case 3:
		in.Leaves, in.Tree = r.Range(3, 4), vrand.Pick(r, []string{"left", "deep"})
	case 4:
		in.Leaves, in.Tree = 4, "pairs"
	default:
		in.Leaves, in.Tree = vrand.Pick(r, []int{1, 2, 2, 3}), "flat"
		if in.Leaves == 1 {
			in.Tree = "alias1"
		}
	}
	in.Engines = make([]string, in.Leaves)
	for i := range in.Engines {
		in.Engines[i] = vrand.Pick(r, []string{"scorch", "scorch", "upsidedown"})
	}
	in.Part = make([]int, nd)
	skew := r.Chance(1, 4) // most documents in one member, the others nearly empty
	for i := range in.Part {
		if skew && r.Chance(4, 5) {
			in.Part[i] = 0
		} else {
			in.Part[i] = r.Intn(in.Leaves)
		}
	}
	in.Sizes = []int{vrand.Pick(r, []int{1, 2}), vrand.Pick(r, []int{2, 3, 4, 5, 7})}
	// a size that does not divide the number of documents, and the heap store (size > 10) now and then
	for _, c := range []int{3, 4, 5, 6, 7, 11} {
		if nd%c != 0 && c != in.Sizes[1] && r.Chance(1, 2) {
			in.Sizes = append(in.Sizes, c)
			break
		}
	}
	if r.Chance(1, 5) {
		in.Sizes = append(in.Sizes, vrand.Pick(r, []int{11, 12, 13}))
	}
	return in
}

func gen(f vh.Flags, r *vrand.R, emit func(In)) {
	nc := f.N(1500, 45000)
	for k := 0; k < nc; k++ {
		var n int
		switch x := r.Intn(100); {
		case x < 40:
			n = r.Range(0, 12)
		case x < 75:
			n = r.Range(8, 40)
		case x < 95:
			n = r.Range(30, 100)
		default:
			n = r.Range(100, 300)
		}
		emit(genColl(r, n, false))
	}
	// streams longer than CheckDoneEvery with a store larger than PreAllocSizeSkipCap
	for k := 0; k < f.N(2, 40); k++ {
		emit(genColl(r, r.Range(1030, 1300), true))
	}
	if f.Tier == "thorough" {
		// exhaustive: every arrival order of up to 6 matches over 3 score values, every (size, skip) <= 4,
		// cycling through score-descending (the specialised comparison), score-ascending and score+_id
		sorts := [][]Slot{{{Kind: "score", Desc: true}}, {{Kind: "score"}}, {{Kind: "score", Desc: true}, {Kind: "id", Desc: true}}}
		for n := 0; n <= 6; n++ {
			total := 1
			for i := 0; i < n; i++ {
				total *= 3
			}
			for code := 0; code < total; code++ {
				ms := make([]Match, n)
				for i, c := 0, code; i < n; i, c = i+1, c/3 {
					ms[i] = Match{ID: fmt.Sprintf("e%d", (i*5)%7), Score: math.Float64bits(float64(c % 3)), Terms: [][][]byte{nil, nil}}
				}
				for size := 0; size <= 4; size++ {
					for skip := 0; skip <= 4; skip++ {
						so := sorts[(code+size+skip)%3]
						mm := make([]Match, n)
						for i := range ms {
							mm[i] = ms[i]
							mm[i].Terms = mm[i].Terms[:len(so)]
						}
						emit(In{Kind: "coll", Sort: so, Size: size, Skip: skip, Matches: mm})
					}
				}
			}
		}
	}
	na := f.N(150, 4500)
	for k := 0; k < na; k++ {
		emit(genAPI(r, k))
	}
	for k := 0; k < f.N(10, 300); k++ {
		emit(genAPIMissing(r, k))
	}
	for k := 0; k < f.N(72, 2400); k++ {
		emit(genWalk(r, k))
	}
}

// ---------------------------------------------------------------- collector level

type stubSearcher struct {
	i  int
	ms []Match
}

func (s *stubSearcher) Next(ctx *search.SearchContext) (*search.DocumentMatch, error) {
	if s.i >= len(s.ms) {
		return nil, nil
	}
	rv := ctx.DocumentMatchPool.Get()
	rv.IndexInternalID = append(rv.IndexInternalID[:0], s.ms[s.i].ID...)
	rv.Score = math.Float64frombits(s.ms[s.i].Score)
	s.i++
	return rv, nil
}
func (s *stubSearcher) Advance(ctx *search.SearchContext, ID index.IndexInternalID) (*search.DocumentMatch, error) {
	return s.Next(ctx)
}
func (s *stubSearcher) Close() error               { return nil }
func (s *stubSearcher) Weight() float64            { return 0 }
func (s *stubSearcher) SetQueryNorm(float64)       {}
func (s *stubSearcher) Count() uint64              { return uint64(len(s.ms)) }
func (s *stubSearcher) Min() int                   { return 0 }
func (s *stubSearcher) Size() int                  { return 0 }
func (s *stubSearcher) DocumentMatchPoolSize() int { return 0 }

// stubReader: ids are their own external ids; doc values come from the generated terms
type stubReader struct {
	index.IndexReader // nil: anything else the collector might call would panic (and be reported)
	byID              map[string]*Match
	slots             []Slot
}

func (sr *stubReader) ExternalID(id index.IndexInternalID) (string, error) { return string(id), nil }
func (sr *stubReader) InternalID(id string) (index.IndexInternalID, error) { return []byte(id), nil }
func (sr *stubReader) DocValueReader(fields []string) (index.DocValueReader, error) {
	want := map[string]bool{}
	for _, f := range fields {
		want[f] = true
	}
	return &stubDV{sr: sr, want: want}, nil
}
func (sr *stubReader) Close() error { return nil }

type stubDV struct {
	sr   *stubReader
	want map[string]bool
}

func (dv *stubDV) VisitDocValues(id index.IndexInternalID, visitor index.DocValueVisitor) error {
	m := dv.sr.byID[string(id)]
	if m == nil {
		return fmt.Errorf("unknown doc %q", id)
	}
	for x, s := range dv.sr.slots {
		if s.Kind == "field" && dv.want[s.Field] {
			for _, t := range m.Terms[x] {
				visitor(s.Field, t)
			}
		}
	}
	return nil
}
func (dv *stubDV) BytesRead() uint64 { return 0 }

func execColl(in In) vh.Result {
	so := mkSort(in.Sort)
	var coll *collector.TopNCollector
	if in.After != nil {
		args := make([]string, len(in.After))
		for i, a := range in.After {
			args[i] = a.Arg
		}
		coll = collector.NewTopNCollectorAfter(in.Size, so, args)
	} else {
		coll = collector.NewTopNCollector(in.Size, in.Skip, so)
	}
	rd := &stubReader{byID: map[string]*Match{}, slots: in.Sort}
	for i := range in.Matches {
		rd.byID[in.Matches[i].ID] = &in.Matches[i]
	}
	var err error
	if d := vh.Guard(60*time.Second, "TopNCollector.Collect", func() {
		err = coll.Collect(context.Background(), &stubSearcher{ms: in.Matches}, rd)
	}); d != nil {
		return vh.Result{Direct: d}
	}
	if err != nil {
		return vh.Result{Direct: &vh.Direct{Kind: "error", Detail: err.Error()}}
	}
	var ids []string
	for _, h := range coll.Results() {
		ids = append(ids, h.ID)
	}
	p := newPool()
	after := cf.None
	skip := in.Skip
	if in.After != nil {
		after = cf.Some(afterT(p, in.After, in.Sort))
		skip = 0
	}
	msT := lst("cmatch", in.Matches, func(m Match) cf.T {
		return cf.App("Build_cmatch", p.bzs(m.ID), p.hx(m.Score),
			lst("(list bytes)", m.Terms, func(ts [][]byte) cf.T { return lst("bytes", ts, p.bz) }))
	})
	n := len(in.Matches)
	store := "slice"
	if in.Size+skip > 10 {
		store = "heap"
	}
	hist := []string{"coll", "coll:store=" + store, fmt.Sprintf("coll:keys=%d", len(in.Sort))}
	switch {
	case in.After != nil:
		hist = append(hist, "coll:search-after")
	case n > in.Size+skip:
		hist = append(hist, "coll:evicting")
	}
	if in.Size+skip > collector.PreAllocSizeSkipCap {
		hist = append(hist, "coll:beyond-prealloc-cap")
	}
	if uint64(n) > collector.CheckDoneEvery {
		hist = append(hist, "coll:beyond-check-done-every")
	}
	return vh.Result{
		Term: p.wrap(cf.App("CColl", sortT(in.Sort), cf.Nat(in.Size), cf.Nat(skip), after, msT,
			obsT(p, ids, coll.Total(), coll.MaxScore()))),
		Nontrivial: n > in.Size+skip && len(ids) > 0, Hist: hist,
	}
}

// ---------------------------------------------------------------- API level

func newIndex(engine string) (bleve.Index, error) {
	m := bleve.NewIndexMapping()
	if engine == "upsidedown" {
		return bleve.NewUsing("", m, upsidedown.Name, gtreap.Name, nil)
	}
	return bleve.NewUsing("", m, scorch.Name, scorch.Name, nil)
}

func docBody(d Doc) map[string]interface{} {
	b := map[string]interface{}{"t": d.T}
	if len(d.N) == 1 {
		b["n"] = d.N[0]
	} else if len(d.N) > 1 {
		b["n"] = d.N
	}
	if len(d.S) == 1 {
		b["s"] = d.S[0]
	} else if len(d.S) > 1 {
		b["s"] = d.S
	}
	return b
}

type obs struct {
	hits  search.DocumentMatchCollection
	total uint64
	max   float64
}

func execAPI(in In) vh.Result {
	idx, err := newIndex(in.Engine)
	if err != nil {
		return vh.Result{Direct: &vh.Direct{Kind: "error", Detail: err.Error()}}
	}
	defer idx.Close()
	b := idx.NewBatch()
	bs := in.Batch
	if bs < 1 {
		bs = 1
	}
	for i, d := range in.Docs {
		_ = b.Index(d.ID, docBody(d))
		if (i+1)%bs == 0 {
			_ = idx.Batch(b)
			b = idx.NewBatch()
		}
	}
	_ = idx.Batch(b)
	for _, i := range in.Deletes {
		if i < len(in.Docs) {
			_ = idx.Delete(in.Docs[i].ID)
		}
	}
	for _, i := range in.Redo {
		if i < len(in.Docs) {
			_ = idx.Index(in.Docs[i].ID, docBody(in.Docs[i]))
		}
	}
	mkQuery := func() query.Query {
		switch in.Query {
		case "x":
			q := bleve.NewMatchQuery("x")
			q.SetField("t")
			return q
		case "xy":
			q := bleve.NewMatchQuery("x y")
			q.SetField("t")
			return q
		}
		return bleve.NewMatchAllQuery()
	}
	var direct *vh.Direct
	run := func(size, from int, after, before []string) *obs {
		req := bleve.NewSearchRequestOptions(mkQuery(), size, from, false)
		req.SortByCustom(mkSort(in.Sort)) // fresh sort objects: Search mutates them
		if after != nil {
			req.SetSearchAfter(after)
		}
		if before != nil {
			req.SetSearchBefore(before)
		}
		var res *bleve.SearchResult
		var serr error
		if d := vh.Guard(30*time.Second, "Index.Search", func() { res, serr = idx.Search(req) }); d != nil {
			direct = d
			return nil
		}
		if serr != nil {
			direct = &vh.Direct{Kind: "error", Detail: fmt.Sprintf("Search(size=%d from=%d after=%q before=%q): %v", size, from, after, before, serr)}
			return nil
		}
		return &obs{res.Hits, res.Total, res.MaxScore}
	}
	// the implementation's own complete listing
	full := run(len(in.Docs)+5, 0, nil, nil)
	if full == nil {
		return vh.Result{Direct: direct}
	}
	n := len(full.hits)
	pos := map[string]int{}
	for i, h := range full.hits {
		pos[h.ID] = i
		if math.IsNaN(h.Score) || h.Score < 0 || math.Signbit(h.Score) {
			return vh.Result{Skip: true}
		}
	}
	p := newPool()
	arrival := append(search.DocumentMatchCollection{}, full.hits...)
	sort.SliceStable(arrival, func(a, b int) bool { return arrival[a].HitNumber < arrival[b].HitNumber })
	msT := lst("amatch", arrival, func(h *search.DocumentMatch) cf.T {
		return cf.App("Build_amatch", p.hx(h.HitNumber), p.bzs(h.ID), p.hx(math.Float64bits(h.Score)),
			lst("bytes", h.Sort, p.bzs))
	})
	// the values a client passes to continue from hit h, and what the sentinel then carries
	anchor := func(h *search.DocumentMatch) ([]string, cf.T, bool) {
		args := make([]string, len(in.Sort))
		keys := make([]cf.T, len(in.Sort))
		var sc uint64
		for x, s := range in.Sort {
			keys[x] = p.bzs(h.Sort[x])
			switch {
			case s.Kind == "score":
				args[x] = strconv.FormatFloat(h.Score, 'g', -1, 64)
				sc = math.Float64bits(h.Score)
				keys[x] = p.bzs(args[x])
			case s.Kind == "field" && (s.Type == 2 || s.Type == 3):
				args[x] = h.DecodedSort[x]
				if (h.Sort[x] == search.HighTerm || h.Sort[x] == search.LowTerm) != in.MissingAnchors {
					// anchors with a missing typed value are probed by the MissingAnchors cases only
					// (signature class search-after-missing-typed-value), all others by the rest
					return nil, "", false
				}
			default:
				args[x] = h.Sort[x]
			}
		}
		return args, cf.App("Build_after_doc", lst("bytes", keys, func(t cf.T) cf.T { return t }), p.hx(sc)), true
	}
	var probes []cf.T
	nAfter, nBefore, nFrom := 0, 0, 0
	addProbe := func(size int, req cf.T, o *obs) {
		var ids []string
		for _, h := range o.hits {
			ids = append(ids, h.ID)
		}
		probes = append(probes, cf.App("Build_probe", cf.Nat(size), req, obsT(p, ids, o.total, o.max)))
	}
	from := func(size, from int) *obs {
		o := run(size, from, nil, nil)
		if o != nil {
			addProbe(size, cf.App("QFrom", cf.Nat(from)), o)
			nFrom++
		}
		return o
	}
	after := func(size int, h *search.DocumentMatch) *obs {
		args, t, ok := anchor(h)
		if !ok {
			return nil
		}
		o := run(size, 0, args, nil)
		if o != nil {
			addProbe(size, cf.App("QAfter", cf.Nat(pos[h.ID]), t), o)
			nAfter++
		}
		return o
	}
	before := func(size int, h *search.DocumentMatch) *obs {
		args, t, ok := anchor(h)
		if !ok {
			return nil
		}
		o := run(size, 0, nil, args)
		if o != nil {
			addProbe(size, cf.App("QBefore", cf.Nat(pos[h.ID]), t), o)
			nBefore++
		}
		return o
	}
	addProbe(len(in.Docs)+5, cf.App("QFrom", cf.Nat(0)), full)
	r := vrand.New(in.Seed)
	sizes := []int{1, 2, 3, 4, 5, 7, 9, 10, 11, 12}
	if in.MissingAnchors {
		for _, h := range full.hits {
			if direct != nil {
				break
			}
			after(vrand.Pick(r, sizes), h)
			before(vrand.Pick(r, sizes), h)
		}
		if direct != nil {
			return vh.Result{Direct: direct, Class: "search-after-missing-typed-value"}
		}
		if nAfter+nBefore == 0 {
			return vh.Result{Skip: true}
		}
		return vh.Result{
			Term:       p.wrap(cf.App("CApi", sortT(in.Sort), msT, lst("probe", probes, func(t cf.T) cf.T { return t }))),
			Nontrivial: true, Class: "search-after-missing-typed-value",
			Hist: []string{"api-missing-anchor:" + in.Engine},
		}
	}
	// From/Size pages tiling the listing
	s1 := vrand.Pick(r, sizes)
	for f, pages := 0, 0; f <= n && pages < 8 && direct == nil; f, pages = f+s1, pages+1 {
		from(s1, f)
	}
	for k := 0; k < 3 && direct == nil; k++ {
		from(r.Range(0, 14), r.Range(0, n+2))
	}
	// forward walk with SearchAfter from the last hit of each page
	s2 := vrand.Pick(r, sizes)
	if pg := from(s2, 0); pg != nil {
		for step := 0; step < 5 && direct == nil && pg != nil && len(pg.hits) > 0; step++ {
			pg = after(s2, pg.hits[len(pg.hits)-1])
		}
	}
	// backward walk with SearchBefore from the first hit of each page
	if n > 0 && direct == nil {
		s3 := vrand.Pick(r, sizes)
		pg := before(s3, full.hits[r.Range(n/2, n-1)])
		for step := 0; step < 4 && direct == nil && pg != nil && len(pg.hits) > 0; step++ {
			pg = before(s3, pg.hits[0])
		}
	}
	// arbitrary anchors
	for k := 0; k < 4 && n > 0 && direct == nil; k++ {
		h := full.hits[r.Intn(n)]
		if r.Bool() {
			after(vrand.Pick(r, sizes), h)
		} else {
			before(vrand.Pick(r, sizes), h)
		}
	}
	if direct != nil {
		return vh.Result{Direct: direct}
	}
	hist := []string{"api:" + in.Engine, fmt.Sprintf("api:keys=%d", len(in.Sort))}
	for i := 0; i < nFrom; i++ {
		hist = append(hist, "api:probe-from")
	}
	for i := 0; i < nAfter; i++ {
		hist = append(hist, "api:probe-after")
	}
	for i := 0; i < nBefore; i++ {
		hist = append(hist, "api:probe-before")
	}
	return vh.Result{
		Term:       p.wrap(cf.App("CApi", sortT(in.Sort), msT, lst("probe", probes, func(t cf.T) cf.T { return t }))),
		Nontrivial: n >= 3 && nAfter+nBefore > 0, Hist: hist,
	}
}

// ---------------------------------------------------------------- complete walks, plain index or alias tree

func execWalk(in In) vh.Result {
	nl := in.Leaves
	if nl < 1 {
		nl = 1
	}
	leaves := make([]bleve.Index, nl)
	for i := range leaves {
		eng := "scorch"
		if i < len(in.Engines) {
			eng = in.Engines[i]
		}
		idx, err := newIndex(eng)
		if err != nil {
			return vh.Result{Direct: &vh.Direct{Kind: "error", Detail: err.Error()}}
		}
		defer idx.Close()
		leaves[i] = idx
	}
	leafOf := func(i int) int {
		if i < len(in.Part) && in.Part[i] >= 0 && in.Part[i] < nl {
			return in.Part[i]
		}
		return 0
	}
	bs := in.Batch
	if bs < 1 {
		bs = 1
	}
	batches := make([]*bleve.Batch, nl)
	for l := range batches {
		batches[l] = leaves[l].NewBatch()
	}
	for i, d := range in.Docs {
		l := leafOf(i)
		_ = batches[l].Index(d.ID, docBody(d))
		if batches[l].Size() >= bs {
			_ = leaves[l].Batch(batches[l])
			batches[l] = leaves[l].NewBatch()
		}
	}
	for l := range batches {
		_ = leaves[l].Batch(batches[l])
	}
	for _, i := range in.Deletes {
		if i < len(in.Docs) {
			_ = leaves[leafOf(i)].Delete(in.Docs[i].ID)
		}
	}
	for _, i := range in.Redo {
		if i < len(in.Docs) {
			_ = leaves[leafOf(i)].Index(in.Docs[i].ID, docBody(in.Docs[i]))
		}
	}
	// the searched object
	var top bleve.Index
	al := func(xs ...bleve.Index) bleve.Index { return bleve.NewIndexAlias(xs...) }
	switch {
	case in.Tree == "single" || nl == 1 && in.Tree != "alias1":
		top = leaves[0]
	case in.Tree == "alias1":
		top = al(leaves[0])
	case in.Tree == "left" && nl >= 3: // ((l0 l1) l2 ...)
		top = al(append([]bleve.Index{al(leaves[0], leaves[1])}, leaves[2:]...)...)
	case in.Tree == "pairs" && nl >= 4: // ((l0 l1) (l2 l3 ...))
		top = al(al(leaves[0], leaves[1]), al(leaves[2:]...))
	case in.Tree == "deep" && nl >= 3: // (((l0 l1) l2) l3)
		t := al(leaves[0], leaves[1])
		for _, l := range leaves[2:] {
			t = al(t, l)
		}
		top = t
	default:
		top = al(leaves...)
	}
	isAlias := top != leaves[0]

	mkQuery := func() query.Query {
		switch in.Query {
		case "x":
			q := bleve.NewMatchQuery("x")
			q.SetField("t")
			return q
		case "xy":
			q := bleve.NewMatchQuery("x y")
			q.SetField("t")
			return q
		}
		return bleve.NewMatchAllQuery()
	}
	var direct *vh.Direct
	run := func(on bleve.Index, size, from int, after, before []string) *obs {
		req := bleve.NewSearchRequestOptions(mkQuery(), size, from, false)
		req.SortByCustom(mkSort(in.Sort)) // fresh sort objects: Search mutates them
		if after != nil {
			req.SetSearchAfter(after)
		}
		if before != nil {
			req.SetSearchBefore(before)
		}
		var res *bleve.SearchResult
		var serr error
		if d := vh.Guard(30*time.Second, "Index.Search", func() { res, serr = on.Search(req) }); d != nil {
			direct = d
			return nil
		}
		if serr != nil {
			direct = &vh.Direct{Kind: "error", Detail: fmt.Sprintf("Search(size=%d from=%d after=%q before=%q): %v", size, from, after, before, serr)}
			return nil
		}
		if res.Status != nil && res.Status.Failed > 0 {
			direct = &vh.Direct{Kind: "error", Detail: fmt.Sprintf("Search(size=%d from=%d after=%q before=%q): %d member(s) failed: %v", size, from, after, before, res.Status.Failed, res.Status.Errors)}
			return nil
		}
		return &obs{res.Hits, res.Total, res.MaxScore}
	}
	all := len(in.Docs) + 5
	p := newPool()
	amatchT := func(h *search.DocumentMatch) cf.T {
		return cf.App("Build_amatch", p.hx(h.HitNumber), p.bzs(h.ID), p.hx(math.Float64bits(h.Score)),
			lst("bytes", h.Sort, p.bzs))
	}
	// every member's own complete listing, in its HitNumber order: the match streams
	var childT []cf.T
	for _, leaf := range leaves {
		o := run(leaf, all, 0, nil, nil)
		if o == nil {
			return vh.Result{Direct: direct}
		}
		for _, h := range o.hits {
			if math.IsNaN(h.Score) || h.Score < 0 || math.Signbit(h.Score) {
				return vh.Result{Skip: true}
			}
		}
		arrival := append(search.DocumentMatchCollection{}, o.hits...)
		sort.SliceStable(arrival, func(a, b int) bool { return arrival[a].HitNumber < arrival[b].HitNumber })
		childT = append(childT, lst("amatch", arrival, amatchT))
	}
	// the searched object's complete listing: positions of the anchors
	full := run(top, all, 0, nil, nil)
	if full == nil {
		return vh.Result{Direct: direct}
	}
	n := len(full.hits)
	pos := map[string]int{}
	for i, h := range full.hits {
		pos[h.ID] = i
	}
	anchor := func(h *search.DocumentMatch) ([]string, cf.T) {
		args := make([]string, len(in.Sort))
		keys := make([]cf.T, len(in.Sort))
		var sc uint64
		for x, s := range in.Sort {
			keys[x] = p.bzs(h.Sort[x])
			switch {
			case s.Kind == "score":
				args[x] = strconv.FormatFloat(h.Score, 'g', -1, 64)
				sc = math.Float64bits(h.Score)
				keys[x] = p.bzs(args[x])
			case s.Kind == "field" && (s.Type == 2 || s.Type == 3):
				args[x] = h.DecodedSort[x]
			default:
				args[x] = h.Sort[x]
			}
		}
		return args, cf.App("Build_after_doc", lst("bytes", keys, func(t cf.T) cf.T { return t }), p.hx(sc))
	}
	var probes []cf.T
	nAfter, nBefore, nFrom, deepBack := 0, 0, 0, 0
	addProbe := func(size int, req cf.T, o *obs) {
		var ids []string
		for _, h := range o.hits {
			ids = append(ids, h.ID)
		}
		probes = append(probes, cf.App("Build_probe", cf.Nat(size), req, obsT(p, ids, o.total, o.max)))
	}
	from := func(size, from int) *obs {
		o := run(top, size, from, nil, nil)
		if o != nil {
			addProbe(size, cf.App("QFrom", cf.Nat(from)), o)
			nFrom++
		}
		return o
	}
	after := func(size int, h *search.DocumentMatch) *obs {
		args, t := anchor(h)
		o := run(top, size, 0, args, nil)
		if o != nil {
			addProbe(size, cf.App("QAfter", cf.Nat(pos[h.ID]), t), o)
			nAfter++
		}
		return o
	}
	before := func(size int, h *search.DocumentMatch) *obs {
		args, t := anchor(h)
		o := run(top, size, 0, nil, args)
		if o != nil {
			addProbe(size, cf.App("QBefore", cf.Nat(pos[h.ID]), t), o)
			nBefore++
			if pos[h.ID] > 2*size {
				deepBack++
			}
		}
		return o
	}
	addProbe(all, cf.App("QFrom", cf.Nat(0)), full)
	for _, size := range in.Sizes {
		if size < 1 || direct != nil {
			continue
		}
		limit := 2*n + 4 // a correct walk needs n/size+1 steps; never loop on a page that does not advance
		// From/Size pages tiling the listing
		for f, steps := 0, 0; f <= n && steps < limit && direct == nil; f, steps = f+size, steps+1 {
			from(size, f)
		}
		// forward to the end with SearchAfter from the last hit of each page ...
		pg := from(size, 0)
		var lastPage *obs
		for steps := 0; pg != nil && len(pg.hits) > 0 && steps < limit; steps++ {
			lastPage = pg
			pg = after(size, pg.hits[len(pg.hits)-1])
		}
		// ... and all the way back with SearchBefore from the first hit of each page
		if direct == nil && lastPage != nil {
			pg = lastPage
			for steps := 0; pg != nil && len(pg.hits) > 0 && steps < limit; steps++ {
				pg = before(size, pg.hits[0])
			}
		}
	}
	if direct != nil {
		return vh.Result{Direct: direct}
	}
	kind := "walk:" + in.Tree
	hist := []string{kind, fmt.Sprintf("walk:members=%d", nl), fmt.Sprintf("walk:keys=%d", len(in.Sort))}
	for _, sz := range in.Sizes {
		hist = append(hist, fmt.Sprintf("walk:size=%d", sz))
	}
	for i := 0; i < nFrom; i++ {
		hist = append(hist, "walk:probe-from")
	}
	for i := 0; i < nAfter; i++ {
		hist = append(hist, "walk:probe-after")
	}
	for i := 0; i < nBefore; i++ {
		hist = append(hist, "walk:probe-before")
	}
	for i := 0; i < deepBack; i++ {
		hist = append(hist, "walk:probe-before-beyond-2-pages")
	}
	probesT := lst("probe", probes, func(t cf.T) cf.T { return t })
	var term cf.T
	if isAlias {
		term = cf.App("CAlias", sortT(in.Sort), lst("(list amatch)", childT, func(t cf.T) cf.T { return t }), probesT)
	} else {
		term = cf.App("CApi", sortT(in.Sort), childT[0], probesT)
	}
	return vh.Result{Term: p.wrap(term), Nontrivial: n >= 3 && deepBack > 0, Hist: hist}
}

func exec(in In) vh.Result {
	switch in.Kind {
	case "coll":
		return execColl(in)
	case "api":
		return execAPI(in)
	case "walk":
		return execWalk(in)
	}
	return vh.Result{Skip: true}
}

func main() {
	vh.Main(vh.Config{
		Property:  "C06",
		Imports:   []string{"Common.Bytes", "Collect.TopN", "Collect.TopNAliasModel", "Collect.TopNCorr"},
		CaseType:  "TopNCorr.case",
		CheckFn:   "TopNCorr.check",
		ExplainFn: "TopNCorr.explain",
		Rule: "collector level: synthetic match streams (0-300 matches, a few >1024; scores and doc values drawn from small pools so that many are equal; " +
			"sorted/reversed/random arrival) through the real TopNCollector with 1-3 sort keys (score, _id, field asc/desc, type auto/string/number/date, " +
			"mode first/min/max, missing first/last), size/skip across the slice/heap switch (size+skip>10) and PreAllocSizeSkipCap, with and without a search-after sentinel; " +
			"API level: Index.Search on scorch(in-memory) and upsidedown indexes built in several batches with deletes and re-indexing, the implementation's own " +
			"Size=all listing (in HitNumber order, with hit.Sort keys) is the match stream, probes = From/Size tilings, SearchAfter walks, SearchBefore walks, random anchors " +
			"(anchor values sent back as a client would: raw Sort for untyped keys, DecodedSort for number-typed keys, the score formatted exactly); " +
			"a few dedicated cases (class search-after-missing-typed-value) anchor at hits whose number-typed sort value is missing; " +
			"walk cases: the documents spread over 1-4 member indexes (scorch / upsidedown mixed, random or skewed partition) searched as one plain index, an alias over one index, " +
			"a flat alias over 2-4 indexes or a nested alias tree; for each of 2-4 page sizes (always 1 or 2, sizes not dividing the number of documents, sometimes > 10) the From/Size tiling, " +
			"the SearchAfter walk from the first page to the end and the SearchBefore walk from the last page all the way back, every page judged against the slice of all members' matches " +
			"(the members' own Size=all listings) in the requested order; " +
			"thorough tier adds every arrival order of <=6 matches over 3 score values for every size, skip <= 4; " +
			"non-trivial: collector cases where something is evicted and something returned, API cases with >=3 hits and at least one SearchAfter/SearchBefore probe, walk cases with a SearchBefore probe anchored beyond the second page",
		ShardSize: 100,
		Preamble:  "From Coq Require Import Uint63.\n",
	}, gen, exec)
}
