// C01 correspondence harness for the upsidedown ROW STORE: operation histories (re-index, delete
// of absent ids, several ops per id in one batch, empty batches, internal set/delete, stored
// arrays of varying length) run on upsidedown over gtreap, boltdb, goleveldb and moss; after every
// step ALL rows of the real index are dumped (IndexReader.DumpAll + DocCount()) and handed to the
// Coq model (Kv/Upsidedown.v udc_batch / udc_update / udc_delete / ...), which replays the history
// and compares the whole row store.
//
// The analysis itself is not modelled: for every (id, version) that a history indexes, the
// harness indexes that version ALONE into a scratch upsidedown/gtreap index with the same mapping
// and passes the rows found there (back index entries, term frequencies, stored entries) as the
// analysis result of that version.
//
// Canonicalisation (renaming of what the engine returned, never an expectation): byte strings are
// interned to tokens per case, a field is numbered by its NAME through the index's own field
// rows, the entries of a back index row and the rows of a dump are sorted in the model's key
// order, stores with identical dumps share one dump.  Field rows and the version row are skipped.
package main

import (
	"bytes"
	"encoding/binary"
	"fmt"
	"os"
	"sort"
	"strconv"
	"sync"

	"github.com/blevesearch/bleve/v2"
	"github.com/blevesearch/bleve/v2/index/upsidedown"
	"github.com/blevesearch/bleve/v2/mapping"

	cf "verifharness/internal/coqfmt"
	"verifharness/internal/sw"
	"verifharness/internal/vh"
	"verifharness/internal/vrand"
)

type Step struct {
	Ops    []sw.Op `json:"ops"`
	Single bool    `json:"single,omitempty"` // issue each op through Index/Delete/SetInternal/DeleteInternal
}

type In struct {
	NIDs    int      `json:"nids"`
	NKeys   int      `json:"nkeys"`
	Mapping string   `json:"mapping"` // lean | full (= sw.Mapping())
	Stores  []string `json:"stores"`
	Steps   []Step   `json:"steps"`
}

var allStores = []string{"udc-gtreap", "udc-boltdb", "udc-goleveldb", "udc-moss"}

func gen(f vh.Flags, r *vrand.R, emit func(In)) {
	n := f.N(150, 3000)
	for k := 0; k < n; k++ {
		in := In{NIDs: r.Range(2, 5), NKeys: r.Range(1, 2), Mapping: "lean", Stores: allStores}
		nsteps := r.Range(3, 8)
		if k%10 == 9 {
			in.Mapping = "full" // numeric terms, _all over every field, term vectors: ~5x the rows
			in.NIDs = r.Range(2, 3)
			nsteps = r.Range(2, 3)
		}
		var ver int64
		for i := 0; i < nsteps; i++ {
			nops := r.Range(0, 5)
			if r.Chance(1, 8) {
				nops = 0
			}
			st := Step{Single: r.Chance(1, 5)}
			for j := 0; j < nops; j++ {
				ver++
				switch x := r.Intn(20); {
				case x < 11:
					st.Ops = append(st.Ops, sw.Op{Kind: "index", ID: r.Intn(in.NIDs), Ver: ver})
				case x < 16:
					st.Ops = append(st.Ops, sw.Op{Kind: "delete", ID: r.Intn(in.NIDs)})
				case x < 18:
					st.Ops = append(st.Ops, sw.Op{Kind: "setint", ID: r.Intn(in.NKeys), Ver: ver})
				default:
					st.Ops = append(st.Ops, sw.Op{Kind: "delint", ID: r.Intn(in.NKeys)})
				}
			}
			in.Steps = append(in.Steps, st)
		}
		emit(in)
	}
}

// ---------------------------------------------------------------- mappings

func leanMapping() mapping.IndexMapping {
	m := bleve.NewIndexMapping()
	dm := bleve.NewDocumentMapping()
	body := bleve.NewTextFieldMapping()
	body.Analyzer = "standard"
	body.Store = true
	body.IncludeTermVectors = false
	body.IncludeInAll = false
	dm.AddFieldMappingsAt("body", body)
	tag := bleve.NewKeywordFieldMapping()
	tag.Store = false
	tag.IncludeInAll = false
	dm.AddFieldMappingsAt("tag", tag)
	v := bleve.NewKeywordFieldMapping()
	v.Store = true
	v.Index = false
	v.IncludeInAll = false
	dm.AddFieldMappingsAt("v", v)
	n := bleve.NewNumericFieldMapping()
	n.Store = true
	n.Index = false
	n.IncludeInAll = false
	dm.AddFieldMappingsAt("n", n)
	arr := bleve.NewKeywordFieldMapping()
	arr.Store = true
	arr.IncludeInAll = false
	dm.AddFieldMappingsAt("arr", arr)
	m.DefaultMapping = dm
	return m
}

func mappingFor(name string) mapping.IndexMapping {
	if name == "full" {
		return sw.Mapping()
	}
	return leanMapping()
}

// ---------------------------------------------------------------- reading the rows of an index

// raw rows of one dump, byte strings not yet interned
type rawBack struct {
	id     string
	terms  []rawTerms
	stored []rawStoredKey
}
type rawTerms struct {
	field uint16
	terms []string
}
type rawStoredKey struct {
	field uint16
	pos   []uint64
}
type rawTerm struct {
	field uint16
	term  string
	id    string
	freq  uint64
}
type rawStored struct {
	id    string
	field uint16
	pos   []uint64
	val   string
}
type rawDict struct {
	field uint16
	term  string
	count uint64
}
type rawInternal struct{ key, val string }

type rawDump struct {
	fields   map[uint16]string
	backs    []rawBack
	terms    []rawTerm
	stored   []rawStored
	dicts    []rawDict
	ints     []rawInternal
	docCount uint64
}

// dumpIndex reads every row through IndexReader.DumpAll and decodes key and value bytes by the
// encodings of row.go (independently of the engine's own row parsers).
func dumpIndex(idx bleve.Index) (*rawDump, error) {
	adv, err := idx.Advanced()
	if err != nil {
		return nil, err
	}
	udc, ok := adv.(*upsidedown.UpsideDownCouch)
	if !ok {
		return nil, fmt.Errorf("not an upsidedown index: %T", adv)
	}
	r, err := udc.Reader()
	if err != nil {
		return nil, err
	}
	defer r.Close()
	ir, ok := r.(*upsidedown.IndexReader)
	if !ok {
		return nil, fmt.Errorf("not an upsidedown reader: %T", r)
	}
	d := &rawDump{fields: map[uint16]string{}}
	d.docCount, err = ir.DocCount()
	if err != nil {
		return nil, err
	}
	for x := range ir.DumpAll() {
		switch row := x.(type) {
		case error:
			return nil, row
		case upsidedown.UpsideDownCouchRow:
			if err := d.addRow(row.Key(), row.Value(), row); err != nil {
				return nil, err
			}
		default:
			return nil, fmt.Errorf("unexpected dump item %T", x)
		}
	}
	return d, nil
}

func uvarints(b []byte) ([]uint64, error) {
	out := []uint64{}
	for len(b) > 0 {
		x, n := binary.Uvarint(b)
		if n <= 0 {
			return nil, fmt.Errorf("bad uvarint")
		}
		out = append(out, x)
		b = b[n:]
	}
	return out, nil
}

// pbFields walks the fields of one protobuf message (wire types 0 = varint and 2 = length
// delimited, the only ones upsidedown.proto uses); msg is nil for a varint field.
func pbFields(b []byte, visit func(num int, varint uint64, msg []byte) error) error {
	for len(b) > 0 {
		tag, n := binary.Uvarint(b)
		if n <= 0 {
			return fmt.Errorf("bad protobuf tag")
		}
		b = b[n:]
		switch tag & 7 {
		case 0:
			v, n := binary.Uvarint(b)
			if n <= 0 {
				return fmt.Errorf("bad protobuf varint")
			}
			b = b[n:]
			if err := visit(int(tag>>3), v, nil); err != nil {
				return err
			}
		case 2:
			l, n := binary.Uvarint(b)
			if n <= 0 || uint64(len(b)-n) < l {
				return fmt.Errorf("bad protobuf length")
			}
			m := b[n : n+int(l)]
			if m == nil || len(m) == 0 {
				m = []byte{}
			}
			b = b[n+int(l):]
			if err := visit(int(tag>>3), 0, m); err != nil {
				return err
			}
		default:
			return fmt.Errorf("unexpected protobuf wire type %d", tag&7)
		}
	}
	return nil
}

func (d *rawDump) addRow(key, val []byte, row upsidedown.UpsideDownCouchRow) error {
	if len(key) == 0 {
		return fmt.Errorf("empty key")
	}
	switch key[0] {
	case 'v':
		return nil
	case 'f':
		if len(key) != 3 || len(val) == 0 || val[len(val)-1] != 0xff {
			return fmt.Errorf("bad field row % x = % x", key, val)
		}
		d.fields[binary.LittleEndian.Uint16(key[1:3])] = string(val[:len(val)-1])
	case 'b':
		b := rawBack{id: string(key[1:])}
		// BackIndexRowValue { repeated BackIndexTermsEntry termsEntries = 1; repeated BackIndexStoreEntry storedEntries = 2 }
		err := pbFields(val, func(num int, varint uint64, msg []byte) error {
			switch num {
			case 1: // BackIndexTermsEntry { required uint32 field = 1; repeated string terms = 2 }
				te := rawTerms{}
				if err := pbFields(msg, func(n int, v uint64, m []byte) error {
					switch {
					case n == 1 && m == nil:
						te.field = uint16(v)
					case n == 2 && m != nil:
						te.terms = append(te.terms, string(m))
					default:
						return fmt.Errorf("unexpected field %d in a back index terms entry", n)
					}
					return nil
				}); err != nil {
					return err
				}
				sort.Strings(te.terms)
				b.terms = append(b.terms, te)
			case 2: // BackIndexStoreEntry { required uint32 field = 1; repeated uint64 arrayPositions = 2 }
				se := rawStoredKey{pos: []uint64{}}
				if err := pbFields(msg, func(n int, v uint64, m []byte) error {
					switch {
					case n == 1 && m == nil:
						se.field = uint16(v)
					case n == 2 && m == nil:
						se.pos = append(se.pos, v)
					case n == 2: // packed
						ps, err := uvarints(m)
						se.pos = append(se.pos, ps...)
						return err
					default:
						return fmt.Errorf("unexpected field %d in a back index stored entry", n)
					}
					return nil
				}); err != nil {
					return err
				}
				b.stored = append(b.stored, se)
			default:
				return fmt.Errorf("unexpected field %d in a back index row value", num)
			}
			return nil
		})
		if err != nil {
			return fmt.Errorf("back index row %q: %v", key, err)
		}
		sort.SliceStable(b.terms, func(i, j int) bool { return b.terms[i].field < b.terms[j].field })
		d.backs = append(d.backs, b)
	case 't':
		if len(key) < 5 {
			return fmt.Errorf("bad term row key % x", key)
		}
		sep := bytes.IndexByte(key[3:], 0xff)
		if sep < 0 {
			return fmt.Errorf("bad term row key % x", key)
		}
		tfr, ok := row.(*upsidedown.TermFrequencyRow)
		if !ok {
			return fmt.Errorf("term row parsed as %T", row)
		}
		d.terms = append(d.terms, rawTerm{binary.LittleEndian.Uint16(key[1:3]), string(key[3 : 3+sep]), string(key[3+sep+1:]), tfr.Freq()})
	case 's':
		sep := bytes.IndexByte(key[1:], 0xff)
		if sep < 0 || len(key) < 1+sep+1+2 {
			return fmt.Errorf("bad stored row key % x", key)
		}
		pos, err := uvarints(key[1+sep+1+2:])
		if err != nil {
			return err
		}
		d.stored = append(d.stored, rawStored{string(key[1 : 1+sep]), binary.LittleEndian.Uint16(key[1+sep+1:]), pos, string(val)})
	case 'd':
		if len(key) < 3 {
			return fmt.Errorf("bad dictionary row key % x", key)
		}
		c, n := binary.Uvarint(val)
		if n <= 0 {
			return fmt.Errorf("bad dictionary row value % x", val)
		}
		d.dicts = append(d.dicts, rawDict{binary.LittleEndian.Uint16(key[1:3]), string(key[3:]), c})
	case 'i':
		d.ints = append(d.ints, rawInternal{string(key[1:]), string(val)})
	default:
		return fmt.Errorf("unknown row kind %q", key[0])
	}
	return nil
}

// ---------------------------------------------------------------- tokens

type interner struct {
	m       map[string]int64
	clamped int
}

func (it *interner) tok(s string) int64 {
	if t, ok := it.m[s]; ok {
		return t
	}
	t := int64(len(it.m) + 1)
	it.m[s] = t
	return t
}

var fieldNames = map[string]int64{"v": 0, "body": 1, "tag": 2, "n": 3, "arr": 4, "_all": 5}

func (it *interner) field(d *rawDump, f uint16) int64 {
	name, ok := d.fields[f]
	if !ok {
		return 900 + int64(f) // a row of a field without a field row
	}
	if t, ok := fieldNames[name]; ok {
		return t
	}
	return 50 + it.tok("field:"+name)
}

func (it *interner) id(s string) int64 {
	n := sw.DocNum(s)
	if sw.DocName(int(n)) == s {
		return n
	}
	return 1000 + it.tok("id:"+s)
}

func (it *interner) key(s string) int64 {
	var n int
	if _, err := fmt.Sscanf(s, "k%d", &n); err == nil && sw.KeyName(n) == s {
		return int64(n)
	}
	return 1000 + it.tok("key:"+s)
}

// internal values are the decimal version numbers the ops carry
func (it *interner) ival(s string) int64 {
	if n, err := strconv.ParseInt(s, 10, 64); err == nil && n >= 0 && strconv.FormatInt(n, 10) == s {
		return n
	}
	return (1 << 40) + it.tok("ival:"+s)
}

// i63 prints a number as a primitive-integer literal; anything that does not fit (a counter
// that wrapped below zero, say) is folded into [2^62, 2^63), which no model state predicts
func i63(u uint64) cf.T {
	if u >= 1<<62 {
		u = 1<<62 | u&(1<<61-1)
	}
	return cf.T(strconv.FormatUint(u, 10) + "%uint63")
}
func i63s(i int64) cf.T { return i63(uint64(i)) }

func lst(typ string, xs []cf.T) cf.T {
	if len(xs) == 0 {
		return cf.T("(@nil " + typ + ")")
	}
	return cf.List(xs)
}

func posList(pos []uint64) cf.T {
	ts := make([]cf.T, len(pos))
	for i, p := range pos {
		ts[i] = i63(p)
	}
	return lst("int", ts)
}

// ---------------------------------------------------------------- canonical rows

type crow struct {
	key  []int64 // kind, then the key components (array positions last)
	term cf.T
}

func lessKey(a, b []int64) bool {
	for i := 0; i < len(a) && i < len(b); i++ {
		if a[i] != b[i] {
			return a[i] < b[i]
		}
	}
	return len(a) < len(b)
}

type tentry struct {
	field int64
	terms []int64
}
type sentry struct {
	field int64
	pos   []uint64
}

func posKey(pos []uint64) []int64 {
	k := make([]int64, len(pos))
	for i, p := range pos {
		k[i] = int64(p)
	}
	return k
}

func sortStoredKeys(es []sentry) {
	sort.SliceStable(es, func(i, j int) bool {
		return lessKey(append([]int64{es[i].field}, posKey(es[i].pos)...), append([]int64{es[j].field}, posKey(es[j].pos)...))
	})
}

// pack writes up to four numbers below 10^4 as one decimal primitive-integer literal
// (aaaabbbbccccdddd); a larger number is clamped to 9999, which no component legitimately has in
// these histories (so the row cannot match the model) and is counted in the "clamped" bucket.
func (it *interner) pack(xs ...uint64) cf.T {
	var n uint64
	for _, x := range xs {
		if x > 9999 {
			x = 9999
			it.clamped++
		}
		n = n*10000 + x
	}
	return cf.T(strconv.FormatUint(n, 10) + "%uint63")
}

// backEntries prints the (sorted) entries of a back index row: the terms entries and the stored entries.
func backEntries(tes []tentry, ses []sentry) (cf.T, cf.T) {
	sort.SliceStable(tes, func(i, j int) bool { return tes[i].field < tes[j].field })
	sortStoredKeys(ses)
	tts := make([]cf.T, len(tes))
	for i, e := range tes {
		sort.Slice(e.terms, func(a, b int) bool { return e.terms[a] < e.terms[b] })
		ts := make([]cf.T, len(e.terms))
		for j, t := range e.terms {
			ts[j] = i63s(t)
		}
		tts[i] = cf.App("TE", i63s(e.field), lst("int", ts))
	}
	sts := make([]cf.T, len(ses))
	for i, e := range ses {
		sts[i] = cf.App("SE", i63s(e.field), posList(e.pos))
	}
	return lst("cte", tts), lst("cse", sts)
}

// render canonicalises a dump: its rows in the model's key order, each with its Coq term.  A back
// index row whose entries are, as printed, exactly those of an analysed version of the same id is
// written as a reference to that version (backRef: id -> printed entries -> version).
func render(d *rawDump, it *interner, backRef map[int64]map[string]int64) []crow {
	var rows []crow
	for _, b := range d.backs {
		var tes []tentry
		for _, te := range b.terms {
			e := tentry{field: it.field(d, te.field)}
			for _, t := range te.terms {
				e.terms = append(e.terms, it.tok(t))
			}
			tes = append(tes, e)
		}
		var ses []sentry
		for _, se := range b.stored {
			ses = append(ses, sentry{it.field(d, se.field), se.pos})
		}
		tt, st := backEntries(tes, ses)
		id := it.id(b.id)
		if ver, ok := backRef[id][string(tt)+" "+string(st)]; ok {
			rows = append(rows, crow{[]int64{0, id}, cf.App("RBv", i63s(id), i63s(ver))})
		} else {
			rows = append(rows, crow{[]int64{0, id}, cf.App("RB", i63s(id), tt, st)})
		}
	}
	for _, r := range d.dicts {
		f, t := it.field(d, r.field), it.tok(r.term)
		rows = append(rows, crow{[]int64{1, f, t}, cf.App("RD", it.pack(uint64(f), uint64(t), r.count))})
	}
	for _, r := range d.ints {
		if r.key == "_mapping" {
			continue // written by bleve's index_impl when the index is created, not by the history
		}
		k := it.key(r.key)
		rows = append(rows, crow{[]int64{2, k}, cf.App("RI", it.pack(uint64(k), uint64(it.ival(r.val))))})
	}
	for _, r := range d.stored {
		id, f := it.id(r.id), it.field(d, r.field)
		rows = append(rows, crow{append([]int64{3, id, f}, posKey(r.pos)...), cf.App("RS", it.pack(uint64(id), uint64(f), uint64(it.tok(r.val))), posList(r.pos))})
	}
	for _, r := range d.terms {
		f, t, id := it.field(d, r.field), it.tok(r.term), it.id(r.id)
		rows = append(rows, crow{[]int64{4, f, t, id}, cf.App("RT", it.pack(uint64(f), uint64(t), uint64(id), r.freq))})
	}
	sort.SliceStable(rows, func(i, j int) bool { return lessKey(rows[i].key, rows[j].key) })
	return rows
}

func keyString(k []int64) string { return fmt.Sprint(k) }

func rowTerms(rows []crow) cf.T {
	ts := make([]cf.T, len(rows))
	for i, r := range rows {
		ts[i] = r.term
	}
	return lst("crow", ts)
}

// dumpTerm prints one dump: in full, or (prev != nil) as the difference to prev — the rows of prev
// whose key is gone, and the rows that are new or whose term changed.
func dumpTerm(stores []cf.T, rows []crow, prev []crow, docCount uint64) cf.T {
	full, gone, set := "true", []crow{}, rows
	if prev != nil {
		full = "false"
		cur := make(map[string]cf.T, len(rows))
		for _, r := range rows {
			cur[keyString(r.key)] = r.term
		}
		old := make(map[string]cf.T, len(prev))
		for _, r := range prev {
			old[keyString(r.key)] = r.term
			if _, ok := cur[keyString(r.key)]; !ok {
				gone = append(gone, r)
			}
		}
		set = nil
		for _, r := range rows {
			if t, ok := old[keyString(r.key)]; !ok || t != r.term {
				set = append(set, r)
			}
		}
	}
	return cf.App("mkDump", cf.List(stores), cf.T(full), rowTerms(gone), rowTerms(set), i63(uint64(len(rows))), i63(docCount))
}

// ---------------------------------------------------------------- analysis results

// rawDoc is what the analysis of one (mapping, id, version) produced, read off a scratch index.
type rawDoc struct {
	terms  []rawDocField
	stored []rawDocStored
}
type rawDocField struct {
	field string
	terms []string
	freqs []uint64
}
type rawDocStored struct {
	field string
	pos   []uint64
	val   string
}

var docCache sync.Map // "mapping/id/ver" -> *rawDoc

func analysed(mname string, id int, ver int64) (*rawDoc, error) {
	ck := fmt.Sprintf("%s/%d/%d", mname, id, ver)
	if v, ok := docCache.Load(ck); ok {
		return v.(*rawDoc), nil
	}
	idx, err := bleve.NewUsing("", mappingFor(mname), upsidedown.Name, "gtreap", nil)
	if err != nil {
		return nil, err
	}
	defer idx.Close()
	if err := idx.Index(sw.DocName(id), sw.DocFor(id, ver)); err != nil {
		return nil, err
	}
	d, err := dumpIndex(idx)
	if err != nil {
		return nil, err
	}
	if len(d.backs) != 1 || d.backs[0].id != sw.DocName(id) {
		return nil, fmt.Errorf("scratch index of %s: %d back index rows", ck, len(d.backs))
	}
	name := func(f uint16) string {
		if n, ok := d.fields[f]; ok {
			return n
		}
		return fmt.Sprintf("?%d", f)
	}
	freq := map[string]uint64{}
	for _, t := range d.terms {
		freq[fmt.Sprintf("%d/%s", t.field, t.term)] = t.freq
	}
	rd := &rawDoc{}
	for _, te := range d.backs[0].terms {
		fd := rawDocField{field: name(te.field)}
		for _, t := range te.terms {
			fr, ok := freq[fmt.Sprintf("%d/%s", te.field, t)]
			if !ok {
				return nil, fmt.Errorf("scratch index of %s: back index lists term %q of field %d without a term row", ck, t, te.field)
			}
			fd.terms = append(fd.terms, t)
			fd.freqs = append(fd.freqs, fr)
		}
		rd.terms = append(rd.terms, fd)
	}
	if n := len(d.terms); n != len(freq) || n != func() (c int) {
		for _, f := range rd.terms {
			c += len(f.terms)
		}
		return
	}() {
		return nil, fmt.Errorf("scratch index of %s: term rows and back index disagree", ck)
	}
	for _, s := range d.stored {
		rd.stored = append(rd.stored, rawDocStored{name(s.field), s.pos, s.val})
	}
	if len(d.stored) != len(d.backs[0].stored) {
		return nil, fmt.Errorf("scratch index of %s: stored rows and back index disagree", ck)
	}
	docCache.Store(ck, rd)
	return rd, nil
}

func (it *interner) fieldByName(name string) int64 {
	if t, ok := fieldNames[name]; ok {
		return t
	}
	return 50 + it.tok("field:"+name)
}

func renderDoc(rd *rawDoc, it *interner) (cf.T, string) {
	type tf struct{ t, f int64 }
	type fe struct {
		field int64
		tfs   []tf
	}
	var fes []fe
	for _, f := range rd.terms {
		e := fe{field: it.fieldByName(f.field)}
		for i, t := range f.terms {
			e.tfs = append(e.tfs, tf{it.tok(t), int64(f.freqs[i])})
		}
		sort.Slice(e.tfs, func(i, j int) bool { return e.tfs[i].t < e.tfs[j].t })
		fes = append(fes, e)
	}
	sort.SliceStable(fes, func(i, j int) bool { return fes[i].field < fes[j].field })
	fts := make([]cf.T, len(fes))
	for i, e := range fes {
		ts := make([]cf.T, len(e.tfs))
		for j, x := range e.tfs {
			ts[j] = it.pack(uint64(x.t), uint64(x.f))
		}
		fts[i] = cf.App("DF", i63s(e.field), lst("int", ts))
	}
	type se struct {
		k sentry
		v int64
	}
	var ses []se
	for _, s := range rd.stored {
		ses = append(ses, se{sentry{it.fieldByName(s.field), s.pos}, it.tok(s.val)})
	}
	sort.SliceStable(ses, func(i, j int) bool {
		return lessKey(append([]int64{ses[i].k.field}, posKey(ses[i].k.pos)...), append([]int64{ses[j].k.field}, posKey(ses[j].k.pos)...))
	})
	sts := make([]cf.T, len(ses))
	for i, s := range ses {
		sts[i] = cf.App("DS", it.pack(uint64(s.k.field), uint64(s.v)), posList(s.k.pos))
	}
	var tes []tentry
	for _, e := range fes {
		te := tentry{field: e.field}
		for _, x := range e.tfs {
			te.terms = append(te.terms, x.t)
		}
		tes = append(tes, te)
	}
	var sks []sentry
	for _, s := range ses {
		sks = append(sks, s.k)
	}
	tt, st := backEntries(tes, sks)
	return cf.App("mkCDoc", lst("cdf", fts), lst("cds", sts)), string(tt) + " " + string(st)
}

// ---------------------------------------------------------------- running one history

func applyStep(idx bleve.Index, tg *sw.Tagger, st Step) error {
	if !st.Single {
		b, _, err := tg.Build(idx, st.Ops, false)
		if err != nil {
			return err
		}
		return idx.Batch(b)
	}
	for _, o := range st.Ops {
		var err error
		switch o.Kind {
		case "index":
			err = idx.Index(sw.DocName(o.ID), sw.DocFor(o.ID, o.Ver))
		case "delete":
			err = idx.Delete(sw.DocName(o.ID))
		case "setint":
			err = idx.SetInternal([]byte(sw.KeyName(o.ID)), []byte(strconv.FormatInt(o.Ver, 10)))
		case "delint":
			err = idx.DeleteInternal([]byte(sw.KeyName(o.ID)))
		}
		if err != nil {
			return err
		}
	}
	return nil
}

func openStore(store, mname string) (bleve.Index, string, error) {
	typ := store[4:]
	path, dir := "", ""
	var kvc map[string]interface{}
	switch typ {
	case "boltdb", "goleveldb":
		var err error
		dir, err = os.MkdirTemp("", "vh_c01udc_")
		if err != nil {
			return nil, "", err
		}
		path = dir + "/idx"
	case "moss":
		kvc = map[string]interface{}{}
	}
	idx, err := bleve.NewUsing(path, mappingFor(mname), upsidedown.Name, typ, kvc)
	return idx, dir, err
}

func runStore(store string, in In) ([]*rawDump, error) {
	idx, dir, err := openStore(store, in.Mapping)
	if dir != "" {
		defer os.RemoveAll(dir)
	}
	if err != nil {
		return nil, err
	}
	defer idx.Close()
	tg := sw.NewTagger()
	var dumps []*rawDump
	for _, st := range in.Steps {
		if err := applyStep(idx, tg, st); err != nil {
			return nil, err
		}
		d, err := dumpIndex(idx)
		if err != nil {
			return nil, err
		}
		dumps = append(dumps, d)
	}
	return dumps, nil
}

func exec(in In) vh.Result {
	fail := func(what string, e error) vh.Result {
		return vh.Result{Direct: &vh.Direct{Kind: "error", Detail: what + ": " + e.Error()}}
	}
	if len(in.Stores) == 0 || len(in.Steps) == 0 {
		return vh.Result{Skip: true} // not an input of this harness (a replay or corpus file of cmd/c01)
	}
	for _, s := range in.Stores {
		if len(s) < 5 || s[:4] != "udc-" {
			return vh.Result{Skip: true}
		}
	}
	it := &interner{m: map[string]int64{}}
	// analysis results of every indexed version
	var docs []cf.T
	backRef := map[int64]map[string]int64{}
	seen := map[string]bool{}
	upd, delAfterUpd, shrink := map[int]int{}, false, false
	lastArr := map[int]int{}
	for _, st := range in.Steps {
		for _, o := range st.Ops {
			switch o.Kind {
			case "index":
				upd[o.ID]++
				n := len(sw.DocFor(o.ID, o.Ver).Arr)
				if p, ok := lastArr[o.ID]; ok && n < p {
					shrink = true
				}
				lastArr[o.ID] = n
				k := fmt.Sprintf("%d/%d", o.ID, o.Ver)
				if seen[k] {
					continue
				}
				seen[k] = true
				rd, err := analysed(in.Mapping, o.ID, o.Ver)
				if err != nil {
					return fail("analysis", err)
				}
				dt, back := renderDoc(rd, it)
				docs = append(docs, cf.App("DV", i63s(int64(o.ID)), i63s(o.Ver), dt))
				if backRef[int64(o.ID)] == nil {
					backRef[int64(o.ID)] = map[string]int64{}
				}
				if _, ok := backRef[int64(o.ID)][back]; !ok {
					backRef[int64(o.ID)][back] = o.Ver
				}
			case "delete":
				if upd[o.ID] > 0 {
					delAfterUpd = true
				}
			}
		}
	}
	// the history on every store
	perStore := make([][]*rawDump, len(in.Stores))
	for si, s := range in.Stores {
		var err error
		var ds []*rawDump
		if g := vh.Guard(60e9, "history on "+s, func() { ds, err = runStore(s, in) }); g != nil {
			return vh.Result{Direct: g}
		}
		if err != nil {
			return fail(s, err)
		}
		perStore[si] = ds
	}
	var steps []cf.T
	var prevFirst []crow
	for i, st := range in.Steps {
		var ops []cf.T
		for _, o := range st.Ops {
			switch o.Kind {
			case "index":
				ops = append(ops, cf.App("OIndex", i63s(int64(o.ID)), i63s(o.Ver)))
			case "delete":
				ops = append(ops, cf.App("ODelete", i63s(int64(o.ID))))
			case "setint":
				ops = append(ops, cf.App("OSetInt", i63s(int64(o.ID)), i63s(o.Ver)))
			case "delint":
				ops = append(ops, cf.App("ODelInt", i63s(int64(o.ID))))
			}
		}
		// group the stores by what they dumped; the first group is written as the difference to the
		// first group of the previous step
		type group struct {
			stores []cf.T
			rows   []crow
			count  uint64
		}
		var order []string
		groups := map[string]*group{}
		for si := range in.Stores {
			rows := render(perStore[si][i], it, backRef)
			sig := string(rowTerms(rows)) + fmt.Sprint(perStore[si][i].docCount)
			g, ok := groups[sig]
			if !ok {
				g = &group{rows: rows, count: perStore[si][i].docCount}
				groups[sig] = g
				order = append(order, sig)
			}
			g.stores = append(g.stores, i63s(int64(si)))
		}
		var dumps []cf.T
		for gi, sig := range order {
			g := groups[sig]
			var prev []crow
			if gi == 0 && i > 0 {
				prev = prevFirst
			}
			dumps = append(dumps, dumpTerm(g.stores, g.rows, prev, g.count))
		}
		prevFirst = groups[order[0]].rows
		if prevFirst == nil {
			prevFirst = []crow{}
		}
		steps = append(steps, cf.App("mkStep", cf.Bool(st.Single), lst("cop", ops), lst("cdump", dumps)))
	}
	multi := 0
	for _, c := range upd {
		if c >= 2 {
			multi++
		}
	}
	h := []string{"mapping:" + in.Mapping, fmt.Sprintf("stores:%d", len(in.Stores))}
	if shrink {
		h = append(h, "array-shrinks")
	}
	if it.clamped > 0 {
		h = append(h, "clamped")
	}
	term := cf.App("CUdc", lst("cdv", docs), lst("cstep", steps))
	return vh.Result{Term: term, Nontrivial: multi > 0 && delAfterUpd, Hist: h}
}

func main() {
	vh.Main(vh.Config{
		Property:  "C01",
		Imports:   []string{"Common.Bytes", "Scorch.Model", "Kv.Adapter", "Kv.Upsidedown", "Kv.UpsidedownCorr"},
		CaseType:  "UpsidedownCorr.case",
		CheckFn:   "UpsidedownCorr.check",
		ExplainFn: "UpsidedownCorr.explain",
		Rule: "upsidedown row store: histories of 2-8 steps (batches of 0-5 Index/Delete/SetInternal/DeleteInternal ops, or the same ops issued singly) over 2-5 ids and 1-2 internal keys, " +
			"documents with stored arrays of 0-3 elements (lean mapping without _all; every 10th history the full sw mapping with numeric terms, _all and term vectors), " +
			"each history run on upsidedown over gtreap, boltdb, goleveldb and moss; after every step every row of the real index (back index, term frequency, stored, dictionary, internal) and DocCount() " +
			"are compared with the Coq model's row store; the analysis result of each (id, version) is read off a scratch index holding that version alone; " +
			"non-trivial: some id written at least twice and some previously written id deleted",
		ShardSize: 25,
		Workers:   6,
		Preamble:  "From Coq Require Import Uint63.\n",
	}, gen, exec)
}
