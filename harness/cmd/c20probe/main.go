package main

import (
	"fmt"
	"sort"

	"github.com/blevesearch/bleve/v2"
	"github.com/blevesearch/bleve/v2/index/scorch"
	"github.com/blevesearch/bleve/v2/mapping"
	"github.com/blevesearch/bleve/v2/search/query"
	index "github.com/blevesearch/bleve_index_api"
)

func kw() *mapping.FieldMapping { return bleve.NewKeywordFieldMapping() }

func mk(nested bool) mapping.IndexMapping {
	m := bleve.NewIndexMapping()
	dm := bleve.NewDocumentStaticMapping()
	dm.AddFieldMappingsAt("top", kw())
	dm.AddFieldMappingsAt("tag", kw())
	sub := func() *mapping.DocumentMapping {
		if nested {
			return bleve.NewNestedDocumentStaticMapping()
		}
		return bleve.NewDocumentStaticMapping()
	}
	items := sub()
	items.AddFieldMappingsAt("color", kw())
	items.AddFieldMappingsAt("size", kw())
	subs := sub()
	subs.AddFieldMappingsAt("k", kw())
	subs.AddFieldMappingsAt("v", kw())
	items.AddSubDocumentMapping("subs", subs)
	parts := sub()
	parts.AddFieldMappingsAt("name", kw())
	parts.AddFieldMappingsAt("qty", kw())
	dm.AddSubDocumentMapping("items", items)
	dm.AddSubDocumentMapping("parts", parts)
	m.DefaultMapping = dm
	return m
}

func tq(f, v string) query.Query { q := bleve.NewTermQuery(v); q.SetField(f); return q }

type M = map[string]interface{}
type A = []interface{}

func main() {
	for _, nested := range []bool{true, false} {
		idx, err := bleve.NewUsing("", mk(nested), scorch.Name, scorch.Name, nil)
		if err != nil {
			panic(err)
		}
		docs := map[string]M{
			"d1": {"top": "x", "tag": "t", "items": A{M{"color": "red", "size": "s", "subs": A{M{"k": "a", "v": "1"}, M{"k": "b", "v": "2"}}}, M{"color": "blue", "size": "m"}}, "parts": A{M{"name": "n1", "qty": "q1"}}},
			"d2": {"top": "x", "items": A{M{"color": "red", "size": "m", "subs": A{M{"k": "a", "v": "2"}}}, M{"color": "blue", "size": "s"}}, "parts": A{M{"name": "n2", "qty": "q1"}}},
			"d3": {"top": "y", "tag": "t", "items": A{}, "parts": A{M{"name": "n1", "qty": "q2"}, M{"name": "n2", "qty": "q1"}}},
			"d4": {"top": "y"},
		}
		for _, id := range []string{"d1", "d2", "d3", "d4"} {
			if err := idx.Index(id, docs[id]); err != nil {
				panic(err)
			}
		}
		cnt, _ := idx.DocCount()
		fmt.Printf("nested=%v DocCount=%d\n", nested, cnt)
		run := func(name string, q query.Query) {
			req := bleve.NewSearchRequestOptions(q, 100, 0, false)
			res, err := idx.Search(req)
			if err != nil {
				fmt.Printf("  %-50s ERR %v\n", name, err)
				return
			}
			var got []string
			for _, h := range res.Hits {
				got = append(got, h.ID)
			}
			sort.Strings(got)
			fmt.Printf("  %-50s %v total=%d\n", name, got, res.Total)
		}
		b := func(must, should, mustnot []query.Query, min int) query.Query {
			q := bleve.NewBooleanQuery()
			if len(must) > 0 {
				q.AddMust(must...)
			}
			if len(should) > 0 {
				q.AddShould(should...)
				q.SetMinShould(float64(min))
			}
			if len(mustnot) > 0 {
				q.AddMustNot(mustnot...)
			}
			return q
		}
		Q := func(qs ...query.Query) []query.Query { return qs }
		run("matchall", bleve.NewMatchAllQuery())
		run("conj(red,s)", bleve.NewConjunctionQuery(tq("items.color", "red"), tq("items.size", "s")))
		run("conj(red, subs.k=a)", bleve.NewConjunctionQuery(tq("items.color", "red"), tq("items.subs.k", "a")))
		run("conj(subs.k=a, subs.v=2)", bleve.NewConjunctionQuery(tq("items.subs.k", "a"), tq("items.subs.v", "2")))
		run("conj(size=s, subs.v=2)", bleve.NewConjunctionQuery(tq("items.size", "s"), tq("items.subs.v", "2")))
		run("conj(red, parts.name=n1)", bleve.NewConjunctionQuery(tq("items.color", "red"), tq("parts.name", "n1")))
		run("conj(parts n1,q1)", bleve.NewConjunctionQuery(tq("parts.name", "n1"), tq("parts.qty", "q1")))
		dj := bleve.NewDisjunctionQuery(tq("items.color", "red"), tq("top", "y"))
		run("disj1(red, top=y)", dj)
		dj2 := bleve.NewDisjunctionQuery(tq("items.color", "red"), tq("top", "x"))
		dj2.SetMin(2)
		run("disj2(red, top=x) [want d1 d2]", dj2)
		dj3 := bleve.NewDisjunctionQuery(tq("items.color", "red"), tq("parts.name", "n1"))
		dj3.SetMin(2)
		run("disj2(red, parts n1) [want d1]", dj3)
		dj4 := bleve.NewDisjunctionQuery(tq("tag", "t"), tq("top", "x"))
		dj4.SetMin(2)
		run("disj2(tag t, top x) [want d1]", dj4)
		run("bool(must red, mustnot parts n1) [want d2]", b(Q(tq("items.color", "red")), nil, Q(tq("parts.name", "n1")), 0))
		run("bool(must top x, mustnot tag t) [want d2]", b(Q(tq("top", "x")), nil, Q(tq("tag", "t")), 0))
		run("bool(mustnot top x) [want d3 d4]", b(nil, nil, Q(tq("top", "x")), 0))
		run("bool(mustnot color red) [want d3 d4]", b(nil, nil, Q(tq("items.color", "red")), 0))
		run("bool(should red, mustnot top y)", b(nil, Q(tq("items.color", "red")), Q(tq("top", "y")), 0))
		run("bool(should2 red,top x) [want d1 d2]", b(nil, Q(tq("items.color", "red"), tq("top", "x")), nil, 2))
		run("bool(must top x, should0 red)", b(Q(tq("top", "x")), Q(tq("items.size", "zz")), nil, 0))
		run("bool(must top x, mustnot red) [want none]", b(Q(tq("top", "x")), nil, Q(tq("items.color", "red")), 0))
		run("bool(must red, mustnot subs.k=b) [want d2]", b(Q(tq("items.color", "red")), nil, Q(tq("items.subs.k", "b")), 0))
		run("conj(top x, bool(must tag t, mustnot top y))", bleve.NewConjunctionQuery(tq("items.color", "red"), b(Q(tq("tag", "t")), nil, Q(tq("top", "y")), 0)))
		run("conj(matchall, red)", bleve.NewConjunctionQuery(bleve.NewMatchAllQuery(), tq("items.color", "red")))
		run("term red", tq("items.color", "red"))
		run("term top", tq("top", "x"))
		// forest
		adv, _ := idx.Advanced()
		rd, _ := adv.Reader()
		nr := rd.(index.NestedReader)
		it, _ := rd.DocIDReaderAll()
		for {
			id, _ := it.Next()
			if id == nil {
				break
			}
			anc, _ := nr.Ancestors(id, nil)
			ext, _ := rd.ExternalID(id)
			fmt.Printf("    %v %s %v\n", []byte(id), ext, anc)
		}
		it.Close()
		rd.Close()
		idx.Delete("d1")
		run("after delete d1: term red", tq("items.color", "red"))
		run("after delete d1: matchall", bleve.NewMatchAllQuery())
		cnt, _ = idx.DocCount()
		fmt.Printf("nested=%v DocCount=%d\n", nested, cnt)
		idx.Close()
	}
}
