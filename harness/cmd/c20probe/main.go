package main

import (
	"fmt"
	"sort"

	"github.com/blevesearch/bleve/v2"
	"github.com/blevesearch/bleve/v2/index/scorch"
	"github.com/blevesearch/bleve/v2/mapping"
	"github.com/blevesearch/bleve/v2/search/query"
	index "github.com/blevesearch/bleve_index_api"
)

func kw() *mapping.FieldMapping { return bleve.NewKeywordFieldMapping() }

func mk(nested bool) mapping.IndexMapping {
	m := bleve.NewIndexMapping()
	dm := bleve.NewDocumentStaticMapping()
	dm.AddFieldMappingsAt("top", kw())
	dm.AddFieldMappingsAt("tag", kw())
	sub := func() *mapping.DocumentMapping {
		if nested {
			return bleve.NewNestedDocumentStaticMapping()
		}
		return bleve.NewDocumentStaticMapping()
	}
	items := sub()
	items.AddFieldMappingsAt("color", kw())
	items.AddFieldMappingsAt("size", kw())
	subs := sub()
	subs.AddFieldMappingsAt("k", kw())
	subs.AddFieldMappingsAt("v", kw())
	items.AddSubDocumentMapping("subs", subs)
	parts := sub()
	parts.AddFieldMappingsAt("name", kw())
	parts.AddFieldMappingsAt("qty", kw())
	dm.AddSubDocumentMapping("items", items)
	dm.AddSubDocumentMapping("parts", parts)
	m.DefaultMapping = dm
	return m
}

func tq(f, v string) query.Query { q := bleve.NewTermQuery(v); q.SetField(f); return q }

type M = map[string]interface{}
type A = []interface{}

func main() {
	for _, nested := range []bool{true, false} {
		idx, err := bleve.NewUsing("", mk(nested), scorch.Name, scorch.Name, nil)
		if err != nil {
			panic(err)
		}
		docs := map[string]M{
			"d1": {"top": "x", "items": A{M{"color": "red"}}, "parts": A{M{"name": "n1"}}},
			"d2": {"top": "x", "items": A{M{"color": "red"}}, "parts": A{M{"name": "n2"}}},
			"d4": {"top": "y"},
		}
		for _, id := range []string{"d1", "d2", "d4"} {
			if err := idx.Index(id, docs[id]); err != nil {
				panic(err)
			}
		}
		run := func(name string, q query.Query) {
			req := bleve.NewSearchRequestOptions(q, 100, 0, false)
			res, err := idx.Search(req)
			if err != nil {
				fmt.Printf("  %-50s ERR %v\n", name, err)
				return
			}
			var got []string
			for _, h := range res.Hits {
				got = append(got, h.ID)
			}
			sort.Strings(got)
			fmt.Printf("  %-50s %v total=%d\n", name, got, res.Total)
		}
		b := func(must, should, mustnot []query.Query, min int) query.Query {
			q := bleve.NewBooleanQuery()
			if len(must) > 0 {
				q.AddMust(must...)
			}
			if len(should) > 0 {
				q.AddShould(should...)
				q.SetMinShould(float64(min))
			}
			if len(mustnot) > 0 {
				q.AddMustNot(mustnot...)
			}
			return q
		}
		Q := func(qs ...query.Query) []query.Query { return qs }
		run("must top:x mustnot items.color:red", b(Q(tq("top", "x")), nil, Q(tq("items.color", "red")), 0))
		run("must items.color:red mustnot parts.name:n1", b(Q(tq("items.color", "red")), nil, Q(tq("parts.name", "n1")), 0))
		dj := bleve.NewDisjunctionQuery(tq("items.color", "red"), tq("top", "x"))
		dj.SetMin(2)
		run("disj min2 items.color:red top:x", dj)
		run("mustnot top:x", b(nil, nil, Q(tq("top", "x")), 0))
		run("mustnot items.color:red", b(nil, nil, Q(tq("items.color", "red")), 0))
		run("must matchall mustnot top:x", b(Q(bleve.NewMatchAllQuery()), nil, Q(tq("top", "x")), 0))
		// forest
		adv, _ := idx.Advanced()
		rd, _ := adv.Reader()
		nr := rd.(index.NestedReader)
		it, _ := rd.DocIDReaderAll()
		for {
			id, _ := it.Next()
			if id == nil {
				break
			}
			anc, _ := nr.Ancestors(id, nil)
			ext, _ := rd.ExternalID(id)
			fmt.Printf("    %v %s %v\n", []byte(id), ext, anc)
		}
		it.Close()
		rd.Close()
		idx.Delete("d1")
		run("after delete d1: term red", tq("items.color", "red"))
		run("after delete d1: matchall", bleve.NewMatchAllQuery())
		cnt, _ := idx.DocCount()
		fmt.Printf("nested=%v DocCount=%d\n", nested, cnt)
		idx.Close()
	}
}
