// C16 correspondence harness: a mapping survives its JSON form.
// Builds real mapping.IndexMappingImpl values from a neutral description, runs
// json.Marshal / json.Unmarshal / Validate / MapDocument / index create-close-open on them and
// hands what the implementation did to the Coq codec model (coq/Codec/MappingCorr.v).
package main

import (
	"bytes"
	"encoding/json"
	"fmt"
	"os"
	"path/filepath"
	"reflect"
	"sort"
	"strings"
	"time"

	"github.com/blevesearch/bleve/v2"
	_ "github.com/blevesearch/bleve/v2/config"
	"github.com/blevesearch/bleve/v2/document"
	"github.com/blevesearch/bleve/v2/index/scorch"
	"github.com/blevesearch/bleve/v2/mapping"
	index "github.com/blevesearch/bleve_index_api"

	cf "verifharness/internal/coqfmt"
	"verifharness/internal/vh"
	"verifharness/internal/vrand"
)

// ---------------------------------------------------------------- neutral description

type FieldD struct {
	Name       string `json:"name,omitempty"`
	Type       string `json:"type,omitempty"`
	Analyzer   string `json:"analyzer,omitempty"`
	Store      bool   `json:"store,omitempty"`
	Index      bool   `json:"index,omitempty"`
	TV         bool   `json:"tv,omitempty"`
	InAll      bool   `json:"in_all,omitempty"`
	DateFormat string `json:"date_format,omitempty"`
	DocValues  bool   `json:"docvalues,omitempty"`
	SkipFN     bool   `json:"skip_freq_norm,omitempty"`
	Dims       int    `json:"dims,omitempty"`
	Similarity string `json:"similarity,omitempty"`
	VecOpt     string `json:"vec_opt,omitempty"`
	Synonym    string `json:"synonym,omitempty"`
	GPU        bool   `json:"gpu,omitempty"`
}

type PropD struct {
	Name string `json:"name"`
	Doc  *DocD  `json:"doc"`
}

type DocD struct {
	Enabled      bool     `json:"enabled"`
	Dynamic      bool     `json:"dynamic"`
	Nested       bool     `json:"nested,omitempty"`
	Analyzer     string   `json:"analyzer,omitempty"`
	Synonym      string   `json:"synonym,omitempty"`
	StructTagKey string   `json:"struct_tag_key,omitempty"`
	Props        []PropD  `json:"props,omitempty"`
	Fields       []FieldD `json:"fields,omitempty"`
	EmptyFields  bool     `json:"empty_fields,omitempty"` // Fields is an empty non-nil slice
	EmptyProps   bool     `json:"empty_props,omitempty"`  // Properties is an empty non-nil map
}

type MapD struct {
	Types            []PropD  `json:"types,omitempty"`
	NilTypes         bool     `json:"nil_types,omitempty"` // TypeMapping left nil instead of empty
	Default          *DocD    `json:"default"`
	TypeField        string   `json:"type_field"`
	DefaultType      string   `json:"default_type"`
	DefaultAnalyzer  string   `json:"default_analyzer"`
	DefaultDTP       string   `json:"default_datetime_parser"`
	DefaultSynonym   string   `json:"default_synonym,omitempty"`
	ScoringModel     string   `json:"scoring_model,omitempty"`
	DefaultField     string   `json:"default_field"`
	StoreDynamic     bool     `json:"store_dynamic"`
	IndexDynamic     bool     `json:"index_dynamic"`
	DocValuesDynamic bool     `json:"docvalues_dynamic"`
	Custom           []string `json:"custom,omitempty"` // names from the component pool
	Comps            []CompD  `json:"comps,omitempty"`  // generated components, added after the pool's in list order
}

type In struct {
	Kind      string            `json:"kind"` // round | decode | default
	Label     string            `json:"label,omitempty"`
	M         *MapD             `json:"m,omitempty"`
	Docs      []json.RawMessage `json:"docs,omitempty"`
	StdDocs   bool              `json:"std_docs,omitempty"` // the fixed documents of the sweep
	StructDoc int               `json:"struct_doc,omitempty"`
	Reopen    bool              `json:"reopen,omitempty"`
	Root      string            `json:"root,omitempty"`
	Text      string            `json:"text,omitempty"`
}

// ---------------------------------------------------------------- custom analysis component pool

type comp struct {
	kind   string // char_filter tokenizer token_map token_filter analyzer date_time_parser synonym_source
	config map[string]interface{}
	deps   []string
}

var pool = map[string]comp{
	"cf_html":  {"char_filter", map[string]interface{}{"type": "html"}, nil},
	"cf_digit": {"char_filter", map[string]interface{}{"type": "regexp", "regexp": "[0-9]+", "replace": "#"}, nil},
	"tk_word":  {"tokenizer", map[string]interface{}{"type": "regexp", "regexp": "[a-zA-Z#]+"}, nil},
	"tk_url": {"tokenizer", map[string]interface{}{"type": "exception", "exceptions": []interface{}{"[a-z]+://\\S+"},
		"tokenizer": "tk_word"}, []string{"tk_word"}},
	"tm_stop":  {"token_map", map[string]interface{}{"type": "custom", "tokens": []interface{}{"the", "foo", "bar"}}, nil},
	"tf_stop":  {"token_filter", map[string]interface{}{"type": "stop_tokens", "stop_token_map": "tm_stop"}, []string{"tm_stop"}},
	"tf_ngram": {"token_filter", map[string]interface{}{"type": "ngram", "min": 2, "max": 3}, nil}, // Go ints: float64 after a reparse
	"tf_edge":  {"token_filter", map[string]interface{}{"type": "edge_ngram", "back": false, "min": 1.0, "max": 3.0}, nil},
	"tf_len":   {"token_filter", map[string]interface{}{"type": "length", "min": 2.0, "max": 6.0}, nil},
	"tf_trunc": {"token_filter", map[string]interface{}{"type": "truncate_token", "length": 4.0}, nil},
	"an_words": {"analyzer", map[string]interface{}{"type": "custom", "char_filters": []interface{}{"cf_html"},
		"tokenizer": "tk_word", "token_filters": []interface{}{"to_lower", "tf_stop"}}, []string{"cf_html", "tk_word", "tf_stop"}},
	"an_grams": {"analyzer", map[string]interface{}{"type": "custom", "tokenizer": "unicode",
		"token_filters": []interface{}{"to_lower", "tf_ngram"}}, []string{"tf_ngram"}},
	"an_url": {"analyzer", map[string]interface{}{"type": "custom", "char_filters": []interface{}{"cf_digit"},
		"tokenizer": "tk_url", "token_filters": []interface{}{"tf_len", "tf_trunc", "tf_edge"}}, []string{"cf_digit", "tk_url", "tf_len", "tf_trunc", "tf_edge"}},
	"dt_slash": {"date_time_parser", map[string]interface{}{"type": "flexiblego", "layouts": []interface{}{"2006/01/02", "02-01-2006 15:04"}}, nil},
	"dt_sane":  {"date_time_parser", map[string]interface{}{"type": "sanitizedgo", "layouts": []interface{}{"2006-01-02 15:04:05", time.RFC3339}}, nil},
	"syn_a":    {"synonym_source", map[string]interface{}{"collection": "coll_a", "analyzer": "standard"}, nil},
	"syn_b":    {"synonym_source", map[string]interface{}{"collection": "coll_b", "analyzer": "an_words"}, []string{"an_words"}},
}

var poolNames = func() []string {
	var ns []string
	for n := range pool {
		ns = append(ns, n)
	}
	sort.Strings(ns)
	return ns
}()

func closure(names []string) []string {
	var out []string
	seen := map[string]bool{}
	var add func(n string)
	add = func(n string) {
		if seen[n] {
			return
		}
		c, ok := pool[n]
		if !ok {
			return
		}
		seen[n] = true
		for _, d := range c.deps {
			add(d)
		}
		out = append(out, n)
	}
	for _, n := range names {
		add(n)
	}
	return out
}

// ---------------------------------------------------------------- description -> real mapping

func buildField(f FieldD) *mapping.FieldMapping {
	return &mapping.FieldMapping{Name: f.Name, Type: f.Type, Analyzer: f.Analyzer, Store: f.Store, Index: f.Index,
		IncludeTermVectors: f.TV, IncludeInAll: f.InAll, DateFormat: f.DateFormat, DocValues: f.DocValues,
		SkipFreqNorm: f.SkipFN, Dims: f.Dims, Similarity: f.Similarity, VectorIndexOptimizedFor: f.VecOpt,
		SynonymSource: f.Synonym, GPU: f.GPU}
}

func buildDoc(d *DocD) *mapping.DocumentMapping {
	dm := &mapping.DocumentMapping{Enabled: d.Enabled, Dynamic: d.Dynamic, Nested: d.Nested,
		DefaultAnalyzer: d.Analyzer, DefaultSynonymSource: d.Synonym, StructTagKey: d.StructTagKey}
	if d.EmptyFields {
		dm.Fields = make([]*mapping.FieldMapping, 0)
	}
	if d.EmptyProps {
		dm.Properties = map[string]*mapping.DocumentMapping{}
	}
	for _, p := range d.Props {
		dm.AddSubDocumentMapping(p.Name, buildDoc(p.Doc))
	}
	for _, f := range d.Fields {
		dm.AddFieldMapping(buildField(f))
	}
	return dm
}

func build(md *MapD) (*mapping.IndexMappingImpl, error) {
	m := bleve.NewIndexMapping()
	for _, n := range closure(md.Custom) {
		c := pool[n]
		// a private copy: the mapping keeps the map it is given
		cfg := map[string]interface{}{}
		for k, v := range c.config {
			cfg[k] = v
		}
		var err error
		switch c.kind {
		case "char_filter":
			err = m.AddCustomCharFilter(n, cfg)
		case "tokenizer":
			err = m.AddCustomTokenizer(n, cfg)
		case "token_map":
			err = m.AddCustomTokenMap(n, cfg)
		case "token_filter":
			err = m.AddCustomTokenFilter(n, cfg)
		case "analyzer":
			err = m.AddCustomAnalyzer(n, cfg)
		case "date_time_parser":
			err = m.AddCustomDateTimeParser(n, cfg)
		case "synonym_source":
			err = m.AddSynonymSource(n, cfg)
		}
		if err != nil {
			return nil, fmt.Errorf("custom %s: %v", n, err)
		}
	}
	for _, c := range md.Comps {
		if err := addComp(m, c); err != nil {
			return nil, fmt.Errorf("custom %s %s: %v", c.Kind, c.Name, err)
		}
	}
	m.TypeField = md.TypeField
	m.DefaultType = md.DefaultType
	m.DefaultAnalyzer = md.DefaultAnalyzer
	m.DefaultDateTimeParser = md.DefaultDTP
	m.DefaultSynonymSource = md.DefaultSynonym
	m.ScoringModel = md.ScoringModel
	m.DefaultField = md.DefaultField
	m.StoreDynamic = md.StoreDynamic
	m.IndexDynamic = md.IndexDynamic
	m.DocValuesDynamic = md.DocValuesDynamic
	if md.Default != nil {
		m.DefaultMapping = buildDoc(md.Default)
	}
	if md.NilTypes && len(md.Types) == 0 {
		m.TypeMapping = nil
	}
	for _, t := range md.Types {
		m.AddDocumentMapping(t.Name, buildDoc(t.Doc))
	}
	return m, nil
}

// ---------------------------------------------------------------- JSON text -> neutral tree

type jv struct {
	k    byte // n b i d s a o
	b    bool
	num  string
	s    string
	arr  []*jv
	keys []string
	vals []*jv
}

func parseJSON(text []byte) (*jv, error) {
	dec := json.NewDecoder(bytes.NewReader(text))
	dec.UseNumber()
	v, err := parseVal(dec)
	if err != nil {
		return nil, err
	}
	if _, err := dec.Token(); err == nil {
		return nil, fmt.Errorf("trailing data")
	}
	return v, nil
}

func parseVal(dec *json.Decoder) (*jv, error) {
	t, err := dec.Token()
	if err != nil {
		return nil, err
	}
	switch x := t.(type) {
	case nil:
		return &jv{k: 'n'}, nil
	case bool:
		return &jv{k: 'b', b: x}, nil
	case json.Number:
		s := string(x)
		if isIntLit(s) {
			return &jv{k: 'i', num: s}, nil
		}
		return &jv{k: 'd', num: s}, nil
	case string:
		return &jv{k: 's', s: x}, nil
	case json.Delim:
		switch x {
		case '[':
			v := &jv{k: 'a'}
			for dec.More() {
				e, err := parseVal(dec)
				if err != nil {
					return nil, err
				}
				v.arr = append(v.arr, e)
			}
			_, err := dec.Token()
			return v, err
		case '{':
			v := &jv{k: 'o'}
			for dec.More() {
				kt, err := dec.Token()
				if err != nil {
					return nil, err
				}
				ks, ok := kt.(string)
				if !ok {
					return nil, fmt.Errorf("non-string key")
				}
				e, err := parseVal(dec)
				if err != nil {
					return nil, err
				}
				v.keys = append(v.keys, ks)
				v.vals = append(v.vals, e)
			}
			_, err := dec.Token()
			return v, err
		}
	}
	return nil, fmt.Errorf("unexpected token %v", t)
}

func isIntLit(s string) bool {
	if s == "" {
		return false
	}
	i := 0
	if s[0] == '-' {
		i = 1
	}
	if i >= len(s) || len(s)-i > 40 {
		return false
	}
	for ; i < len(s); i++ {
		if s[i] < '0' || s[i] > '9' {
			return false
		}
	}
	return s != "-0"
}

// text of a tree (used for the adversarial decode inputs; keeps repeated keys and member order)
func (v *jv) text(sb *strings.Builder) {
	switch v.k {
	case 'n':
		sb.WriteString("null")
	case 'b':
		if v.b {
			sb.WriteString("true")
		} else {
			sb.WriteString("false")
		}
	case 'i', 'd':
		sb.WriteString(v.num)
	case 's':
		b, _ := json.Marshal(v.s)
		sb.Write(b)
	case 'a':
		sb.WriteByte('[')
		for i, e := range v.arr {
			if i > 0 {
				sb.WriteByte(',')
			}
			e.text(sb)
		}
		sb.WriteByte(']')
	case 'o':
		sb.WriteByte('{')
		for i, e := range v.vals {
			if i > 0 {
				sb.WriteByte(',')
			}
			b, _ := json.Marshal(v.keys[i])
			sb.Write(b)
			sb.WriteByte(':')
			e.text(sb)
		}
		sb.WriteByte('}')
	}
}

// Cases are printed in the monomorphic wire format of MappingCorr.v (WRound / WVPtr / WFCons …),
// which Coq elaborates far faster than polymorphic list literals.
// Strings that recur in every case (Go field names, JSON keys, component names) are defined once
// in the preamble of each cases file and referred to by name: Coq spends most of its time
// elaborating string literals character by character.  Pure abbreviation: the definitions are
// printed from the same table that is used for the lookup.
var vocab = map[string]cf.T{}
var vocabPreamble string

func initVocab() {
	var words []string
	seen := map[string]bool{}
	add := func(ws ...string) {
		for _, w := range ws {
			if !seen[w] {
				seen[w] = true
				words = append(words, w)
			}
		}
	}
	for _, t := range []reflect.Type{reflect.TypeOf(mapping.IndexMappingImpl{}), reflect.TypeOf(mapping.DocumentMapping{}), reflect.TypeOf(mapping.FieldMapping{})} {
		add(t.Name())
		for i := 0; i < t.NumField(); i++ {
			add(t.Field(i).Name)
			if ft := t.Field(i).Type; ft.Kind() == reflect.Ptr && ft.Elem().Kind() == reflect.Struct {
				for j := 0; j < ft.Elem().NumField(); j++ {
					add(ft.Elem().Field(j).Name)
				}
			}
		}
	}
	// the keys current bleve writes, and values the generator uses (any other string is printed literally)
	add("types", "default_mapping", "type_field", "default_type", "default_analyzer", "default_datetime_parser",
		"default_synonym_source", "scoring_model", "default_field", "store_dynamic", "index_dynamic", "docvalues_dynamic",
		"analysis", "enabled", "dynamic", "properties", "fields", "nested", "struct_tag_key", "name", "type", "analyzer",
		"store", "index", "include_term_vectors", "include_in_all", "date_format", "docvalues", "skip_freq_norm", "dims",
		"similarity", "vector_index_optimized_for", "synonym_source", "gpu", "char_filters", "tokenizers", "token_maps",
		"token_filters", "analyzers", "date_time_parsers", "synonym_sources",
		"_type", "_default", "_all", "dateTimeOptional", "tokenizer", "regexp", "replace", "exceptions", "tokens",
		"stop_token_map", "min", "max", "back", "length", "layouts", "collection", "custom", "unicode", "to_lower",
		"html", "exception", "stop_tokens", "ngram", "edge_ngram", "truncate_token", "flexiblego", "sanitizedgo",
		"coll_a", "coll_b", "kind", "alt", "other", "bleve", "json", "unix_sec", "unix_milli", "unix_nano",
		"l2_norm", "dot_product", "cosine", "recall", "latency", "memory-efficient", "sub.a", "x.y", "a_kw",
		index.BM25Scoring, index.TFIDFScoring)
	add("", "t1", "t2", "x", "#", "the", "foo", "bar", "[a-zA-Z#]+", "[0-9]+")
	// the generated custom analysis sections (comps.go)
	for _, k := range compKinds {
		add(builtinNames[k]...)
		add(freshPrefix[k]+"1", freshPrefix[k]+"2")
	}
	add(mapWords...)
	add("articles_token_map", "keywords_token_map", "dict_token_map", "min_word_size", "min_subword_size", "max_subword_size",
		"only_longest_match", "form", "nfc", "nfd", "nfkc", "nfkd", "output_original", "separator", "filler", "shingle", "elision",
		"keyword_marker", "dict_compound", "normalize_unicode", "reverse", "unique", "apostrophe", "isostyle", "percentstyle",
		"an0", "an1", "_", " ", "'", "2006/01/02", "02-01-2006 15:04", "2006-01-02 15:04:05", "yyyy/MM/dd", "dd-MM-yyyy HH:mm",
		"%Y/%m/%d", "%d-%m-%Y %H:%M", "[a-z]+://\\S+")
	add(fieldTypes...)
	add(builtinAnalyzers...)
	add(propNames...)
	add(poolNames...)
	var sb strings.Builder
	sb.WriteString("From Coq Require Import String.\n")
	for i, w := range words {
		lit := wstrLit(w)
		if !strings.HasPrefix(string(lit), "(WS ") {
			continue
		}
		n := fmt.Sprintf("w%d", i)
		vocab[w] = cf.T(n)
		sb.WriteString("Definition " + n + " := " + strings.TrimSuffix(strings.TrimPrefix(string(lit), "("), ")") + ".\n")
	}
	vocabPreamble = sb.String()
}

func wstr(s string) cf.T {
	if n, ok := vocab[s]; ok {
		return n
	}
	return wstrLit(s)
}

func wstrLit(s string) cf.T {
	ok := true
	for i := 0; i < len(s); i++ {
		if s[i] < 0x20 || s[i] > 0x7e || s[i] == '"' {
			ok = false
			break
		}
	}
	if ok {
		return cf.T("(WS \"" + s + "\")")
	}
	return cf.App("WB", cf.Str(s))
}

func (v *jv) coq() cf.T {
	switch v.k {
	case 'n':
		return "WNull"
	case 'b':
		return cf.App("WBool", cf.Bool(v.b))
	case 'i':
		n := v.num
		if strings.HasPrefix(n, "-") {
			n = "(" + n + ")"
		}
		return cf.T("(WInt " + n + ")")
	case 'd':
		return cf.App("WDec", wstr(v.num))
	case 's':
		return cf.App("WStr", wstr(v.s))
	case 'a':
		var sb strings.Builder
		sb.WriteString("(WArr ")
		for _, e := range v.arr {
			sb.WriteString("(WJCons " + string(e.coq()) + " ")
		}
		sb.WriteString("WJNil" + strings.Repeat(")", len(v.arr)+1))
		return cf.T(sb.String())
	default:
		var sb strings.Builder
		sb.WriteString("(WObj ")
		for i := range v.keys {
			sb.WriteString("(WMCons " + string(wstr(v.keys[i])) + " " + string(v.vals[i].coq()) + " ")
		}
		sb.WriteString("WMNil" + strings.Repeat(")", len(v.keys)+1))
		return cf.T(sb.String())
	}
}

// ---------------------------------------------------------------- real Go value -> record term
// Reflection over the Go types only (no struct tags): every exported field by its Go name.

func wfields(keys []string, vals []cf.T) string {
	var sb strings.Builder
	for i := range keys {
		sb.WriteString("(WFCons " + string(wstr(keys[i])) + " " + string(vals[i]) + " ")
	}
	sb.WriteString("WFNil" + strings.Repeat(")", len(keys)))
	return sb.String()
}

func dump(v reflect.Value) cf.T {
	switch v.Kind() {
	case reflect.Bool:
		return cf.App("WVBool", cf.Bool(v.Bool()))
	case reflect.String:
		return cf.App("WVStr", wstr(v.String()))
	case reflect.Int, reflect.Int64, reflect.Int32:
		return cf.App("WVInt", cf.Z(v.Int()))
	case reflect.Ptr:
		if v.IsNil() {
			return "WVNil"
		}
		e := v.Elem()
		if e.Kind() != reflect.Struct {
			return cf.App("WVUndumpable", wstr(v.Type().String()))
		}
		var ks []string
		var vs []cf.T
		t := e.Type()
		for i := 0; i < t.NumField(); i++ {
			if !t.Field(i).IsExported() {
				continue
			}
			ks = append(ks, t.Field(i).Name)
			vs = append(vs, dump(e.Field(i)))
		}
		return cf.T("(WVPtr " + wfields(ks, vs) + ")")
	case reflect.Slice:
		var sb strings.Builder
		sb.WriteString("(WVList ")
		for i := 0; i < v.Len(); i++ {
			sb.WriteString("(WLCons " + string(dump(v.Index(i))) + " ")
		}
		sb.WriteString("WLNil" + strings.Repeat(")", v.Len()+1))
		return cf.T(sb.String())
	case reflect.Interface:
		return dumpAny(v)
	case reflect.Map:
		if v.Type().Key().Kind() != reflect.String {
			return cf.App("WVUndumpable", wstr(v.Type().String()))
		}
		if v.Type().Elem().Kind() == reflect.Interface {
			return dumpAny(v) // map[string]interface{}: opaque JSON
		}
		keys := make([]string, 0, v.Len())
		for _, k := range v.MapKeys() {
			keys = append(keys, k.String())
		}
		sort.Strings(keys)
		vs := make([]cf.T, len(keys))
		for i, k := range keys {
			vs[i] = dump(v.MapIndex(reflect.ValueOf(k)))
		}
		return cf.T("(WVMap " + wfields(keys, vs) + ")")
	}
	return cf.App("WVUndumpable", wstr(v.Type().String()))
}

func dumpAny(v reflect.Value) cf.T {
	b, err := json.Marshal(v.Interface())
	if err != nil {
		return cf.App("WVUndumpable", wstr(err.Error()))
	}
	t, err := parseJSON(b)
	if err != nil {
		return cf.App("WVUndumpable", wstr(err.Error()))
	}
	return cf.App("WVAny", t.coq())
}

// ---------------------------------------------------------------- MapDocument observation

func dumpDoc(d *document.Document) []string {
	var out []string
	var walk func(d *document.Document, pfx string)
	walk = func(d *document.Document, pfx string) {
		for _, f := range d.Fields {
			f.Analyze()
			var toks []string
			for t, tf := range f.AnalyzedTokenFrequencies() {
				var locs []string
				for _, l := range tf.Locations {
					locs = append(locs, fmt.Sprintf("%d@%d-%d%v", l.Position, l.Start, l.End, l.ArrayPositions))
				}
				toks = append(toks, fmt.Sprintf("%x*%d%v", t, tf.Frequency(), locs))
			}
			sort.Strings(toks)
			extra := ""
			switch x := f.(type) {
			case *document.DateTimeField:
				_, layout, err := x.DateTime()
				extra = fmt.Sprintf("layout=%q err=%v", layout, err)
			case *document.TextField:
				extra = fmt.Sprintf("text=%q", x.Text())
			}
			for _, c := range d.CompositeFields {
				c.Compose(f.Name(), f.AnalyzedLength(), f.AnalyzedTokenFrequencies())
			}
			out = append(out, fmt.Sprintf("%s%s|%T|opts=%s|pos=%v|val=%x|len=%d|%s|%v", pfx, f.Name(), f, f.Options().String(),
				f.ArrayPositions(), f.Value(), f.AnalyzedLength(), extra, toks))
		}
		for _, c := range d.CompositeFields {
			var toks []string
			for t, tf := range c.AnalyzedTokenFrequencies() {
				toks = append(toks, fmt.Sprintf("%x*%d", t, tf.Frequency()))
			}
			sort.Strings(toks)
			out = append(out, fmt.Sprintf("%scomposite %s|opts=%s|len=%d|%v", pfx, c.Name(), c.Options().String(), c.AnalyzedLength(), toks))
		}
		out = append(out, fmt.Sprintf("%sindexed=%v", pfx, d.Indexed()))
		for i, nd := range d.NestedDocuments {
			walk(nd, fmt.Sprintf("%snested[%d:%s].", pfx, i, nd.ID()))
		}
	}
	walk(d, "")
	sort.Strings(out)
	return out
}

var _ index.Field

type innerDoc struct {
	X string  `json:"x" bleve:"a"`
	N float64 `json:"num" bleve:"b"`
}

type structDoc struct {
	A     string     `json:"a" bleve:"b"`
	Num   float64    `json:"num" bleve:"c"`
	When  time.Time  `json:"when" bleve:"when"`
	Flag  bool       `json:"tags" bleve:"-"`
	Sub   innerDoc   `json:"sub" bleve:"a"`
	Items []innerDoc `json:"c"`
	Kind  string     `json:"kind" bleve:"_type"`
	skip  int
}

func structDocOf(i int) interface{} {
	d := structDoc{A: "Hello the World foo", Num: 12.5, When: time.Date(2021, 3, 4, 5, 6, 7, 0, time.UTC), Flag: i%2 == 0,
		Sub: innerDoc{"nested text here", 3}, Items: []innerDoc{{"one two", 1}, {"three", 2}}, Kind: "t1"}
	if i%3 == 0 {
		return &d
	}
	return d
}

// ---------------------------------------------------------------- exec

func exec(in In) vh.Result {
	if in.Kind == "decode" {
		return execDecode(in)
	}
	if in.Kind == "default" {
		return execDefault(in)
	}
	res := execRound(in)
	if in.M != nil && tokenizerShadowOrder(in.M) {
		res.Hist = append(res.Hist, "shape:custom-tokenizer-shadows-builtin-and-is-wrapped")
	}
	return res
}

func direct(kind, f string, a ...any) vh.Result {
	return vh.Result{Direct: &vh.Direct{Kind: kind, Detail: fmt.Sprintf(f, a...)}}
}

func execRound(in In) (res vh.Result) {
	hist := []string{"round"}
	if in.Label != "" {
		hist = append(hist, "sweep:"+strings.SplitN(in.Label, ":", 2)[0])
	} else {
		hist = append(hist, "random-tree")
	}
	m, err := build(in.M)
	if err != nil {
		return vh.Result{Skip: true, Hist: []string{"skip:build-error"}}
	}
	if err := m.Validate(); err != nil {
		if os.Getenv("C16_DEBUG") != "" {
			fmt.Fprintf(os.Stderr, "invalid %s: %v\n", in.Label, err)
		}
		return vh.Result{Skip: true, Hist: []string{"skip:original-invalid"}}
	}
	var b1 []byte
	if d := vh.Guard(20*time.Second, "json.Marshal(mapping)", func() { b1, err = json.Marshal(m) }); d != nil {
		return vh.Result{Direct: d}
	}
	if err != nil {
		return direct("marshal-error", "json.Marshal of a valid mapping failed: %v", err)
	}
	t1, err := parseJSON(b1)
	if err != nil {
		return direct("marshal-error", "json.Marshal produced unparsable JSON: %v", err)
	}
	orig := dump(reflect.ValueOf(m))

	var m2 *mapping.IndexMappingImpl
	var uerr error
	if d := vh.Guard(20*time.Second, "json.Unmarshal(mapping JSON)", func() { uerr = json.Unmarshal(b1, &m2) }); d != nil {
		return vh.Result{Direct: d}
	}
	reparsed := cf.T("WVNone")
	vok, same := false, false
	if uerr == nil && m2 != nil {
		reparsed = cf.App("WVSome", dump(reflect.ValueOf(m2)))
		var verr error
		var b2 []byte
		if d := vh.Guard(20*time.Second, "Validate/Marshal of the reparsed mapping", func() {
			verr = m2.Validate()
			b2, _ = json.Marshal(m2)
		}); d != nil {
			return vh.Result{Direct: d}
		}
		vok = verr == nil
		same = bytes.Equal(b1, b2)
	}

	// BEHAVIOUR of the original mapping object, of its JSON round trip and (below) of the mapping
	// of the reopened index, implementation against itself: the analysers / date parsers /
	// synonym sources by name (probe) and MapDocument of every document
	var docs []interface{}
	raws := in.Docs
	if in.StdDocs {
		raws = append(sweepDocs(), raws...)
	}
	for _, raw := range raws {
		var v interface{}
		if json.Unmarshal(raw, &v) == nil {
			docs = append(docs, v)
		}
	}
	for i := 0; i < in.StructDoc; i++ {
		docs = append(docs, structDocOf(i))
	}
	observe := func(mm mapping.IndexMapping, what string) (behaviour, *vh.Direct) {
		var b behaviour
		d := vh.Guard(20*time.Second, "probe/MapDocument on "+what, func() {
			b.probe = probe(mm, in.M)
			for _, v := range docs {
				dd := document.NewDocument("doc")
				err := mm.MapDocument(dd, v)
				b.errs = append(b.errs, err)
				b.docs = append(b.docs, dumpDoc(dd))
			}
		})
		return b, d
	}
	differs := func(b0, b behaviour, what string) *vh.Result {
		if diff := firstDiff(b0.probe, b.probe); diff != "" {
			r := direct("analysis-differs", "%s analyses text differently from the original mapping: %s; mapping JSON %s", what, diff, b1)
			return &r
		}
		for di := range b0.docs {
			if (b0.errs[di] == nil) != (b.errs[di] == nil) {
				r := direct("mapdoc-differs", "document %d: MapDocument error %v on the original mapping, %v on %s; mapping JSON %s", di, b0.errs[di], b.errs[di], what, b1)
				return &r
			}
			if diff := firstDiff(b0.docs[di], b.docs[di]); diff != "" {
				r := direct("mapdoc-differs", "document %d maps differently on %s: %s; mapping JSON %s", di, what, diff, b1)
				return &r
			}
		}
		return nil
	}
	var b0 behaviour
	if uerr == nil && m2 != nil {
		var d *vh.Direct
		if b0, d = observe(m, "the original mapping"); d != nil {
			return vh.Result{Direct: d}
		}
		b2, d := observe(m2, "the reparsed mapping")
		if d != nil {
			return vh.Result{Direct: d}
		}
		if r := differs(b0, b2, "the mapping after its JSON round trip"); r != nil {
			return *r
		}
		for _, s1 := range b0.docs {
			hist = append(hist, fmt.Sprintf("doc-fields:%s", bucket(len(s1))))
		}
		// decoding registers the custom components by ranging over Go maps: the outcome must not
		// depend on the iteration order
		if len(in.M.Comps)+len(in.M.Custom) > 0 {
			for k := 0; k < 2; k++ {
				var mk *mapping.IndexMappingImpl
				var kerr error
				if d := vh.Guard(20*time.Second, "json.Unmarshal(mapping JSON) again", func() { kerr = json.Unmarshal(b1, &mk) }); d != nil {
					return vh.Result{Direct: d}
				}
				if kerr != nil || mk == nil {
					return direct("reparse-unstable", "json.Unmarshal of the same mapping JSON succeeded once and then failed: %v; mapping JSON %s", kerr, b1)
				}
				var pk []string
				if d := vh.Guard(20*time.Second, "probe on the mapping reparsed again", func() { pk = probe(mk, in.M) }); d != nil {
					return vh.Result{Direct: d}
				}
				if diff := firstDiff(b0.probe, pk); diff != "" {
					return direct("analysis-differs", "the mapping after another JSON round trip analyses text differently from the original mapping: %s; mapping JSON %s", diff, b1)
				}
			}
		}
	}

	reopened := cf.T("WJNone")
	if in.Reopen {
		dir, err := os.MkdirTemp("/tmp", "vh_c16_")
		if err != nil {
			panic(err)
		}
		defer os.RemoveAll(dir)
		var jr []byte
		var rerr error
		var b3 behaviour
		var reopenDirect *vh.Direct
		observed3 := false
		if d := vh.Guard(60*time.Second, "index create/close/open", func() {
			p := filepath.Join(dir, "idx")
			idx, err := bleve.NewUsing(p, m, scorch.Name, scorch.Name, nil)
			if err != nil {
				rerr = fmt.Errorf("create: %v", err)
				return
			}
			rdocs := in.Docs
			if in.StdDocs {
				rdocs = append(sweepDocs(), rdocs...)
			}
			if len(rdocs) > 0 {
				var v interface{}
				if json.Unmarshal(rdocs[0], &v) == nil {
					_ = idx.Index("d0", v)
				}
			}
			if err := idx.Close(); err != nil {
				rerr = fmt.Errorf("close: %v", err)
				return
			}
			idx2, err := bleve.Open(p)
			if err != nil {
				rerr = fmt.Errorf("open: %v", err)
				return
			}
			jr, rerr = json.Marshal(idx2.Mapping())
			if uerr == nil && m2 != nil {
				b3, reopenDirect = observe(idx2.Mapping(), "the mapping of the reopened index")
				observed3 = reopenDirect == nil
			}
			if len(rdocs) > 1 {
				var v interface{}
				if json.Unmarshal(rdocs[1], &v) == nil {
					_ = idx2.Index("d1", v)
				}
			}
			_ = idx2.Close()
		}); d != nil {
			return vh.Result{Direct: d}
		}
		if reopenDirect != nil {
			return vh.Result{Direct: reopenDirect}
		}
		if observed3 {
			if r := differs(b0, b3, "the mapping of the index after create/close/open"); r != nil {
				return *r
			}
			hist = append(hist, "reopen-behaviour-compared")
		}
		if rerr != nil {
			reopened = cf.App("WJSome", cf.App("WStr", wstr("reopen failed: "+rerr.Error())))
		} else if tr, err := parseJSON(jr); err == nil {
			reopened = cf.App("WJSome", tr.coq())
		} else {
			reopened = cf.App("WJSome", cf.App("WStr", wstr("unparsable mapping JSON after reopen")))
		}
		hist = append(hist, "reopen")
	}

	term := cf.App("WRound", orig, t1.coq(), reparsed, cf.Bool(vok), cf.Bool(same), reopened)
	defaultJSON, _ := json.Marshal(bleve.NewIndexMapping())
	hist = append(hist, "json-bytes:"+bucket(len(b1)))
	return vh.Result{Term: term, Nontrivial: !bytes.Equal(b1, defaultJSON), Key: string(b1), Hist: hist}
}

// what a mapping does: probe lines, and per document the MapDocument error and field dump
type behaviour struct {
	probe []string
	errs  []error
	docs  [][]string
}

func bucket(n int) string {
	switch {
	case n == 0:
		return "0"
	case n <= 3:
		return "1-3"
	case n <= 10:
		return "4-10"
	case n <= 100:
		return "11-100"
	case n <= 1000:
		return "101-1000"
	default:
		return ">1000"
	}
}

func firstDiff(a, b []string) string {
	for i := 0; i < len(a) || i < len(b); i++ {
		var x, y string
		if i < len(a) {
			x = a[i]
		}
		if i < len(b) {
			y = b[i]
		}
		if x != y {
			return fmt.Sprintf("original produced [%s], reparsed produced [%s]", trunc(x), trunc(y))
		}
	}
	return ""
}

func trunc(s string) string {
	if len(s) > 400 {
		return s[:400] + "…"
	}
	return s
}

func execDefault(in In) vh.Result {
	var ctor reflect.Value
	var target interface{}
	switch in.Root {
	case "IndexMappingImpl":
		ctor, target = reflect.ValueOf(mapping.NewIndexMapping()), new(*mapping.IndexMappingImpl)
	case "DocumentMapping":
		ctor, target = reflect.ValueOf(mapping.NewDocumentMapping()), new(*mapping.DocumentMapping)
	case "FieldMapping":
		ctor, target = reflect.ValueOf(&mapping.FieldMapping{}), new(*mapping.FieldMapping)
	default:
		return vh.Result{Skip: true, Hist: []string{"skip:bad-root"}}
	}
	var uerr error
	if d := vh.Guard(20*time.Second, "json.Unmarshal({})", func() { uerr = json.Unmarshal([]byte("{}"), target) }); d != nil {
		return vh.Result{Direct: d}
	}
	decoded := cf.T("WVNone")
	if uerr == nil {
		decoded = cf.App("WVSome", dump(reflect.ValueOf(target).Elem()))
	}
	return vh.Result{Term: cf.App("WDefault", wstr(in.Root), cf.App("WVSome", dump(ctor)), decoded), Nontrivial: true,
		Hist: []string{"default", "default-root:" + in.Root}}
}

func execDecode(in In) vh.Result {
	t, err := parseJSON([]byte(in.Text))
	if err != nil {
		return vh.Result{Skip: true, Hist: []string{"skip:bad-decode-input"}}
	}
	var target interface{}
	switch in.Root {
	case "IndexMappingImpl":
		target = new(*mapping.IndexMappingImpl)
	case "DocumentMapping":
		target = new(*mapping.DocumentMapping)
	case "FieldMapping":
		target = new(*mapping.FieldMapping)
	default:
		return vh.Result{Skip: true, Hist: []string{"skip:bad-root"}}
	}
	var uerr error
	if d := vh.Guard(20*time.Second, "json.Unmarshal("+in.Root+")", func() { uerr = json.Unmarshal([]byte(in.Text), target) }); d != nil {
		return vh.Result{Direct: d}
	}
	impl := cf.T("WVNone")
	if uerr == nil {
		impl = cf.App("WVSome", dump(reflect.ValueOf(target).Elem()))
	}
	h := "decode:ok"
	if uerr != nil {
		h = "decode:error"
	}
	hist := []string{"decode", h, "decode-root:" + in.Root}
	for _, mu := range strings.Split(in.Label, ",") {
		hist = append(hist, "decode-mut:"+mu)
	}
	return vh.Result{Term: cf.App("WDecode", wstr(in.Root), t.coq(), impl), Nontrivial: true, Hist: hist}
}

// ---------------------------------------------------------------- generation

var fieldTypes = []string{"text", "number", "boolean", "datetime", "geopoint", "geoshape", "IP"}
var builtinAnalyzers = []string{"standard", "keyword", "simple", "web", "en", "fr", "fa"}
var propNames = []string{"a", "b", "c", "when", "num", "loc", "sub", "tags"}

func baseMap() *MapD {
	return &MapD{Default: &DocD{Enabled: true, Dynamic: true}, TypeField: "_type", DefaultType: "_default",
		DefaultAnalyzer: "standard", DefaultDTP: "dateTimeOptional", DefaultField: "_all",
		StoreDynamic: true, IndexDynamic: true, DocValuesDynamic: true}
}

// a mapping with one type "t1" holding one mapped property "a" with one field mapping f
func oneField(f FieldD) *MapD {
	m := baseMap()
	m.Types = []PropD{{"t1", &DocD{Enabled: true, Dynamic: true, Props: []PropD{{"a", &DocD{Enabled: true, Dynamic: true, Fields: []FieldD{f}}}}}}}
	return m
}

func sweepDocs() []json.RawMessage {
	return []json.RawMessage{
		json.RawMessage(`{"_type":"t1","a":"Hello the wide World 42 http://x.y/z","b":"other text","num":3.5,"when":"2020-01-02T03:04:05Z"}`),
		json.RawMessage(`{"_type":"t1","a":["first value","2021-05-06T07:08:09Z",7,true,{"b":"deep","a":"deeper"}],"sub":{"a":"in sub","when":"2020/01/02"},"zzz":null}`),
		json.RawMessage(`{"kind":"t1","a":{"lat":1.5,"lon":2.5},"b":"10.1.2.3","tags":["x","y"],"c":[{"a":"n1","num":1},{"a":"n2","num":2}]}`),
		json.RawMessage(`{"a":"2019-12-31","b":false,"num":"12","loc":{"type":"Point","coordinates":[1,2]}}`),
	}
}

type sweepCase struct {
	label string
	m     *MapD
}

func sweeps() []sweepCase {
	var out []sweepCase
	add := func(label string, m *MapD) { out = append(out, sweepCase{label, m}) }

	// FieldMapping: one option away from an all-off text field, and one option away from an all-on one
	off := FieldD{Type: "text"}
	on := FieldD{Type: "text", Store: true, Index: true, TV: true, InAll: true, DocValues: true, SkipFN: true, GPU: true}
	type fmut struct {
		name string
		f    func(*FieldD)
	}
	fm := []fmut{
		{"name", func(f *FieldD) { f.Name = "alt" }},
		{"analyzer", func(f *FieldD) { f.Analyzer = "keyword" }},
		{"store", func(f *FieldD) { f.Store = !f.Store }},
		{"index", func(f *FieldD) { f.Index = !f.Index }},
		{"include_term_vectors", func(f *FieldD) { f.TV = !f.TV }},
		{"include_in_all", func(f *FieldD) { f.InAll = !f.InAll }},
		{"docvalues", func(f *FieldD) { f.DocValues = !f.DocValues }},
		{"skip_freq_norm", func(f *FieldD) { f.SkipFN = !f.SkipFN }},
		{"gpu", func(f *FieldD) { f.GPU = !f.GPU }},
		{"dims", func(f *FieldD) { f.Dims = 3 }},
		{"similarity", func(f *FieldD) { f.Similarity = "dot_product" }},
		{"vector_index_optimized_for", func(f *FieldD) { f.VecOpt = "latency" }},
		{"date_format", func(f *FieldD) { f.Type = "datetime"; f.DateFormat = "dt_slash" }},
		{"synonym_source", func(f *FieldD) { f.Synonym = "syn_a" }},
	}
	add("field:none-off", oneField(off))
	add("field:none-on", oneField(on))
	for _, base := range []struct {
		n string
		f FieldD
	}{{"off", off}, {"on", on}} {
		for _, mu := range fm {
			f := base.f
			mu.f(&f)
			m := oneField(f)
			if f.DateFormat != "" {
				m.Custom = []string{f.DateFormat}
			}
			if f.Synonym != "" {
				m.Custom = []string{f.Synonym}
			}
			add("field:"+mu.name+"-"+base.n, m)
		}
		for _, t := range fieldTypes {
			f := base.f
			f.Type = t
			add("field:type="+t+"-"+base.n, oneField(f))
		}
	}
	// an empty Type is not valid; two fields on one property, the second named
	add("field:two", func() *MapD {
		m := oneField(on)
		d := m.Types[0].Doc.Props[0].Doc
		d.Fields = append(d.Fields, FieldD{Name: "a_kw", Type: "text", Analyzer: "keyword", Index: true})
		return m
	}())

	// DocumentMapping: one option away from NewDocumentMapping(), at the three places a
	// document mapping can sit (default mapping, type mapping, sub-mapping at depth 1..3)
	type dmut struct {
		name string
		f    func(*DocD)
	}
	dmuts := []dmut{
		{"none", func(d *DocD) {}},
		{"enabled=false", func(d *DocD) { d.Enabled = false }},
		{"dynamic=false", func(d *DocD) { d.Dynamic = false }},
		{"both=false", func(d *DocD) { d.Enabled = false; d.Dynamic = false }},
		{"default_analyzer", func(d *DocD) { d.Analyzer = "keyword" }},
		{"default_synonym_source", func(d *DocD) { d.Synonym = "syn_a" }},
		{"struct_tag_key", func(d *DocD) { d.StructTagKey = "bleve" }},
		{"empty-fields", func(d *DocD) { d.EmptyFields = true }},
		{"empty-props", func(d *DocD) { d.EmptyProps = true }},
		{"one-field", func(d *DocD) { d.Fields = []FieldD{on} }},
		{"one-prop", func(d *DocD) { d.Props = []PropD{{"b", &DocD{Enabled: true, Dynamic: true}}} }},
	}
	for _, mu := range dmuts {
		for place := 0; place < 5; place++ {
			m := baseMap()
			d := &DocD{Enabled: true, Dynamic: true}
			mu.f(d)
			switch place {
			case 0:
				m.Default = d
			case 1:
				m.Types = []PropD{{"t1", d}}
			default:
				// depth place-1 below type t1: t1.a[.sub[.c]]
				path := []string{"a", "sub", "c"}[:place-1]
				cur := d
				for i := len(path) - 1; i >= 0; i-- {
					cur = &DocD{Enabled: true, Dynamic: true, Props: []PropD{{path[i], cur}}}
				}
				m.Types = []PropD{{"t1", cur}}
			}
			if d.Synonym != "" {
				m.Custom = []string{d.Synonym}
			}
			add(fmt.Sprintf("doc:%s@%d", mu.name, place), m)
		}
	}
	// nested is only allowed below the top level
	for depth := 1; depth <= 3; depth++ {
		m := baseMap()
		d := &DocD{Enabled: true, Dynamic: true, Nested: true, Props: []PropD{{"a", &DocD{Enabled: true, Dynamic: true, Fields: []FieldD{on}}}}}
		path := []string{"c", "sub", "a"}[:depth]
		cur := d
		for i := len(path) - 1; i >= 0; i-- {
			cur = &DocD{Enabled: true, Dynamic: true, Props: []PropD{{path[i], cur}}}
		}
		m.Types = []PropD{{"t1", cur}}
		add(fmt.Sprintf("doc:nested@%d", depth+1), m)
	}

	// IndexMappingImpl: one option away from NewIndexMapping()
	type imut struct {
		name string
		f    func(*MapD)
	}
	imuts := []imut{
		{"none", func(m *MapD) {}},
		{"nil-types", func(m *MapD) { m.NilTypes = true }},
		{"type_field", func(m *MapD) { m.TypeField = "kind" }},
		{"type_field-empty", func(m *MapD) { m.TypeField = "" }},
		{"default_type", func(m *MapD) { m.DefaultType = "t1" }},
		{"default_type-empty", func(m *MapD) { m.DefaultType = "" }},
		{"default_analyzer", func(m *MapD) { m.DefaultAnalyzer = "keyword" }},
		{"default_datetime_parser", func(m *MapD) { m.DefaultDTP = "dt_slash"; m.Custom = []string{"dt_slash"} }},
		{"default_datetime_parser-builtin", func(m *MapD) { m.DefaultDTP = "unix_sec" }},
		{"default_synonym_source", func(m *MapD) { m.DefaultSynonym = "syn_a"; m.Custom = []string{"syn_a"} }},
		{"scoring_model-bm25", func(m *MapD) { m.ScoringModel = index.BM25Scoring }},
		{"scoring_model-tfidf", func(m *MapD) { m.ScoringModel = index.TFIDFScoring }},
		{"default_field", func(m *MapD) { m.DefaultField = "a" }},
		{"default_field-empty", func(m *MapD) { m.DefaultField = "" }},
		{"store_dynamic", func(m *MapD) { m.StoreDynamic = false }},
		{"index_dynamic", func(m *MapD) { m.IndexDynamic = false }},
		{"docvalues_dynamic", func(m *MapD) { m.DocValuesDynamic = false }},
		{"all-dynamic-off", func(m *MapD) { m.StoreDynamic, m.IndexDynamic, m.DocValuesDynamic = false, false, false }},
		{"default_mapping-static", func(m *MapD) { m.Default = &DocD{Enabled: true} }},
		{"default_mapping-disabled", func(m *MapD) { m.Default = &DocD{} }},
		{"one-type", func(m *MapD) { m.Types = []PropD{{"t1", &DocD{Enabled: true, Dynamic: true}}} }},
		{"two-types", func(m *MapD) {
			m.Types = []PropD{{"t2", &DocD{Enabled: true}}, {"t1", &DocD{Enabled: true, Dynamic: true}}}
		}},
	}
	for _, n := range poolNames {
		n := n
		imuts = append(imuts, imut{"custom=" + n, func(m *MapD) {
			m.Custom = []string{n}
			switch pool[n].kind {
			case "analyzer":
				m.DefaultAnalyzer = n
			case "date_time_parser":
				m.DefaultDTP = n
			}
		}})
	}
	for _, withType := range []bool{false, true} {
		for _, mu := range imuts {
			m := baseMap()
			if withType {
				m = oneField(on)
			}
			mu.f(m)
			add(fmt.Sprintf("index:%s+%v", mu.name, withType), m)
		}
	}
	return out
}

// genCtx: what the random mapping under construction can refer to
type genCtx struct {
	custom     []string // pool names referred to so far
	an, dt, sy []string // generated analysers / date parsers / synonym sources (MapD.Comps)
}

func rndField(r *vrand.R, gc *genCtx) FieldD {
	f := FieldD{Type: vrand.Pick(r, fieldTypes)}
	f.Store, f.Index, f.TV, f.InAll, f.DocValues, f.SkipFN = r.Bool(), r.Bool(), r.Bool(), r.Bool(), r.Bool(), r.Bool()
	if r.Chance(1, 3) {
		f.Name = vrand.Pick(r, []string{"alt", "other", "a", "x.y"})
	}
	if f.Type == "text" && len(gc.an) > 0 && r.Bool() {
		f.Analyzer = vrand.Pick(r, gc.an)
	} else if f.Type == "text" && r.Bool() {
		if r.Chance(1, 3) {
			f.Analyzer = vrand.Pick(r, []string{"an_words", "an_grams", "an_url"})
			gc.custom = append(gc.custom, f.Analyzer)
		} else {
			f.Analyzer = vrand.Pick(r, builtinAnalyzers)
		}
	}
	if f.Type == "datetime" && len(gc.dt) > 0 && r.Bool() {
		f.DateFormat = vrand.Pick(r, gc.dt)
	} else if f.Type == "datetime" && r.Bool() {
		if r.Bool() {
			f.DateFormat = vrand.Pick(r, []string{"dt_slash", "dt_sane"})
			gc.custom = append(gc.custom, f.DateFormat)
		} else {
			f.DateFormat = vrand.Pick(r, []string{"dateTimeOptional", "unix_sec", "unix_milli"})
		}
	}
	if r.Chance(1, 8) {
		f.Dims = r.Range(1, 2048)
	}
	if r.Chance(1, 8) {
		f.Similarity = vrand.Pick(r, []string{"l2_norm", "dot_product", "cosine"})
	}
	if r.Chance(1, 10) {
		f.VecOpt = vrand.Pick(r, []string{"recall", "latency", "memory-efficient"})
	}
	if r.Chance(1, 10) {
		f.GPU = true
	}
	if len(gc.sy) > 0 && r.Chance(1, 3) {
		f.Synonym = vrand.Pick(r, gc.sy)
	} else if r.Chance(1, 8) {
		f.Synonym = vrand.Pick(r, []string{"syn_a", "syn_b"})
		gc.custom = append(gc.custom, f.Synonym)
	}
	return f
}

func rndDoc(r *vrand.R, depth int, gc *genCtx) *DocD {
	d := &DocD{Enabled: !r.Chance(1, 6), Dynamic: r.Bool()}
	if len(gc.an) > 0 && r.Chance(1, 4) {
		d.Analyzer = vrand.Pick(r, gc.an)
	} else if r.Chance(1, 3) {
		if r.Chance(1, 3) {
			d.Analyzer = vrand.Pick(r, []string{"an_words", "an_grams"})
			gc.custom = append(gc.custom, d.Analyzer)
		} else {
			d.Analyzer = vrand.Pick(r, builtinAnalyzers)
		}
	}
	if depth > 0 && r.Chance(1, 4) {
		d.Nested = true
	}
	if r.Chance(1, 10) {
		d.Synonym = vrand.Pick(r, []string{"syn_a", "syn_b"})
		gc.custom = append(gc.custom, d.Synonym)
	}
	if r.Chance(1, 10) {
		d.StructTagKey = vrand.Pick(r, []string{"bleve", "json", "x"})
	}
	if r.Chance(1, 12) {
		d.EmptyFields = true
	}
	if r.Chance(1, 12) {
		d.EmptyProps = true
	}
	for _, name := range propNames {
		switch k := r.Intn(10); {
		case k == 0 && depth < 3:
			d.Props = append(d.Props, PropD{name, rndDoc(r, depth+1, gc)})
		case k == 1 || k == 2:
			sub := &DocD{Enabled: !r.Chance(1, 10), Dynamic: r.Bool()}
			for i := 1 + r.Intn(5)/3; i > 0; i-- {
				sub.Fields = append(sub.Fields, rndField(r, gc))
			}
			d.Props = append(d.Props, PropD{name, sub})
		}
	}
	if r.Chance(1, 5) {
		// fields directly on a document mapping (used when the value at this path is a scalar)
		d.Fields = append(d.Fields, rndField(r, gc))
	}
	return d
}

func rndMap(r *vrand.R) *MapD {
	m := baseMap()
	gc := &genCtx{}
	// a generated custom analysis section: each kind present or absent independently, names fresh
	// or shadowing built-in ones
	if r.Bool() {
		var present [7]bool
		for k := range present {
			present[k] = r.Chance(2, 5)
		}
		m.Comps = genComps(r, present, r.Intn(3), 2)
		gc.an, gc.dt, gc.sy = compNames(m.Comps, "analyzer"), compNames(m.Comps, "date_time_parser"), compNames(m.Comps, "synonym_source")
	}
	m.Default = rndDoc(r, 0, gc)
	m.Default.Nested = false
	for _, tn := range []string{"t1", "t2", "_default", "weird type/é"} {
		if r.Chance(1, 4) {
			d := rndDoc(r, 0, gc)
			d.Nested = false
			m.Types = append(m.Types, PropD{tn, d})
		}
	}
	if len(m.Types) == 0 && r.Chance(1, 4) {
		m.NilTypes = true
	}
	m.TypeField = vrand.Pick(r, []string{"_type", "kind", "sub.a", ""})
	m.DefaultType = vrand.Pick(r, []string{"_default", "t1", "t2", ""})
	if len(gc.an) > 0 && r.Chance(1, 3) {
		m.DefaultAnalyzer = vrand.Pick(r, gc.an)
	} else if r.Chance(1, 4) {
		m.DefaultAnalyzer = vrand.Pick(r, []string{"an_words", "an_grams", "an_url"})
		gc.custom = append(gc.custom, m.DefaultAnalyzer)
	} else {
		m.DefaultAnalyzer = vrand.Pick(r, builtinAnalyzers)
	}
	if len(gc.dt) > 0 && r.Chance(1, 3) {
		m.DefaultDTP = vrand.Pick(r, gc.dt)
	} else if r.Chance(1, 4) {
		m.DefaultDTP = vrand.Pick(r, []string{"dt_slash", "dt_sane"})
		gc.custom = append(gc.custom, m.DefaultDTP)
	} else if r.Chance(1, 4) {
		m.DefaultDTP = vrand.Pick(r, []string{"unix_sec", "unix_nano"})
	}
	if r.Chance(1, 8) {
		m.DefaultSynonym = "syn_a"
		gc.custom = append(gc.custom, "syn_a")
	}
	m.ScoringModel = vrand.Pick(r, []string{"", "", index.BM25Scoring, index.TFIDFScoring})
	m.DefaultField = vrand.Pick(r, []string{"_all", "_all", "a", ""})
	m.StoreDynamic, m.IndexDynamic, m.DocValuesDynamic = r.Bool(), r.Bool(), r.Bool()
	// unreferenced components too
	for i := r.Intn(4); i > 0; i-- {
		gc.custom = append(gc.custom, vrand.Pick(r, poolNames))
	}
	custom := gc.custom
	sort.Strings(custom)
	for i, c := range custom {
		if i == 0 || custom[i-1] != c {
			m.Custom = append(m.Custom, c)
		}
	}
	return m
}

func rndScalar(r *vrand.R) interface{} {
	switch r.Intn(12) {
	case 0:
		return float64(r.Range(-400, 400)) / 4
	case 1:
		return r.Bool()
	case 2:
		return vrand.Pick(r, []string{"2020-01-02T03:04:05Z", "2021-12-31T23:59:59.123456789+05:30", "2020-01-02", "2020/01/02", "31-12-2019 08:15", "2020-01-02 03:04:05", "1577934245"})
	case 3:
		return nil
	case 4:
		return vrand.Pick(r, []string{"10.0.0.1", "::1", "2001:db8::ff00:42:8329"})
	case 5:
		return vrand.Pick(r, []string{"1.5,2.5", "drm3btev3e86"})
	default:
		return vrand.Pick(r, []string{"hello world", "The quick brown FOO jumped over the bar", richText, probeTexts[1], "x", "", "<b>Bold</b> text 123 here http://a.b/c?d=1", "naïve café — déjà vu", "t1"})
	}
}

func rndVal(r *vrand.R, d *DocD, depth int) interface{} {
	switch k := r.Intn(10); {
	case k <= 2 && depth < 4:
		return rndObj(r, d, depth)
	case k == 3 && depth < 4:
		var a []interface{}
		for i := r.Intn(4); i > 0; i-- {
			a = append(a, rndVal(r, d, depth+1))
		}
		if a == nil {
			a = []interface{}{}
		}
		return a
	case k == 4:
		return map[string]interface{}{"lat": float64(r.Range(-89, 89)), "lon": float64(r.Range(-179, 179))}
	case k == 5 && r.Bool():
		return map[string]interface{}{"type": "Point", "coordinates": []interface{}{float64(r.Range(-100, 100)), float64(r.Range(-80, 80))}}
	}
	return rndScalar(r)
}

// an object whose keys are mostly the names the mapping knows at this level
func rndObj(r *vrand.R, d *DocD, depth int) map[string]interface{} {
	o := map[string]interface{}{}
	sub := func(name string) *DocD {
		if d != nil {
			for _, p := range d.Props {
				if p.Name == name {
					return p.Doc
				}
			}
		}
		return nil
	}
	var names []string
	if d != nil {
		for _, p := range d.Props {
			names = append(names, p.Name)
		}
	}
	names = append(names, "zzz", vrand.Pick(r, propNames), vrand.Pick(r, propNames))
	for _, n := range names {
		if r.Chance(3, 4) {
			o[n] = rndVal(r, sub(n), depth+1)
		}
	}
	return o
}

func rndDocsFor(r *vrand.R, m *MapD, n int) []json.RawMessage {
	var out []json.RawMessage
	for i := 0; i < n; i++ {
		d := m.Default
		typ := ""
		if len(m.Types) > 0 && r.Chance(2, 3) {
			t := vrand.Pick(r, m.Types)
			d, typ = t.Doc, t.Name
		}
		o := rndObj(r, d, 0)
		if typ != "" && m.TypeField != "" && !strings.Contains(m.TypeField, ".") && r.Chance(4, 5) {
			o[m.TypeField] = typ
		}
		b, err := json.Marshal(o)
		if err == nil {
			out = append(out, b)
		}
	}
	return out
}

// ---- adversarial decode inputs: mutations of a real mapping's JSON

func collectObjs(v *jv, under string, out *[]*jv, tags *[]string) {
	switch v.k {
	case 'o':
		*out = append(*out, v)
		*tags = append(*tags, under)
		for i, e := range v.vals {
			if v.keys[i] == "analysis" {
				continue // the analysis section is built into components while decoding; not mutated
			}
			collectObjs(e, v.keys[i], out, tags)
		}
	case 'a':
		for _, e := range v.arr {
			collectObjs(e, under, out, tags)
		}
	}
}

func cloneJV(v *jv) *jv {
	c := *v
	c.arr = nil
	c.keys = append([]string(nil), v.keys...)
	c.vals = nil
	for _, e := range v.arr {
		c.arr = append(c.arr, cloneJV(e))
	}
	for _, e := range v.vals {
		c.vals = append(c.vals, cloneJV(e))
	}
	return &c
}

func genDecode(r *vrand.R, m *MapD) (In, bool) {
	im, err := build(m)
	if err != nil || im.Validate() != nil {
		return In{}, false
	}
	b, err := json.Marshal(im)
	if err != nil {
		return In{}, false
	}
	root, err := parseJSON(b)
	if err != nil {
		return In{}, false
	}
	rootName := "IndexMappingImpl"
	// sometimes decode a DocumentMapping / FieldMapping subtree on its own
	var objs []*jv
	var tags []string
	collectObjs(root, "", &objs, &tags)
	if r.Chance(1, 3) {
		var cands []int
		for i, t := range tags {
			if i > 0 && t != "types" && t != "properties" {
				cands = append(cands, i)
			}
		}
		if len(cands) > 0 {
			i := vrand.Pick(r, cands)
			root = cloneJV(objs[i])
			if tags[i] == "fields" {
				rootName = "FieldMapping"
			} else {
				rootName = "DocumentMapping"
			}
			objs, tags = nil, nil
			collectObjs(root, "", &objs, &tags)
		}
	}
	label := ""
	nmut := r.Range(1, 3)
	for k := 0; k < nmut; k++ {
		o := vrand.Pick(r, objs)
		switch mu := r.Intn(8); {
		case mu == 0 && len(o.keys) > 0: // null member
			i := r.Intn(len(o.keys))
			if o.keys[i] == "analysis" {
				continue
			}
			o.vals[i] = &jv{k: 'n'}
			label += "null,"
		case mu == 1 && len(o.keys) > 0: // repeated key, earlier occurrence different
			i := r.Intn(len(o.keys))
			if o.keys[i] == "analysis" {
				continue
			}
			var other *jv
			switch o.vals[i].k {
			case 'b':
				other = &jv{k: 'b', b: !o.vals[i].b}
			case 's':
				other = &jv{k: 's', s: o.vals[i].s + "_x"}
			case 'i':
				other = &jv{k: 'i', num: "7"}
			default:
				other = cloneJV(o.vals[i])
				if other.k == 'o' && len(other.keys) > 1 {
					other.keys, other.vals = other.keys[:1], other.vals[:1]
				}
			}
			pos := r.Intn(len(o.keys) + 1)
			o.keys = append(o.keys[:pos], append([]string{o.keys[i]}, o.keys[pos:]...)...)
			o.vals = append(o.vals[:pos], append([]*jv{other}, o.vals[pos:]...)...)
			label += "dup,"
		case mu == 2: // unknown key
			o.keys = append(o.keys, vrand.Pick(r, []string{"Store", "unknown", "DYNAMIC", "enabled ", ""}))
			o.vals = append(o.vals, &jv{k: 'b', b: true})
			label += "unknown,"
		case mu == 3 && len(o.keys) > 1: // member order
			p := make([]int, len(o.keys))
			for i := range p {
				p[i] = i
			}
			vrand.Shuffle(r, p)
			ks, vs := make([]string, len(p)), make([]*jv, len(p))
			for i, j := range p {
				ks[i], vs[i] = o.keys[j], o.vals[j]
			}
			o.keys, o.vals = ks, vs
			label += "order,"
		case mu == 4 && len(o.keys) > 0: // wrong JSON type / number shape
			i := r.Intn(len(o.keys))
			if o.keys[i] == "analysis" {
				continue
			}
			o.vals[i] = vrand.Pick(r, []*jv{{k: 's', s: "yes"}, {k: 'd', num: "1.5"}, {k: 'i', num: "12"}, {k: 'd', num: "1e2"},
				{k: 'i', num: "9223372036854775808"}, {k: 'b', b: true}, {k: 'a'}, {k: 'o'}})
			label += "type,"
		case mu == 5 && len(o.keys) > 0: // drop a member
			i := r.Intn(len(o.keys))
			o.keys = append(o.keys[:i], o.keys[i+1:]...)
			o.vals = append(o.vals[:i], o.vals[i+1:]...)
			label += "drop,"
		case mu == 6: // a known key the writer never emits at its zero value
			k := vrand.Pick(r, []string{"dims", "store", "nested", "fields", "properties", "types", "scoring_model", "default_mapping", "name"})
			o.keys = append(o.keys, k)
			o.vals = append(o.vals, vrand.Pick(r, []*jv{{k: 'n'}, {k: 'i', num: "0"}, {k: 'b'}, {k: 's'}, {k: 'a'}, {k: 'o'}, {k: 'i', num: "-5"}}))
			label += "zero,"
		default:
			label += "none,"
		}
	}
	var sb strings.Builder
	root.text(&sb)
	return In{Kind: "decode", Label: strings.TrimSuffix(label, ","), Root: rootName, Text: sb.String()}, true
}

func gen(f vh.Flags, r *vrand.R, emit func(In)) {
	// 0. an absent key means the constructor's default
	for _, root := range []string{"IndexMappingImpl", "DocumentMapping", "FieldMapping"} {
		emit(In{Kind: "default", Root: root})
	}
	// 1. systematic sweep: every option of every level, one at a time
	for _, s := range sweeps() {
		emit(In{Kind: "round", Label: s.label, M: s.m, StdDocs: true, StructDoc: 2, Reopen: true})
	}
	// 1b. custom analysis sections: every subset of the seven kinds of component (each kind present
	// or absent independently), once with fresh names and once with names that shadow built-in
	// registry names which the stock analysers resolve through the mapping's cache; the documents
	// send text with the affected tokens through every such analyser
	for round := f.N(1, 12); round > 0; round-- {
		for mask := 0; mask < 128; mask++ {
			for naming := 0; naming < 2; naming++ {
				rr := r.Fork()
				var present [7]bool
				for k := range present {
					present[k] = mask&(1<<k) != 0
				}
				comps := genComps(rr, present, naming, 2)
				stock := []int{0, 1, 2, 3, 4, 5}
				vrand.Shuffle(rr, stock)
				emit(In{Kind: "round", Label: fmt.Sprintf("comps:%07b-%s", mask, []string{"fresh", "shadow"}[naming]),
					M: compsMap(comps, stock[:2]), Docs: compsDocs(comps), Reopen: true})
			}
		}
	}
	// 2. random mapping trees with random documents
	n := f.N(200, 12000)
	for i := 0; i < n; i++ {
		rr := r.Fork()
		m := rndMap(rr)
		in := In{Kind: "round", M: m, Docs: rndDocsFor(rr, m, rr.Range(3, 5)), Reopen: rr.Bool()}
		if rr.Chance(1, 4) {
			in.StructDoc = rr.Range(1, 3)
		}
		emit(in)
	}
	// 3. the decoders on JSON no writer produced
	nd := f.N(150, 8000)
	for i := 0; i < nd; i++ {
		rr := r.Fork()
		var m *MapD
		if rr.Chance(1, 3) {
			m = vrand.Pick(rr, sweeps()).m
		} else {
			m = rndMap(rr)
		}
		if in, ok := genDecode(rr, m); ok {
			emit(in)
		}
	}
}

func main() {
	initVocab()
	vh.Main(vh.Config{
		Property:  "C16",
		Imports:   []string{"Common.Bytes", "Codec.Json", "Codec.StructCodec", "Codec.MappingTables", "Codec.MappingCorr"},
		CaseType:  "MappingCorr.wcase",
		CheckFn:   "MappingCorr.wcheck",
		ExplainFn: "MappingCorr.wexplain",
		Preamble:  vocabPreamble,
		Rule: "round: a systematic sweep (every option of FieldMapping / DocumentMapping / IndexMappingImpl set alone to a non-default value, " +
			"at every place a document mapping can sit) plus random mapping trees (type mappings, sub-mappings to depth 3, all field options, " +
			"custom analysis components from a pool of 17) built through the bleve API, each with 3-5 documents (JSON values and Go structs) and a scorch " +
			"index create/close/open; custom analysis sections: every subset of the 7 kinds of component (char filters, tokenizers, token maps, token filters, " +
			"analyzers, date-time parsers, synonym sources; each kind present or absent independently), once with fresh names and once with names that shadow " +
			"built-in registry names the stock analysers resolve through the mapping's cache (stop_en, to_lower, unicode, standard, dateTimeOptional, ...), " +
			"component types and cross-references drawn at random, also mixed into half of the random trees; BEHAVIOUR (every stock and custom analyser / " +
			"date parser / synonym source by name on fixed texts with the affected tokens, and MapDocument of every document) must be identical on the original " +
			"object, its JSON round trip (decoded three times: Go map order) and the mapping of the reopened index; " +
			"non-trivial = the mapping's JSON differs from NewIndexMapping()'s, distinct by JSON text. " +
			"decode: real mapping JSON with 1-3 mutations (null member, repeated key, unknown key, member order, wrong type, dropped member, " +
			"explicit zero) decoded as IndexMappingImpl / DocumentMapping / FieldMapping; all non-trivial. " +
			"default: \"{}\" decoded as each of the three against the constructor's value.",
		ShardSize: 34,
		Workers:   8,
	}, gen, exec)
}
