// C16 harness, custom-analysis dimension: generated custom analysis sections (every kind of
// component present/absent independently; names that are fresh or that shadow a name of the
// built-in registry which stock analysers resolve through the mapping's own cache), and the
// behaviour probe (analysers, date-time parsers, synonym sources by name) that is compared
// between the original mapping object, its JSON round trip and the mapping of a reopened index.
package main

import (
	"encoding/json"
	"fmt"
	"sort"
	"strings"

	"github.com/blevesearch/bleve/v2/analysis"
	"github.com/blevesearch/bleve/v2/mapping"
	"github.com/blevesearch/bleve/v2/registry"

	"verifharness/internal/vrand"
)

// CompD is one custom analysis component, added through the Add* API in list order.
type CompD struct {
	Kind   string                 `json:"kind"`
	Name   string                 `json:"name"`
	Config map[string]interface{} `json:"config"`
}

// the order of customAnalysis.registerAll; references only go to earlier kinds (or, for the
// exception tokenizer, to another tokenizer)
var compKinds = []string{"char_filter", "tokenizer", "token_map", "token_filter", "analyzer", "date_time_parser", "synonym_source"}

// names of the built-in registry that stock components look up BY NAME through the mapping's
// cache (standard/en/fr/fa/web/simple/keyword and their parts), plus a few nobody looks up
var builtinNames = map[string][]string{
	"char_filter":      {"zero_width_spaces", "html", "asciifolding"},
	"tokenizer":        {"unicode", "letter", "single", "web", "whitespace"},
	"token_map":        {"stop_en", "stop_fr", "articles_fr", "stop_fa"},
	"token_filter":     {"to_lower", "stop_en", "possessive_en", "stemmer_porter", "elision_fr", "stop_fr", "stemmer_fr_light"},
	"analyzer":         {"standard", "en", "fr", "fa", "web", "simple", "keyword"},
	"date_time_parser": {"dateTimeOptional", "unix_sec", "unix_milli"},
	"synonym_source":   {}, // no built-in synonym sources
}

var freshPrefix = map[string]string{"char_filter": "x_cf", "tokenizer": "x_tk", "token_map": "x_tm", "token_filter": "x_tf",
	"analyzer": "x_an", "date_time_parser": "x_dt", "synonym_source": "x_syn"}

// stock analysers every probe runs (they consume the shadowable names)
var probeAnalyzers = []string{"standard", "en", "fr", "fa", "web", "simple", "keyword"}
var probeDateParsers = []string{"dateTimeOptional", "unix_sec", "unix_milli"}

// words of richText that the built-in lists treat one way and a custom list can treat the other way
var mapWords = []string{"the", "hello", "world", "quick", "foo", "bar", "l", "avion", "john", "brown", "over", "and", "wifi"}

// text with tokens whose treatment each kind of component changes: English / French stop words,
// possessive, elision, upper case, digits, markup, a zero-width non-joiner, URL, accents, stems
const richText = "The Quick brown FOO jumped over John's l'avion and the hello world 42 <b>Bold</b> wi\u200cfi http://a.b/c?d=1 na\u00efve caf\u00e9 running quickly"

var probeTexts = []string{richText, "the and of hello le la qu'il 2020/01/02 Stopping-by woods_on a snowy evening"}
var probeDates = []string{"2020-01-02T03:04:05Z", "2020/01/02", "31-12-2019 08:15", "2020-01-02 03:04:05", "1577934245", "2020-01-02", "1577934245123"}

type compGen struct {
	r     *vrand.R
	names map[string][]string // kind -> custom names defined so far
	out   []CompD
	used  map[string]bool // kind/name
}

// ref: a name of the given kind for a reference: a custom one defined earlier (preferred) or a built-in
func (g *compGen) ref(kind string) string {
	if c := g.names[kind]; len(c) > 0 && g.r.Chance(2, 3) {
		return vrand.Pick(g.r, c)
	}
	if b := builtinNames[kind]; len(b) > 0 {
		return vrand.Pick(g.r, b)
	}
	if c := g.names[kind]; len(c) > 0 {
		return vrand.Pick(g.r, c)
	}
	return ""
}

func (g *compGen) refs(kind string, max int) []interface{} {
	out := []interface{}{}
	for i := g.r.Intn(max + 1); i > 0; i-- {
		if n := g.ref(kind); n != "" {
			out = append(out, n)
		}
	}
	return out
}

func (g *compGen) words() []interface{} {
	var out []interface{}
	for _, w := range mapWords {
		if g.r.Chance(1, 3) {
			out = append(out, w)
		}
	}
	if out == nil {
		out = []interface{}{"hello"}
	}
	return out
}

func (g *compGen) config(kind string) map[string]interface{} {
	r := g.r
	switch kind {
	case "char_filter":
		return vrand.Pick(r, []map[string]interface{}{
			{"type": "html"},
			{"type": "regexp", "regexp": "[0-9]+", "replace": "#"},
			{"type": "regexp", "regexp": "'", "replace": " "},
			{"type": "asciifolding"},
			{"type": "zero_width_spaces"},
		})
	case "tokenizer":
		switch r.Intn(7) {
		case 0:
			return map[string]interface{}{"type": "regexp", "regexp": "[a-zA-Z#]+"}
		case 1:
			return map[string]interface{}{"type": "whitespace"}
		case 2:
			return map[string]interface{}{"type": "letter"}
		case 3:
			return map[string]interface{}{"type": "single"}
		case 4:
			return map[string]interface{}{"type": "unicode"}
		default:
			return map[string]interface{}{"type": "exception", "exceptions": []interface{}{"[a-z]+://\\S+"}, "tokenizer": g.ref("tokenizer")}
		}
	case "token_map":
		return map[string]interface{}{"type": "custom", "tokens": g.words()}
	case "token_filter":
		switch r.Intn(14) {
		case 0, 1, 2:
			return map[string]interface{}{"type": "stop_tokens", "stop_token_map": g.ref("token_map")}
		case 3:
			return map[string]interface{}{"type": "ngram", "min": 2.0, "max": 3.0}
		case 4:
			return map[string]interface{}{"type": "edge_ngram", "back": r.Bool(), "min": 1.0, "max": 3.0}
		case 5:
			return map[string]interface{}{"type": "length", "min": 2.0, "max": 6.0}
		case 6:
			return map[string]interface{}{"type": "truncate_token", "length": 4.0}
		case 7:
			return map[string]interface{}{"type": "shingle", "min": 2.0, "max": 2.0, "output_original": r.Bool(), "separator": " ", "filler": "_"}
		case 8:
			return map[string]interface{}{"type": "elision", "articles_token_map": g.ref("token_map")}
		case 9:
			return map[string]interface{}{"type": "keyword_marker", "keywords_token_map": g.ref("token_map")}
		case 10:
			return map[string]interface{}{"type": "dict_compound", "dict_token_map": g.ref("token_map"), "min_word_size": 4.0,
				"min_subword_size": 2.0, "max_subword_size": 8.0, "only_longest_match": r.Bool()}
		case 11:
			return map[string]interface{}{"type": "normalize_unicode", "form": vrand.Pick(r, []string{"nfc", "nfd", "nfkc", "nfkd"})}
		default:
			return map[string]interface{}{"type": vrand.Pick(r, []string{"to_lower", "reverse", "unique", "stemmer_porter", "possessive_en", "apostrophe"})}
		}
	case "analyzer":
		cfg := map[string]interface{}{"type": "custom", "tokenizer": g.ref("tokenizer"), "token_filters": g.refs("token_filter", 3)}
		if cfs := g.refs("char_filter", 2); len(cfs) > 0 || r.Bool() {
			cfg["char_filters"] = cfs
		}
		return cfg
	case "date_time_parser":
		return vrand.Pick(r, []map[string]interface{}{
			{"type": "flexiblego", "layouts": []interface{}{"2006/01/02", "02-01-2006 15:04"}},
			{"type": "sanitizedgo", "layouts": []interface{}{"2006-01-02 15:04:05", "2006/01/02"}},
			{"type": "isostyle", "layouts": []interface{}{"yyyy/MM/dd", "dd-MM-yyyy HH:mm"}},
			{"type": "percentstyle", "layouts": []interface{}{"%Y/%m/%d", "%d-%m-%Y %H:%M"}},
		})
	default: // synonym_source
		return map[string]interface{}{"collection": vrand.Pick(r, []string{"coll_a", "coll_b"}), "analyzer": g.ref("analyzer")}
	}
}

// naming: 0 fresh, 1 shadow a built-in name where the kind has any, 2 either
func (g *compGen) add(kind string, naming int) {
	name := ""
	b := builtinNames[kind]
	if len(b) > 0 && (naming == 1 || (naming == 2 && g.r.Bool())) {
		name = vrand.Pick(g.r, b)
	} else {
		name = fmt.Sprintf("%s%d", freshPrefix[kind], len(g.names[kind])+1)
	}
	if g.used[kind+"/"+name] {
		return
	}
	cfg := g.config(kind) // references see only the components defined before this one
	g.used[kind+"/"+name] = true
	g.names[kind] = append(g.names[kind], name)
	g.out = append(g.out, CompD{Kind: kind, Name: name, Config: cfg})
}

// genComps: one custom analysis section. present[k]: kind compKinds[k] has components.
func genComps(r *vrand.R, present [7]bool, naming int, maxPerKind int) []CompD {
	g := &compGen{r: r, names: map[string][]string{}, used: map[string]bool{}}
	for k, kind := range compKinds {
		if !present[k] {
			continue
		}
		for n := r.Range(1, maxPerKind); n > 0; n-- {
			g.add(kind, naming)
		}
	}
	return g.out
}

func compNames(cs []CompD, kind string) []string {
	var out []string
	for _, c := range cs {
		if c.Kind == kind {
			out = append(out, c.Name)
		}
	}
	return out
}

func deepCopy(cfg map[string]interface{}) map[string]interface{} {
	b, err := json.Marshal(cfg)
	if err != nil {
		panic(err)
	}
	var out map[string]interface{}
	if err := json.Unmarshal(b, &out); err != nil {
		panic(err)
	}
	return out
}

func addComp(m *mapping.IndexMappingImpl, c CompD) error {
	cfg := deepCopy(c.Config) // the mapping keeps the map it is given
	switch c.Kind {
	case "char_filter":
		return m.AddCustomCharFilter(c.Name, cfg)
	case "tokenizer":
		return m.AddCustomTokenizer(c.Name, cfg)
	case "token_map":
		return m.AddCustomTokenMap(c.Name, cfg)
	case "token_filter":
		return m.AddCustomTokenFilter(c.Name, cfg)
	case "analyzer":
		return m.AddCustomAnalyzer(c.Name, cfg)
	case "date_time_parser":
		return m.AddCustomDateTimeParser(c.Name, cfg)
	case "synonym_source":
		return m.AddSynonymSource(c.Name, cfg)
	}
	return fmt.Errorf("unknown component kind %q", c.Kind)
}

// the stock analysers that look their parts up by name, and the property that uses each
var stockFields = [][2]string{{"b", "en"}, {"c", "fr"}, {"tags", "fa"}, {"loc", "web"}, {"sub", "simple"}, {"num", "keyword"}}

// a mapping whose fields send the same rich text through the default analyser, through `stock`
// of the stock analysers that look their parts up by name (the probe runs all of them on every
// case), and through the custom analysers, date parsers and synonym sources of comps
func compsMap(comps []CompD, stock []int) *MapD {
	m := baseMap()
	m.Comps = comps
	text := func(an string) FieldD {
		return FieldD{Type: "text", Analyzer: an, Index: true, Store: true, InAll: true, TV: true}
	}
	prop := func(name string, f FieldD) PropD {
		return PropD{name, &DocD{Enabled: true, Dynamic: true, Fields: []FieldD{f}}}
	}
	fa := text("")
	if s := compNames(comps, "synonym_source"); len(s) > 0 {
		fa.Synonym = s[0]
	}
	props := []PropD{prop("a", fa)}
	for _, i := range stock {
		props = append(props, prop(stockFields[i][0], text(stockFields[i][1])))
	}
	when := FieldD{Type: "datetime", Index: true, Store: true}
	if d := compNames(comps, "date_time_parser"); len(d) > 0 {
		when.DateFormat = d[0]
	}
	props = append(props, prop("when", when))
	t1 := &DocD{Enabled: true, Dynamic: true, Props: props}
	for i, an := range compNames(comps, "analyzer") {
		t1.Props = append(t1.Props, prop(fmt.Sprintf("an%d", i), text(an)))
	}
	m.Types = []PropD{{"t1", t1}}
	return m
}

func compsDocs(comps []CompD) []json.RawMessage {
	o := map[string]interface{}{"_type": "t1", "zzz": richText, "when": "2020/01/02"}
	for _, k := range []string{"a", "b", "c", "tags", "loc", "sub", "num"} {
		o[k] = richText
	}
	for i := range compNames(comps, "analyzer") {
		o[fmt.Sprintf("an%d", i)] = richText
	}
	b1, _ := json.Marshal(o)
	// no type: the default mapping (dynamic fields, default analyser and date parser)
	b2, _ := json.Marshal(map[string]interface{}{"a": probeTexts[1], "when": "2020-01-02T03:04:05Z", "b": []interface{}{richText, "31-12-2019 08:15"}})
	return []json.RawMessage{b1, b2}
}

// ---------------------------------------------------------------- behaviour probe

func customNames(md *MapD, kind string) []string {
	var out []string
	for _, n := range closure(md.Custom) {
		if pool[n].kind == kind {
			out = append(out, n)
		}
	}
	return append(out, compNames(md.Comps, kind)...)
}

func uniq(xs []string) []string {
	seen := map[string]bool{}
	var out []string
	for _, x := range xs {
		if !seen[x] {
			seen[x] = true
			out = append(out, x)
		}
	}
	return out
}

// probe: what the mapping's analysers / date parsers / synonym sources DO, by name: every stock
// analyser that resolves its parts by name, every custom one, on fixed texts.
func probe(m mapping.IndexMapping, md *MapD) []string {
	var out []string
	for _, an := range uniq(append(append([]string{}, probeAnalyzers...), customNames(md, "analyzer")...)) {
		a := m.AnalyzerNamed(an)
		if a == nil {
			out = append(out, "analyzer "+an+": none")
			continue
		}
		for ti, txt := range probeTexts {
			var sb strings.Builder
			for _, t := range a.Analyze([]byte(txt)) {
				fmt.Fprintf(&sb, " %x@%d:%d-%d/%d", t.Term, t.Position, t.Start, t.End, t.Type)
				if t.KeyWord {
					sb.WriteString("k")
				}
			}
			out = append(out, fmt.Sprintf("analyzer %s text %d:%s", an, ti, sb.String()))
		}
	}
	for _, dn := range uniq(append(append([]string{}, probeDateParsers...), customNames(md, "date_time_parser")...)) {
		p := m.DateTimeParserNamed(dn)
		if p == nil {
			out = append(out, "date parser "+dn+": none")
			continue
		}
		var sb strings.Builder
		for _, s := range probeDates {
			t, layout, err := p.ParseDateTime(s)
			if err != nil {
				sb.WriteString(" err")
			} else {
				fmt.Fprintf(&sb, " %d/%q", t.UnixNano(), layout)
			}
		}
		out = append(out, "date parser "+dn+":"+sb.String())
	}
	if im, ok := m.(*mapping.IndexMappingImpl); ok {
		var syn []string
		_ = im.SynonymSourceVisitor(func(name string, s analysis.SynonymSource) error {
			syn = append(syn, fmt.Sprintf("synonym source %s: collection=%q analyzer=%q", name, s.Collection(), s.Analyzer()))
			return nil
		})
		sort.Strings(syn)
		out = append(out, syn...)
		out = append(out, fmt.Sprintf("synonym count %d", im.SynonymCount()))
	} else {
		out = append(out, fmt.Sprintf("mapping is a %T", m))
	}
	return out
}

// tokenizerShadowOrder: the mapping has a custom `exception` tokenizer whose remaining tokenizer
// is named like a registered built-in tokenizer AND defined as a custom tokenizer of the same
// mapping.  Decoding such a mapping used to depend on Go's map iteration order (finding
// custom-tokenizer-shadow-order, fixed in /repo); the shape is only counted in the histogram and
// judged like every other input.
func tokenizerShadowOrder(md *MapD) bool {
	custom := map[string]bool{}
	for _, n := range customNames(md, "tokenizer") {
		custom[n] = true
	}
	builtin := map[string]bool{}
	_, inst := registry.TokenizerTypesAndInstances()
	for _, n := range inst {
		builtin[n] = true
	}
	for _, c := range md.Comps {
		if c.Kind != "tokenizer" || c.Config["type"] != "exception" {
			continue
		}
		if n, ok := c.Config["tokenizer"].(string); ok && custom[n] && builtin[n] {
			return true
		}
	}
	return false
}
