// C19 correspondence harness: every registered analysis component (tokenizers, token filters,
// char filters, analyzers) on arbitrary byte strings under a panic/hang watchdog, the real
// output streams handed to the Coq contract checkers and — for the transcribed components —
// compared token by token with the model; the fragmenter, the formatters and
// Index.Search highlighting against the fragment model and the faithfulness checker.
//
// The harness never decides whether an output is right: it reports what the implementation
// returned (plus tables of Go *stdlib* predicates — unicode.IsLetter/IsSpace/Is(Mn|Me|Mc) —
// for the runes occurring in the case, which the model takes as parameters).  Buckets named
// "obs:*" in the histogram are measurements of the observed outputs, not verdicts.
package core

import (
	"fmt"
	"os"
	"sort"
	"strings"
	"sync"
	"time"
	"unicode"
	"unicode/utf8"

	"github.com/blevesearch/bleve/v2"
	"github.com/blevesearch/bleve/v2/analysis"
	_ "github.com/blevesearch/bleve/v2/analysis/token/hierarchy"
	_ "github.com/blevesearch/bleve/v2/analysis/token/porter"
	_ "github.com/blevesearch/bleve/v2/analysis/token/snowball"
	_ "github.com/blevesearch/bleve/v2/analysis/tokenizer/character"
	_ "github.com/blevesearch/bleve/v2/analysis/tokenizer/letter"
	_ "github.com/blevesearch/bleve/v2/config"
	"github.com/blevesearch/bleve/v2/index/scorch"
	"github.com/blevesearch/bleve/v2/mapping"
	"github.com/blevesearch/bleve/v2/registry"
	"github.com/blevesearch/bleve/v2/search/highlight"
	ansiFmt "github.com/blevesearch/bleve/v2/search/highlight/format/ansi"
	htmlFmt "github.com/blevesearch/bleve/v2/search/highlight/format/html"
	simpleFrag "github.com/blevesearch/bleve/v2/search/highlight/fragmenter/simple"
	"github.com/blevesearch/bleve/v2/search/query"

	cf "verifharness/internal/coqfmt"
	"verifharness/internal/vh"
	"verifharness/internal/vrand"
)

type In struct {
	Kind  string   `json:"kind"`
	Comp  string   `json:"comp,omitempty"`  // component instance (see setup)
	Tok   string   `json:"tok,omitempty"`   // tokenizer (optionally "|prefilter") feeding a token filter
	Data  []byte   `json:"data,omitempty"`  // the byte string / stored value
	Locs  [][2]int `json:"locs,omitempty"`  // term locations (start, end)
	Nil   []bool   `json:"nil,omitempty"`   // format: which entries are nil
	Size  int      `json:"size,omitempty"`  // fragment size
	FS    int      `json:"fs,omitempty"`    // format: fragment start / end
	FE    int      `json:"fe,omitempty"`
	Style string   `json:"style,omitempty"` // highlight: html | ansi
	Query string   `json:"query,omitempty"` // highlight: match query text
	QKind int      `json:"qkind,omitempty"` // 0 match, 1 match phrase, 2 prefix of first word
	Names []string `json:"names,omitempty"` // cover
	// enum: one slice of a word space of component Comp (see enum.go)
	Mode   string   `json:"mode,omitempty"`  // filter (single tokens) | pipeline (raw text -> unicode, to_lower, the filter) | analyzer (raw text)
	Part   string   `json:"part,omitempty"`  // words | boundary | enum | long | stemsuf
	Alpha  string   `json:"alpha,omitempty"` // the alphabet read off the component's source
	Lits   []string `json:"lits,omitempty"`  // the literal table read off the component's source
	Words  []string `json:"words,omitempty"` // part words: the corpus
	Off    int64    `json:"off,omitempty"`   // boundary/enum: word indices Off, Off+Stride, ... (Count of them)
	Stride int64    `json:"stride,omitempty"`
	Count  int64    `json:"count,omitempty"`
	PSeed  uint64   `json:"pseed,omitempty"` // long/stemsuf: seed of the word PRNG
	// hlconc: highlight calls overlapping in time (see conc.go)
	Items []HLItem `json:"items,omitempty"`
	Gor   int      `json:"gor,omitempty"`   // goroutines
	Iters int      `json:"iters,omitempty"` // rounds over the items per goroutine
	Via   string   `json:"via,omitempty"`   // search (Index.Search) | direct (Highlighter.BestFragmentsInField)
}

const watchdog = 20 * time.Second

// ---------------------------------------------------------------- components

type comp struct {
	base  string // registered name (type or instance) this component exercises
	tok   analysis.Tokenizer
	filt  analysis.TokenFilter
	cfil  analysis.CharFilter
	an    analysis.Analyzer
	which int                                  // modelled tokenizer: 0 letter, 1 whitespace, 2 single; -1 none
	model func(in analysis.TokenStream) cf.T   // modelled filter: the Coq [filt] term; nil = contract only
	small bool                                 // output grows with input: keep inputs short
	src   *wordSrc                             // alphabet / literal tables / word lists read off the component's source
}

var (
	once       sync.Once
	cache      *registry.Cache
	tokenizers = map[string]*comp{}
	filters    = map[string]*comp{}
	charfilts  = map[string]*comp{}
	analyzers  = map[string]*comp{}
	skipped    []string
	c19Words   = []string{"the", "a", "of", "and", "le", "qu", "日本", "İ", "x"}
	hlSizes    = []int{1, 3, 10, 40}
)

func bytesList(ws []string) cf.T { return cf.ListOf(ws, func(s string) cf.T { return cf.Str(s) }) }

func tokenMapWords(name string) []string {
	m, err := cache.TokenMapNamed(name)
	if err != nil {
		return nil
	}
	var ws []string
	for w := range m {
		ws = append(ws, w)
	}
	sort.Strings(ws)
	return ws
}

// marks = the runes of the terms that are combining marks (Go stdlib predicate, a model parameter)
func markTable(in analysis.TokenStream) cf.T {
	seen := map[rune]bool{}
	var ms []int64
	for _, t := range in {
		for _, r := range string(t.Term) {
			if r >= 128 && !seen[r] && (unicode.Is(unicode.Mn, r) || unicode.Is(unicode.Me, r) || unicode.Is(unicode.Mc, r)) {
				seen[r] = true
				ms = append(ms, int64(r))
			}
		}
	}
	sort.Slice(ms, func(i, j int) bool { return ms[i] < ms[j] })
	return cf.ListOf(ms, cf.Z)
}

func constT(t cf.T) func(analysis.TokenStream) cf.T { return func(analysis.TokenStream) cf.T { return t } }

func setup() {
	once.Do(func() {
		cache = registry.NewCache()
		if _, err := cache.DefineTokenMap("c19_words", map[string]interface{}{"type": "custom", "tokens": toIface(c19Words)}); err != nil {
			panic(err)
		}
		if _, err := cache.DefineTokenMap("c19_dict", map[string]interface{}{"type": "custom", "tokens": toIface([]string{"soft", "ball", "fuß", "foot", "base", "日本", "語"})}); err != nil {
			panic(err)
		}

		// ---- tokenizers
		_, tinst := registry.TokenizerTypesAndInstances()
		for _, n := range tinst {
			t, err := cache.TokenizerNamed(n)
			if err != nil {
				skipped = append(skipped, "tokenizer:"+n)
				continue
			}
			c := &comp{base: n, tok: t, which: -1}
			switch n {
			case "letter":
				c.which = 0
			case "whitespace":
				c.which = 1
			case "single":
				c.which = 2
			}
			tokenizers[n] = c
		}
		defTok := func(name, base string, cfg map[string]interface{}) {
			cfg["type"] = base
			t, err := cache.DefineTokenizer(name, cfg)
			if err != nil {
				skipped = append(skipped, "tokenizer:"+name+":"+err.Error())
				return
			}
			tokenizers[name] = &comp{base: base, tok: t, which: -1}
		}
		// configurations of the packages' own tests
		defTok("exception#url", "exception", map[string]interface{}{
			"exceptions": []interface{}{`[hH][tT][tT][pP][sS]?://(\S)*`, `[fF][iI][lL][eE]://(\S)*`, `[fF][tT][pP]://(\S)*`},
			"tokenizer":  "unicode"})
		defTok("exception#ws", "exception", map[string]interface{}{
			"exceptions": []interface{}{`\pL+'\pL+`, `[0-9]+\.[0-9]+`}, "tokenizer": "whitespace"})
		defTok("regexp#w*", "regexp", map[string]interface{}{"regexp": `[0-9a-zA-Z_]*`})
		defTok("regexp#w+", "regexp", map[string]interface{}{"regexp": `\w+`})
		defTok("regexp#han", "regexp", map[string]interface{}{"regexp": `\p{Han}|\p{Hangul}|\p{Hiragana}|\p{Katakana}|[^\s\p{Han}]+`})

		// ---- token filters: every registered instance ...
		_, finst := registry.TokenFilterTypesAndInstances()
		for _, n := range finst {
			f, err := cache.TokenFilterNamed(n)
			if err != nil {
				skipped = append(skipped, "tokenfilter:"+n)
				continue
			}
			c := &comp{base: n, filt: f}
			switch {
			case n == "to_lower":
				c.model = constT("FLower")
			case n == "unique":
				c.model = constT("FUnique")
			case n == "apostrophe":
				c.model = constT("FApostrophe")
			case n == "reverse":
				c.model = func(in analysis.TokenStream) cf.T { return cf.App("FReverse", markTable(in)) }
			case strings.HasPrefix(n, "elision_"):
				if ws := tokenMapWords("articles_" + strings.TrimPrefix(n, "elision_")); ws != nil {
					c.model = constT(cf.App("FElision", bytesList(ws)))
				}
			case n == "cjk_bigram" || n == "camelCase":
				c.small = true
			}
			c.src = buildSrc([]interface{}{f}, nil, nil)
			filters[n] = c
		}
		// ... and every type that needs a configuration, with the configurations of its own tests
		defFilt := func(name, base string, cfg map[string]interface{}, model func(analysis.TokenStream) cf.T, small bool) {
			cfg["type"] = base
			f, err := cache.DefineTokenFilter(name, cfg)
			if err != nil {
				skipped = append(skipped, "tokenfilter:"+name+":"+err.Error())
				return
			}
			var pkgs []string
			if lang, ok := cfg["language"].(string); ok && base == "stemmer_snowball" {
				pkgs = append(pkgs, snow2Mod+"/"+lang)
				if lang == "french" || lang == "spanish" {
					pkgs = append(pkgs, snow2Mod+"/romance")
				}
			}
			filters[name] = &comp{base: base, filt: f, model: model, small: small, src: buildSrc([]interface{}{f}, pkgs, nil)}
		}
		defFilt("dict_compound#c19", "dict_compound", map[string]interface{}{"dict_token_map": "c19_dict", "min_word_size": 5.0, "min_subword_size": 2.0, "max_subword_size": 15.0, "only_longest_match": false}, nil, false)
		defFilt("dict_compound#longest", "dict_compound", map[string]interface{}{"dict_token_map": "c19_dict", "only_longest_match": true}, nil, false)
		defFilt("edge_ngram#f1-3", "edge_ngram", map[string]interface{}{"min": 1.0, "max": 3.0}, constT("(FEdge false 1 3)"), false)
		defFilt("edge_ngram#b2-4", "edge_ngram", map[string]interface{}{"back": true, "min": 2.0, "max": 4.0}, constT("(FEdge true 2 4)"), false)
		defFilt("elision#fr", "elision", map[string]interface{}{"articles_token_map": "articles_fr"}, constT(cf.App("FElision", bytesList(tokenMapWords("articles_fr")))), false)
		defFilt("elision#c19", "elision", map[string]interface{}{"articles_token_map": "c19_words"}, constT(cf.App("FElision", bytesList(c19Words))), false)
		defFilt("hierarchy#/", "hierarchy", map[string]interface{}{"max": 10.0, "delimiter": "/", "split_input": true}, nil, false)
		// "max" is optional in the constructor (default math.MaxInt64)
		defFilt("hierarchy#default-max", "hierarchy", map[string]interface{}{"delimiter": "/"}, nil, false)
		defFilt("hierarchy#nosplit", "hierarchy", map[string]interface{}{"max": 2.0, "delimiter": " ", "split_input": false}, nil, false)
		defFilt("keyword_marker#c19", "keyword_marker", map[string]interface{}{"keywords_token_map": "c19_words"}, constT(cf.App("FKeyword", bytesList(c19Words))), false)
		defFilt("length#3-6", "length", map[string]interface{}{"min": 3.0, "max": 6.0}, constT("(FLength 3 6)"), false)
		defFilt("length#2-", "length", map[string]interface{}{"min": 2.0}, constT("(FLength 2 0)"), false)
		defFilt("length#-4", "length", map[string]interface{}{"max": 4.0}, constT("(FLength 0 4)"), false)
		defFilt("ngram#1-3", "ngram", map[string]interface{}{"min": 1.0, "max": 3.0}, constT("(FNgram 1 3)"), true)
		defFilt("ngram#2-2", "ngram", map[string]interface{}{"min": 2, "max": 2}, constT("(FNgram 2 2)"), true)
		for _, form := range []string{"nfc", "nfd", "nfkc", "nfkd"} {
			defFilt("normalize_unicode#"+form, "normalize_unicode", map[string]interface{}{"form": form}, nil, false)
		}
		defFilt("shingle#2-3o", "shingle", map[string]interface{}{"min": 2.0, "max": 3.0, "output_original": true},
			constT(cf.App("FShingle", "2", "3", "true", cf.Str(" "), cf.Str("_"))), true)
		defFilt("shingle#2-2", "shingle", map[string]interface{}{"min": 2.0, "max": 2.0, "output_original": false, "separator": "+", "filler": "?"},
			constT(cf.App("FShingle", "2", "2", "false", cf.Str("+"), cf.Str("?"))), true)
		defFilt("shingle#1-4o", "shingle", map[string]interface{}{"min": 1.0, "max": 4.0, "output_original": true, "separator": "", "filler": ""},
			constT(cf.App("FShingle", "1", "4", "true", cf.Str(""), cf.Str(""))), true)
		for _, lang := range []string{"english", "french", "russian", "turkish", "arabic"} {
			defFilt("stemmer_snowball#"+lang, "stemmer_snowball", map[string]interface{}{"language": lang}, nil, false)
		}
		defFilt("stop_tokens#c19", "stop_tokens", map[string]interface{}{"stop_token_map": "c19_words"}, constT(cf.App("FStop", bytesList(c19Words))), false)
		defFilt("stop_tokens#en", "stop_tokens", map[string]interface{}{"stop_token_map": "stop_en"}, nil, false)
		defFilt("truncate_token#3", "truncate_token", map[string]interface{}{"length": 3.0}, constT("(FTruncate 3)"), false)
		defFilt("truncate_token#1", "truncate_token", map[string]interface{}{"length": 1.0}, constT("(FTruncate 1)"), false)
		defFilt("truncate_token#0", "truncate_token", map[string]interface{}{"length": 0.0}, constT("(FTruncate 0)"), false)

		// ---- char filters
		_, cinst := registry.CharFilterTypesAndInstances()
		for _, n := range cinst {
			c, err := cache.CharFilterNamed(n)
			if err != nil {
				skipped = append(skipped, "charfilter:"+n)
				continue
			}
			charfilts[n] = &comp{base: n, cfil: c}
		}
		defCF := func(name string, cfg map[string]interface{}) {
			cfg["type"] = "regexp"
			c, err := cache.DefineCharFilter(name, cfg)
			if err != nil {
				skipped = append(skipped, "charfilter:"+name+":"+err.Error())
				return
			}
			charfilts[name] = &comp{base: "regexp", cfil: c}
		}
		defCF("regexp#digits", map[string]interface{}{"regexp": `[0-9]+`, "replace": "#"})
		defCF("regexp#swap", map[string]interface{}{"regexp": `(\pL)(\pL)`, "replace": "$2$1--"})
		defCF("regexp#html", map[string]interface{}{"regexp": `</?[!\w]+((\s+\w+(\s*=\s*(?:".*?"|'.*?'|[^'">\s]+))?)+\s*|\s*)/?>`, "replace": " "})
		defCF("regexp#dotall", map[string]interface{}{"regexp": `(?s).`, "replace": "$0$0"})

		// ---- analyzers
		_, ainst := registry.AnalyzerTypesAndInstances()
		for _, n := range ainst {
			a, err := cache.AnalyzerNamed(n)
			if err != nil {
				skipped = append(skipped, "analyzer:"+n)
				continue
			}
			analyzers[n] = &comp{base: n, an: a, src: analyzerSrc(a)}
		}
		defAn := func(name string, cfg map[string]interface{}) {
			cfg["type"] = "custom"
			a, err := cache.DefineAnalyzer(name, cfg)
			if err != nil {
				skipped = append(skipped, "analyzer:"+name+":"+err.Error())
				return
			}
			analyzers[name] = &comp{base: "custom", an: a, src: analyzerSrc(a)}
		}
		defAn("custom#html", map[string]interface{}{"char_filters": []interface{}{"html"}, "tokenizer": "unicode", "token_filters": []interface{}{"to_lower", "stop_en"}})
		defAn("custom#shingle", map[string]interface{}{"tokenizer": "whitespace", "token_filters": []interface{}{"to_lower", "stop_tokens#c19", "shingle#2-3o"}})
		defAn("custom#ngram", map[string]interface{}{"char_filters": []interface{}{"asciifolding"}, "tokenizer": "letter", "token_filters": []interface{}{"to_lower", "ngram#1-3", "unique"}})
		defAn("custom#camel", map[string]interface{}{"tokenizer": "whitespace", "token_filters": []interface{}{"camelCase", "to_lower", "length#2-"}})
		defAn("custom#regexp", map[string]interface{}{"char_filters": []interface{}{"regexp#digits", "zero_width_spaces"}, "tokenizer": "regexp#w+", "token_filters": []interface{}{"truncate_token#3", "edge_ngram#f1-3"}})
		defAn("custom#web", map[string]interface{}{"tokenizer": "web", "token_filters": []interface{}{"to_lower", "elision#fr", "apostrophe", "stemmer_porter"}})

		// ---- highlighters with other fragment sizes (the registered "html"/"ansi" use 200)
		for _, sz := range hlSizes {
			fn := fmt.Sprintf("c19_frag_%d", sz)
			if _, err := bleve.Config.Cache.DefineFragmenter(fn, map[string]interface{}{"type": "simple", "size": float64(sz)}); err != nil {
				panic(err)
			}
			for _, st := range []string{"html", "ansi"} {
				if _, err := bleve.Config.Cache.DefineHighlighter(fmt.Sprintf("c19_%s_%d", st, sz),
					map[string]interface{}{"type": "simple", "fragmenter": fn, "formatter": st}); err != nil {
					panic(err)
				}
			}
		}
		// analyzers used by the highlight cases must be known to bleve's own cache
		for _, name := range []string{"custom#html"} {
			_ = name
		}
	})
}

// the source facts of an analyzer are those of its parts
func analyzerSrc(a analysis.Analyzer) *wordSrc {
	da, ok := a.(*analysis.DefaultAnalyzer)
	if !ok {
		return buildSrc([]interface{}{a}, nil, nil)
	}
	vals := []interface{}{da.Tokenizer}
	for _, c := range da.CharFilters {
		vals = append(vals, c)
	}
	for _, f := range da.TokenFilters {
		vals = append(vals, f)
	}
	return buildSrc(vals, nil, nil)
}

func toIface(ss []string) []interface{} {
	out := make([]interface{}, len(ss))
	for i, s := range ss {
		out[i] = s
	}
	return out
}

func sortedKeys(m map[string]*comp) []string {
	var ks []string
	for k := range m {
		ks = append(ks, k)
	}
	sort.Strings(ks)
	return ks
}

// ---------------------------------------------------------------- input strings

var pieces = []string{
	"a", "B", "the", "The", "of", "cat", "Cats", "running", "ing", "x", "HTTPServer", "camelCaseWord", "iPhone6s",
	" ", " ", " ", "  ", "\t", "\n", "-", "_", ".", ",", "'", "’", "\"", "/", "&", "<", ">", ";", "#", "@",
	"l'avion", "qu’il", "O'Neil's", "d'", "rock'n'roll",
	"é", "É", "ß", "İ", "ı", "Σ", "ς", "ΟΔΟΣ", "Ⱥ", "ǅ", "ﬁ", "Ⅳ", "ｱ", "Ａ",
	"日本語", "日本", "語", "こんにちは", "カタカナ", "한국어", "中文分词",
	"مرحبا", "بالعالم", "كتاب", "سلام", "دنیای", "می‌روم",
	"สวัสดี", "ภาษาไทย", "привет", "мир", "Ελληνικά", "हिन्दी", "नमस्ते", "שלום",
	"é", "à́", "o⃝", "कः", "́", "ño", "‌", "‍", " ", "\u0085", " ", "\ufeff",
	"🙂", "👨‍👩‍👧", "🇩🇪", "\U0010ffff", "�",
	"12", "3.14", "1,000", "2024-01-02", "0x1f",
	"http://example.com/a?b=c", "user@example.com", "#tag", "@handle", "www.x.org", "file:///tmp/x",
	"<b>", "</b>", "<a href=\"x\">", "&amp;", "&#39;", "<!-- c -->", "<mark>", "</mark>", "\x1b[43m", "\x1b[0m", "…",
	"softball", "fußball", "baseball", "a/b/c", "/usr/local/",
}

var badPieces = []string{
	"\xff", "\xfe", "\xc3", "\xc3\xc3", "\x80", "\xbf", "\x80\x80", "\xe2\x82", "\xe2", "\xf0\x9f\x99", "\xf0\x9f",
	"\xc0\x80", "\xc1\xbf", "\xe0\x80\x80", "\xe0\x9f\xbf", "\xf0\x80\x80\x80", "\xf0\x8f\xbf\xbf",
	"\xed\xa0\x80", "\xed\xbf\xbf", "\xf4\x90\x80\x80", "\xf5\x80\x80\x80", "\xf8\x88\x80\x80\x80",
	"a\xc3", "\xc3a", "é\xa9", "\xe6\x97", "日\xe6", "\xa9é",
}

// genBytes makes one input string; class is recorded in the histogram
func genBytes(r *vrand.R, maxPieces int, allowLong bool) ([]byte, string) {
	switch k := r.Intn(20); {
	case k == 0:
		return []byte{}, "empty"
	case k == 1 && allowLong:
		// one very long token (1-5 kB), sometimes with an invalid byte inside
		n := r.Range(1000, 5000)
		unit := vrand.Pick(r, []string{"a", "ab", "é", "日", "xY", "é"})
		var b []byte
		for len(b) < n {
			b = append(b, unit...)
		}
		if r.Chance(1, 3) {
			b[r.Intn(len(b))] = 0xff
		}
		if r.Chance(1, 2) {
			b = append([]byte("ab "), b...)
			b = append(b, " cd"...)
		}
		return b, "long-token"
	case k == 2:
		// raw random bytes
		n := r.Range(1, 24)
		b := make([]byte, n)
		for i := range b {
			b[i] = byte(r.Intn(256))
		}
		return b, "random-bytes"
	case k <= 9:
		// valid text with invalid sequences mixed in
		var b []byte
		n := r.Range(1, maxPieces)
		for i := 0; i < n; i++ {
			if r.Chance(1, 3) {
				b = append(b, vrand.Pick(r, badPieces)...)
			} else {
				b = append(b, vrand.Pick(r, pieces)...)
			}
		}
		if utf8.Valid(b) {
			return b, "valid-utf8"
		}
		return b, "invalid-utf8"
	default:
		var b []byte
		n := r.Range(1, maxPieces)
		for i := 0; i < n; i++ {
			b = append(b, vrand.Pick(r, pieces)...)
			if r.Chance(1, 2) {
				b = append(b, ' ')
			}
		}
		return b, "valid-utf8"
	}
}

// words for stored values of the highlight cases (no ESC, no separator character)
var hlWords = []string{
	"the", "quick", "brown", "fox", "jumps", "over", "lazy", "dog", "a", "of", "search", "engine", "index",
	"été", "naïve", "straße", "日本語", "日本", "こんにちは", "한국어", "مرحبا", "كتاب", "привет", "мир", "Ελληνικά", "สวัสดี",
	"x<y", "a&b", "\"quoted\"", "it's", "<b>bold</b>", "ét", "🙂", "12", "3.14", "http://example.com/a",
}

func genStored(r *vrand.R) (string, []string) {
	n := r.Range(1, 40)
	if r.Chance(1, 12) {
		n = r.Range(40, 120)
	}
	var sb strings.Builder
	var ws []string
	for i := 0; i < n; i++ {
		w := vrand.Pick(r, hlWords)
		ws = append(ws, w)
		sb.WriteString(w)
		switch r.Intn(8) {
		case 0:
			sb.WriteString(", ")
		case 1:
			sb.WriteString(". ")
		case 2:
			sb.WriteString("\n")
		default:
			sb.WriteString(" ")
		}
	}
	return sb.String(), ws
}

func genLocs(r *vrand.R, n int) [][2]int {
	k := r.Range(0, 8)
	locs := make([][2]int, 0, k)
	for i := 0; i < k; i++ {
		var s, e int
		switch r.Intn(6) {
		case 0: // beyond the end
			s = n + r.Range(0, 10)
			e = s + r.Range(0, 10)
		case 1: // straddling the end
			s = r.Range(0, n)
			e = n + r.Range(0, 10)
		case 2: // empty span
			s = r.Range(0, n+2)
			e = s
		default:
			s = r.Range(0, n)
			e = s + r.Range(0, 8)
			if e > n && r.Bool() {
				e = n
			}
		}
		locs = append(locs, [2]int{s, e})
	}
	switch r.Intn(3) {
	case 0: // as OrderTermLocations would hand them over
		sort.SliceStable(locs, func(i, j int) bool { return locs[i][0] < locs[j][0] })
	case 1:
		sort.SliceStable(locs, func(i, j int) bool { return locs[i][0] < locs[j][0] })
		if len(locs) > 1 && r.Bool() { // duplicates
			locs[1] = locs[0]
		}
	}
	return locs
}

// ---------------------------------------------------------------- gen

func gen(f vh.Flags, r *vrand.R, emitOut func(In)) {
	setup()
	// cases are shuffled (seeded) before they are handed over so that the expensive kinds are
	// spread evenly over the Coq shards
	var all []In
	emit := func(in In) { all = append(all, in) }
	defer func() {
		head := 5
		if len(all) < head {
			head = len(all)
		}
		rest := all[head:]
		vrand.Shuffle(r, rest)
		for _, in := range all {
			emitOut(in)
		}
	}()
	if f.Mode == "conc" {
		// the race-detector binary: only the overlapping highlight calls
		genConc(f, r, emit, 3, 120)
		return
	}
	// 0. coverage of the registered names (T1 list vs what this harness instantiates)
	covers := []struct {
		kind string
		m    map[string]*comp
	}{{"tokenizers", tokenizers}, {"token_filters", filters}, {"char_filters", charfilts}, {"analyzers", analyzers}}
	for _, c := range covers {
		seen := map[string]bool{}
		for _, v := range c.m {
			seen[v.base] = true
		}
		var names []string
		for n := range seen {
			names = append(names, n)
		}
		sort.Strings(names)
		emit(In{Kind: "cover", Comp: c.kind, Names: names})
	}
	// known witness first: the reverse filter on two lead bytes
	emit(In{Kind: "filter", Comp: "reverse", Tok: "unicode", Data: []byte("\xc3\xc3")})

	// 1. UTF-8 primitives
	for i, n := 0, f.N(250, 20000); i < n; i++ {
		var p []byte
		switch r.Intn(4) {
		case 0:
			p = []byte(vrand.Pick(r, badPieces))
		case 1:
			p = []byte(vrand.Pick(r, pieces))
		case 2:
			p = []byte(vrand.Pick(r, pieces) + vrand.Pick(r, badPieces))
		default:
			p = make([]byte, r.Range(0, 6))
			for j := range p {
				p[j] = byte(vrand.Pick(r, []int{0x00, 0x41, 0x7f, 0x80, 0x8f, 0x90, 0x9f, 0xa0, 0xbf, 0xc0, 0xc1, 0xc2, 0xdf, 0xe0, 0xe1, 0xec, 0xed, 0xee, 0xef, 0xf0, 0xf1, 0xf3, 0xf4, 0xf5, 0xff}))
			}
		}
		emit(In{Kind: "decode", Data: p})
	}

	// 2. every tokenizer
	for _, name := range sortedKeys(tokenizers) {
		for i, n := 0, f.N(45, 2250); i < n; i++ {
			b, _ := genBytes(r, 14, true)
			emit(In{Kind: "tokenizer", Comp: name, Data: b})
		}
	}

	// 3. every token filter after several tokenizers
	for _, name := range sortedKeys(filters) {
		c := filters[name]
		toks := []string{"unicode", "whitespace", "single"}
		if strings.HasPrefix(name, "shingle") {
			toks = []string{"unicode", "whitespace|stop_tokens#c19", "regexp#w*", "single"}
		}
		per := 3
		if c.model != nil {
			per = 8
		}
		for _, tk := range toks {
			for i, n := 0, f.N(per, per*50); i < n; i++ {
				mp, long := 12, !c.small && r.Chance(1, 12)
				if c.small {
					mp = 8
				}
				b, _ := genBytes(r, mp, long)
				emit(In{Kind: "filter", Comp: name, Tok: tk, Data: b})
			}
		}
	}

	// 4. char filters
	for _, name := range sortedKeys(charfilts) {
		for i, n := 0, f.N(25, 1250); i < n; i++ {
			b, _ := genBytes(r, 14, true)
			emit(In{Kind: "charfilter", Comp: name, Data: b})
		}
	}

	// 5. analyzers
	for _, name := range sortedKeys(analyzers) {
		for i, n := 0, f.N(14, 700); i < n; i++ {
			b, _ := genBytes(r, 14, true)
			emit(In{Kind: "analyzer", Comp: name, Data: b})
		}
	}

	// 6. fragmenter + formatters directly, arbitrary locations
	for i, n := 0, f.N(300, 15000); i < n; i++ {
		var b []byte
		if r.Chance(2, 3) {
			s, _ := genStored(r)
			b = []byte(s)
			if r.Chance(1, 4) && len(b) > 0 {
				b[r.Intn(len(b))] = byte(r.Intn(256))
			}
		} else {
			b, _ = genBytes(r, 20, false)
		}
		size := vrand.Pick(r, []int{1, 2, 3, 5, 10, 25, 60, 200})
		emit(In{Kind: "direct", Data: b, Locs: genLocs(r, len(b)), Size: size})
	}
	for i, n := 0, f.N(150, 7500); i < n; i++ {
		b, _ := genBytes(r, 16, false)
		fs := r.Range(0, len(b))
		fe := r.Range(fs, len(b))
		locs := genLocs(r, len(b))
		nl := make([]bool, len(locs))
		for j := range nl {
			nl[j] = r.Chance(1, 5)
		}
		emit(In{Kind: "format", Data: b, FS: fs, FE: fe, Locs: locs, Nil: nl})
	}

	// 7. Index.Search with highlighting
	hlAnalyzers := []string{"standard", "simple", "en", "web", "keyword", "cjk", "fr", "ar", "ru", "custom#html", "custom#shingle", "custom#regexp"}
	for i, n := 0, f.N(260, 13000); i < n; i++ {
		stored, ws := genStored(r)
		an := vrand.Pick(r, hlAnalyzers)
		qk := r.Intn(3)
		var q string
		switch qk {
		case 1:
			j := r.Intn(len(ws))
			k := j + r.Range(1, 3)
			if k > len(ws) {
				k = len(ws)
			}
			q = strings.Join(ws[j:k], " ")
		default:
			m := r.Range(1, 4)
			var qs []string
			for j := 0; j < m; j++ {
				qs = append(qs, vrand.Pick(r, ws))
			}
			q = strings.Join(qs, " ")
		}
		if an == "keyword" {
			q, qk = stored, 0
		}
		size := 0
		if r.Chance(1, 2) {
			size = vrand.Pick(r, hlSizes)
		}
		emit(In{Kind: "highlight", Comp: an, Data: []byte(stored), Query: q, QKind: qk, Style: vrand.Pick(r, []string{"html", "ansi"}), Size: size})
	}

	// 8. highlight calls overlapping in time on the shared registered highlighters
	rc, re := r.Fork(), r.Fork()
	if parts := os.Getenv("C19_PARTS"); parts != "" { // diagnostics: base,conc,enum
		if !strings.Contains(parts, "base") {
			all = all[:0]
		}
		if strings.Contains(parts, "conc") {
			genConc(f, rc, emit, 3, 150)
		}
		if strings.Contains(parts, "enum") {
			genEnum(f, re, emit)
		}
		return
	}
	genConc(f, rc, emit, 3, 150)

	// 9. systematic word enumeration over the alphabets / literal tables of each component's source
	genEnum(f, re, emit)
}

// ---------------------------------------------------------------- exec

func tokT(t *analysis.Token) cf.T {
	return cf.App("T", cf.Bytes(t.Term), cf.Int(t.Start), cf.Int(t.End), cf.Int(t.Position), cf.Int(int(t.Type)), cf.Bool(t.KeyWord))
}
func tokO3(t *analysis.Token) cf.T {
	return cf.App("O3", cf.Int(t.Start), cf.Int(t.End), cf.Int(t.Position))
}

func snapshot(ts analysis.TokenStream) analysis.TokenStream {
	out := make(analysis.TokenStream, len(ts))
	for i, t := range ts {
		c := *t
		c.Term = append([]byte{}, t.Term...)
		out[i] = &c
	}
	return out
}

func toksT(ts analysis.TokenStream) cf.T  { return cf.ListOf(ts, tokT) }
func toksO3(ts analysis.TokenStream) cf.T { return cf.ListOf(ts, tokO3) }

// measurements of an observed stream against the tokenizer contract (evidence only)
func observe(prefix string, n int, ts analysis.TokenStream) []string {
	var h []string
	seen := map[string]bool{}
	lastStart, lastPos := 0, 0
	add := func(s string) {
		if !seen[s] {
			seen[s] = true
			h = append(h, "obs:"+prefix+":"+s)
		}
	}
	for _, t := range ts {
		if t.End > n {
			add("end>len")
		}
		if t.Start < lastStart {
			add("start-order")
		}
		if t.Position < 1 || t.Position < lastPos {
			add("position")
		}
		lastStart, lastPos = t.Start, t.Position
	}
	return h
}

func inputClass(b []byte) string {
	switch {
	case len(b) == 0:
		return "empty"
	case len(b) >= 1000:
		return "long-token"
	case utf8.Valid(b):
		return "valid-utf8"
	}
	return "invalid-utf8"
}

// trues = non-ASCII runes of the input (as utf8.DecodeRune walks it) on which pred holds
func runeTable(b []byte, pred func(rune) bool) cf.T {
	seen := map[rune]bool{}
	var rs []int64
	for i := 0; i < len(b); {
		r, sz := utf8.DecodeRune(b[i:])
		if r >= 128 && !seen[r] && pred(r) {
			seen[r] = true
			rs = append(rs, int64(r))
		}
		i += sz
	}
	sort.Slice(rs, func(i, j int) bool { return rs[i] < rs[j] })
	return cf.ListOf(rs, cf.Z)
}

func runTokenizer(spec string, buf []byte) (analysis.TokenStream, *vh.Direct) {
	parts := strings.Split(spec, "|")
	tk := tokenizers[parts[0]]
	if tk == nil {
		return nil, &vh.Direct{Kind: "harness", Detail: "unknown tokenizer " + spec}
	}
	var ts analysis.TokenStream
	if d := vh.Guard(watchdog, "tokenizer "+parts[0], func() { ts = tk.tok.Tokenize(buf) }); d != nil {
		return nil, d
	}
	for _, p := range parts[1:] {
		pf := filters[p]
		if pf == nil {
			return nil, &vh.Direct{Kind: "harness", Detail: "unknown prefilter " + p}
		}
		if d := vh.Guard(watchdog, "token filter "+p, func() { ts = pf.filt.Filter(ts) }); d != nil {
			return nil, d
		}
	}
	return ts, nil
}

func exec(in In) vh.Result {
	setup()
	buf := append([]byte{}, in.Data...)
	cls := inputClass(in.Data)
	switch in.Kind {
	case "cover":
		kind := map[string]int{"tokenizers": 0, "token_filters": 1, "char_filters": 2, "analyzers": 3}[in.Comp]
		h := []string{"cover:" + in.Comp}
		for _, s := range skipped {
			h = append(h, "skipped-component:"+s)
		}
		h = append(h, fmt.Sprintf("components:%s:%d-names", in.Comp, len(in.Names)))
		return vh.Result{Term: cf.App("CCover", cf.Int(kind), bytesList(in.Names)), Nontrivial: true, Hist: h}

	case "decode":
		r, w := utf8.DecodeRune(buf)
		lr, lw := utf8.DecodeLastRune(buf)
		return vh.Result{
			Term: cf.App("CDecode", cf.Bytes(buf), cf.Z(int64(r)), cf.Int(w), cf.Z(int64(lr)), cf.Int(lw),
				cf.Int(utf8.RuneCount(buf)), cf.Int(utf8.RuneLen(r)), cf.Bytes(utf8.AppendRune(nil, r))),
			Nontrivial: len(buf) > 0, Hist: []string{"decode"}}

	case "tokenizer":
		c := tokenizers[in.Comp]
		if c == nil {
			return vh.Result{Skip: true}
		}
		var ts analysis.TokenStream
		if d := vh.Guard(watchdog, "tokenizer "+in.Comp+" on "+fmt.Sprintf("%q", trunc(in.Data)), func() { ts = c.tok.Tokenize(buf) }); d != nil {
			return vh.Result{Direct: d, Class: "tokenizer-" + d.Kind}
		}
		h := append([]string{"tokenizer:" + in.Comp, "input:" + cls}, observe("tokenizer:"+in.Comp, len(buf), ts)...)
		if c.which >= 0 {
			var trues cf.T = "[]"
			switch c.which {
			case 0:
				trues = runeTable(in.Data, unicode.IsLetter)
			case 1:
				trues = runeTable(in.Data, unicode.IsSpace)
			}
			return vh.Result{Term: cf.App("CTokenizer", cf.Int(c.which), trues, cf.Bytes(in.Data), toksT(ts)),
				Nontrivial: len(ts) > 0, Hist: append(h, "modelled")}
		}
		return vh.Result{Term: cf.App("CContract", "0", cf.Int(len(buf)), toksO3(ts)), Nontrivial: len(ts) > 0, Hist: append(h, "contract-only")}

	case "filter":
		c := filters[in.Comp]
		if c == nil {
			return vh.Result{Skip: true}
		}
		ts, d := runTokenizer(in.Tok, buf)
		if d != nil {
			return vh.Result{Direct: d, Class: "tokenizer-" + d.Kind}
		}
		inToks := snapshot(ts)
		var out analysis.TokenStream
		if d := vh.Guard(watchdog, fmt.Sprintf("token filter %s after %s on %q", in.Comp, in.Tok, trunc(in.Data)), func() { out = c.filt.Filter(ts) }); d != nil {
			class := "filter-" + d.Kind + ":" + c.base
			if c.base == "hierarchy" && in.Comp == "hierarchy#default-max" {
				class = "hierarchy-default-max"
			}
			if c.base == "reverse" && !utf8.Valid(in.Data) {
				class = "reverse-invalid-utf8"
			}
			return vh.Result{Direct: d, Class: class}
		}
		out = snapshot(out)
		h := append([]string{"filter:" + c.base, "input:" + cls, "after:" + in.Tok}, observe("filter:"+c.base, len(buf), out)...)
		if c.model != nil {
			return vh.Result{Term: cf.App("CFilter", c.model(inToks), cf.Int(len(buf)), toksT(inToks), toksT(out)),
				Nontrivial: len(inToks) > 0, Hist: append(h, "modelled")}
		}
		return vh.Result{Term: cf.App("CContract", "1", cf.Int(len(buf)), toksO3(out)), Nontrivial: len(out) > 0, Hist: append(h, "contract-only")}

	case "charfilter":
		c := charfilts[in.Comp]
		if c == nil {
			return vh.Result{Skip: true}
		}
		var out []byte
		if d := vh.Guard(watchdog, fmt.Sprintf("char filter %s on %q", in.Comp, trunc(in.Data)), func() { out = c.cfil.Filter(buf) }); d != nil {
			return vh.Result{Direct: d, Class: "charfilter-" + d.Kind + ":" + c.base}
		}
		h := []string{"charfilter:" + c.base, "input:" + cls}
		if len(out) != len(in.Data) {
			h = append(h, "obs:charfilter:"+c.base+":changes-length")
		}
		return vh.Result{Term: cf.App("CRan", "2"), Nontrivial: len(in.Data) > 0, Key: "cf:" + in.Comp + ":" + string(in.Data), Hist: h}

	case "analyzer":
		c := analyzers[in.Comp]
		if c == nil {
			return vh.Result{Skip: true}
		}
		var ts analysis.TokenStream
		if d := vh.Guard(watchdog, fmt.Sprintf("analyzer %s on %q", in.Comp, trunc(in.Data)), func() { ts = c.an.Analyze(buf) }); d != nil {
			class := "analyzer-" + d.Kind + ":" + c.base
			return vh.Result{Direct: d, Class: class}
		}
		h := []string{"analyzer:" + c.base, "input:" + cls}
		if da, ok := c.an.(*analysis.DefaultAnalyzer); ok && len(da.CharFilters) == 0 {
			h = append(h, observe("analyzer:"+in.Comp, len(buf), ts)...)
		}
		return vh.Result{Term: cf.App("CContract", "2", cf.Int(len(buf)), toksO3(ts)), Nontrivial: len(ts) > 0, Hist: h}

	case "direct":
		return execDirect(in, buf)
	case "format":
		return execFormat(in, buf)
	case "highlight":
		return execHighlight(in)
	case "enum":
		return execEnum(in)
	case "hlconc":
		return execConc(in)
	}
	return vh.Result{Skip: true}
}

func trunc(b []byte) []byte {
	if len(b) > 80 {
		return b[:80]
	}
	return b
}

func pairT(p [2]int) cf.T { return cf.Pair(cf.Int(p[0]), cf.Int(p[1])) }

func mkLocs(locs [][2]int) highlight.TermLocations {
	tls := make(highlight.TermLocations, len(locs))
	for i, l := range locs {
		tls[i] = &highlight.TermLocation{Term: "t", Pos: i + 1, Start: l[0], End: l[1]}
	}
	return tls
}

func execDirect(in In, buf []byte) vh.Result {
	// the slice handed over has no spare capacity, as a stored field value read back from a segment
	orig := buf[:len(buf):len(buf)]
	tls := mkLocs(in.Locs)
	var frags [][2]int
	var merged []cf.T
	var htmls, ansis []cf.T
	d := vh.Guard(watchdog, fmt.Sprintf("fragmenter(size %d)+formatters on %q locs %v", in.Size, trunc(in.Data), in.Locs), func() {
		fr := simpleFrag.NewFragmenter(in.Size).Fragment(orig, tls)
		tls.MergeOverlapping()
		hf := htmlFmt.NewFragmentFormatter("<mark>", "</mark>")
		af := ansiFmt.NewFragmentFormatter(ansiFmt.DefaultAnsiHighlight)
		for _, f := range fr {
			frags = append(frags, [2]int{f.Start, f.End})
			htmls = append(htmls, cf.Str(hf.Format(f, tls)))
			ansis = append(ansis, cf.Str(af.Format(f, tls)))
		}
		for _, tl := range tls {
			if tl == nil {
				merged = append(merged, cf.None)
			} else {
				merged = append(merged, cf.Some(pairT([2]int{tl.Start, tl.End})))
			}
		}
	})
	if d != nil {
		return vh.Result{Direct: d, Class: "highlight-" + d.Kind}
	}
	h := []string{"direct", "input:" + inputClass(in.Data), fmt.Sprintf("direct:frags:%d", min(len(frags), 3))}
	for _, l := range in.Locs {
		if l[1] > len(buf) {
			h = append(h, "direct:loc-out-of-range")
			break
		}
	}
	return vh.Result{
		Term: cf.App("CDirect", cf.Int(in.Size), cf.Bytes(in.Data), cf.ListOf(in.Locs, pairT), cf.ListOf(frags, pairT),
			cf.List(merged), cf.List(htmls), cf.List(ansis)),
		Nontrivial: len(in.Locs) > 0 && len(frags) > 0, Hist: h}
}

func execFormat(in In, buf []byte) vh.Result {
	orig := buf[:len(buf):len(buf)]
	tls := mkLocs(in.Locs)
	var lt []cf.T
	for i := range tls {
		if i < len(in.Nil) && in.Nil[i] {
			tls[i] = nil
			lt = append(lt, cf.None)
		} else {
			lt = append(lt, cf.Some(pairT(in.Locs[i])))
		}
	}
	var ho, ao string
	d := vh.Guard(watchdog, fmt.Sprintf("formatters on %q frag [%d,%d] locs %v", trunc(in.Data), in.FS, in.FE, in.Locs), func() {
		f := &highlight.Fragment{Orig: orig, Start: in.FS, End: in.FE}
		ho = htmlFmt.NewFragmentFormatter("<mark>", "</mark>").Format(f, tls)
		ao = ansiFmt.NewFragmentFormatter(ansiFmt.DefaultAnsiHighlight).Format(f, tls)
	})
	if d != nil {
		return vh.Result{Direct: d, Class: "highlight-" + d.Kind}
	}
	return vh.Result{
		Term:       cf.App("CFormat", cf.Bytes(in.Data), cf.Int(in.FS), cf.Int(in.FE), cf.List(lt), cf.Str(ho), cf.Str(ao)),
		Nontrivial: len(in.Locs) > 0, Hist: []string{"format", "input:" + inputClass(in.Data)}}
}

var hlMu sync.Mutex // bleve.Config.Cache analyzers are defined lazily per mapping; keep index builds serial

func execHighlight(in In) vh.Result {
	c := analyzers[in.Comp]
	if c == nil {
		return vh.Result{Skip: true}
	}
	keeps := false
	if da, ok := c.an.(*analysis.DefaultAnalyzer); ok && len(da.CharFilters) == 0 {
		keeps = true
	}
	if d := preflight(in.Comp, in.Data); d != nil {
		return vh.Result{Direct: d, Class: "analyzer-" + d.Kind + ":" + c.base}
	}
	style := in.Style
	hlName := style
	size := 200
	if in.Size > 0 {
		hlName = fmt.Sprintf("c19_%s_%d", style, in.Size)
		size = in.Size
	}
	var locs [][2]int
	var frag *string
	nhits := 0
	var err error
	d := vh.Guard(3*watchdog, fmt.Sprintf("Index.Search highlight analyzer %s style %s on %q query %q", in.Comp, hlName, trunc(in.Data), in.Query), func() {
		hlMu.Lock()
		defer hlMu.Unlock()
		im := mapping.NewIndexMapping()
		if err = defineCustom(im, in.Comp); err != nil {
			return
		}
		fm := mapping.NewTextFieldMapping()
		fm.Analyzer = in.Comp
		fm.Store = true
		fm.IncludeTermVectors = true
		fm.IncludeInAll = false
		dm := mapping.NewDocumentStaticMapping()
		dm.AddFieldMappingsAt("body", fm)
		im.DefaultMapping = dm
		var idx bleve.Index
		idx, err = bleve.NewUsing("", im, scorch.Name, scorch.Name, nil)
		if err != nil {
			return
		}
		defer idx.Close()
		if err = idx.Index("d", map[string]interface{}{"body": string(in.Data)}); err != nil {
			return
		}
		var q query.Query
		switch in.QKind {
		case 1:
			mq := bleve.NewMatchPhraseQuery(in.Query)
			mq.SetField("body")
			q = mq
		case 2:
			w := strings.Fields(in.Query)
			p := ""
			if len(w) > 0 {
				p = strings.ToLower(w[0])
				if _, sz := utf8.DecodeRuneInString(p); sz > 0 && len(p) > sz {
					p = p[:sz]
				}
			}
			pq := bleve.NewPrefixQuery(p)
			pq.SetField("body")
			mq := bleve.NewMatchQuery(in.Query)
			mq.SetField("body")
			q = bleve.NewDisjunctionQuery(pq, mq)
		default:
			mq := bleve.NewMatchQuery(in.Query)
			mq.SetField("body")
			q = mq
		}
		req := bleve.NewSearchRequest(q)
		req.Highlight = bleve.NewHighlightWithStyle(hlName)
		req.IncludeLocations = true
		var res *bleve.SearchResult
		res, err = idx.Search(req)
		if err != nil {
			return
		}
		nhits = len(res.Hits)
		for _, hit := range res.Hits {
			for _, ls := range hit.Locations["body"] {
				for _, l := range ls {
					locs = append(locs, [2]int{int(l.Start), int(l.End)})
				}
			}
			if fs := hit.Fragments["body"]; len(fs) > 0 {
				s := fs[0]
				frag = &s
			}
		}
	})
	if d != nil {
		return vh.Result{Direct: d, Class: "highlight-" + d.Kind}
	}
	h := []string{"highlight:" + in.Comp, "highlight-style:" + style, fmt.Sprintf("highlight-size:%d", size)}
	if err != nil {
		return vh.Result{Term: cf.App("CRan", "8"), Hist: append(h, "highlight:error:"+firstWords(err.Error()))}
	}
	if nhits == 0 {
		return vh.Result{Term: cf.App("CRan", "7"), Hist: append(h, "highlight:no-hit")}
	}
	if !keeps {
		return vh.Result{Term: cf.App("CRan", "6"), Hist: append(h, "highlight:analyzer-changes-length(no-panic only)"), Nontrivial: frag != nil,
			Key: "hl:" + in.Comp + string(in.Data) + in.Query}
	}
	sort.Slice(locs, func(i, j int) bool {
		if locs[i][0] != locs[j][0] {
			return locs[i][0] < locs[j][0]
		}
		return locs[i][1] < locs[j][1]
	})
	st := 0
	if style == "ansi" {
		st = 1
	}
	var ft cf.T = cf.None
	if frag != nil {
		ft = cf.Some(cf.Str(*frag))
		h = append(h, "highlight:fragment")
	} else {
		h = append(h, "highlight:no-fragment")
	}
	return vh.Result{
		Term:       cf.App("CHighlight", cf.Int(st), cf.Int(size), cf.Bytes(in.Data), cf.ListOf(locs, pairT), ft),
		Nontrivial: frag != nil && len(locs) > 0, Hist: h}
}

// preflight analyses a value that is about to be indexed.  Indexing analyses it on a worker
// goroutine of the index, where a panic cannot be recovered and would take the whole run down
// without naming the input; the same analyzer configuration is run here first, under the watchdog.
func preflight(an string, text []byte) *vh.Direct {
	c := analyzers[an]
	if c == nil || c.an == nil {
		return nil
	}
	buf := append([]byte{}, text...)
	return vh.Guard(watchdog, fmt.Sprintf("analyzer %s on %q (before indexing it for highlighting)", an, trunc(text)), func() { c.an.Analyze(buf) })
}

func firstWords(s string) string {
	w := strings.Fields(s)
	if len(w) > 5 {
		w = w[:5]
	}
	return strings.Join(w, "_")
}

// the custom analyzers of the harness, re-declared in an index mapping (same configurations)
func defineCustom(im *mapping.IndexMappingImpl, name string) error {
	if !strings.HasPrefix(name, "custom#") {
		return nil
	}
	if err := im.AddCustomTokenMap("c19_words", map[string]interface{}{"type": "custom", "tokens": toIface(c19Words)}); err != nil {
		return err
	}
	switch name {
	case "custom#html":
		return im.AddCustomAnalyzer(name, map[string]interface{}{"type": "custom", "char_filters": []interface{}{"html"}, "tokenizer": "unicode", "token_filters": []interface{}{"to_lower", "stop_en"}})
	case "custom#shingle":
		if err := im.AddCustomTokenFilter("stop_tokens#c19", map[string]interface{}{"type": "stop_tokens", "stop_token_map": "c19_words"}); err != nil {
			return err
		}
		if err := im.AddCustomTokenFilter("shingle#2-3o", map[string]interface{}{"type": "shingle", "min": 2.0, "max": 3.0, "output_original": true}); err != nil {
			return err
		}
		return im.AddCustomAnalyzer(name, map[string]interface{}{"type": "custom", "tokenizer": "whitespace", "token_filters": []interface{}{"to_lower", "stop_tokens#c19", "shingle#2-3o"}})
	case "custom#regexp":
		if err := im.AddCustomCharFilter("regexp#digits", map[string]interface{}{"type": "regexp", "regexp": `[0-9]+`, "replace": "#"}); err != nil {
			return err
		}
		if err := im.AddCustomTokenizer("regexp#w+", map[string]interface{}{"type": "regexp", "regexp": `\w+`}); err != nil {
			return err
		}
		if err := im.AddCustomTokenFilter("truncate_token#3", map[string]interface{}{"type": "truncate_token", "length": 3.0}); err != nil {
			return err
		}
		if err := im.AddCustomTokenFilter("edge_ngram#f1-3", map[string]interface{}{"type": "edge_ngram", "min": 1.0, "max": 3.0}); err != nil {
			return err
		}
		return im.AddCustomAnalyzer(name, map[string]interface{}{"type": "custom", "char_filters": []interface{}{"regexp#digits", "zero_width_spaces"}, "tokenizer": "regexp#w+", "token_filters": []interface{}{"truncate_token#3", "edge_ngram#f1-3"}})
	}
	return fmt.Errorf("unknown custom analyzer %s", name)
}

func Main() {
	if concChild() {
		return
	}
	if os.Getenv("C19_SRCDUMP") != "" {
		dumpSrc()
		return
	}
	vh.Main(vh.Config{
		Property:  "C19",
		Imports:   []string{"Common.Bytes", "Text.Model", "Text.Corr"},
		CaseType:  "Corr.case",
		CheckFn:   "Corr.check",
		ExplainFn: "Corr.explain",
		Rule: "every registered tokenizer / token filter (after unicode, whitespace and single; shingle also after a stop filter and a regexp tokenizer) / char filter / analyzer instance, " +
			"plus every type that needs a configuration with the configurations of its own tests, on byte strings made of mixed-script pieces, invalid UTF-8 sequences " +
			"(lone continuation bytes, truncated, overlong, surrogates, > U+10FFFF), empty input, random bytes and 1-5 kB tokens, under a panic/hang watchdog; real output streams " +
			"are evaluated by the Coq contract (tokenizers: valid_stream; filters and analyzers: ordered spans) and transcribed components are compared token by token with the model; " +
			"fragmenter/formatters directly with arbitrary (out-of-range, overlapping, unsorted, duplicate, empty) locations and Index.Search highlighting (html/ansi, sizes 1..200) " +
			"against the fragment model and the faithfulness checker; highlight calls OVERLAPPING IN TIME (4-12 goroutines through Index.Search / Highlighter.BestFragmentsInField " +
			"on the shared registered html/ansi highlighters, every distinct result judged against the stored value and locations of its own hit; with the race detector in the " +
			"c19race binary); every registered token filter (single tokens) and analyzer (raw text) over word spaces built from the alphabet and literal tables read off the " +
			"component's own Go source (AST walk: rune literals, short string literals, snowballstem/porter tables of the packages it imports): the test words and stop/article " +
			"lists, boundary words (stem of 0-2 runes + one or two literals), ALL strings of 1-5 runes (thorough tier; a seed-rotating slice in the quick tier), sampled 6-8 rune " +
			"strings and random stem + literal (+ literal) / literal + stem words - the distinct output shapes go to the Coq contract checker, a panic or hang is reported with the word. " +
			"Non-trivial = the component produced at least one token / fragment.",
		ShardSize: 150,
		Workers:   12,
	}, gen, exec)
}
