// Highlight calls that OVERLAP IN TIME.
//
// The registered highlighters ("html", "ansi" and the c19_* sizes) are process-wide singletons of
// the registry cache: every Index.Search with req.Highlight, on any index, goes through the same
// Highlighter value.  One case = 4-12 goroutines calling highlighting at the same time, round
// after round, on 2-4 documents (each with its own index, analyzer and query; goroutine g works on
// document g mod n, so calls on different documents AND calls on the same document overlap):
//   via "search"  Index.Search(req with Highlight)
//   via "direct"  Highlighter.BestFragmentsInField on the hit's locations and stored document
// Every DISTINCT (locations, fragment) a goroutine ever observed for a document is handed to Coq
// and judged exactly like a sequential highlight case: the fragment must be a faithful piece of
// THAT document's stored value, marked at THAT hit's term locations, and be one of the model's
// fragments.  Inputs are deterministic; only the interleaving depends on the scheduler.
//
// In a binary built with -race (checks/C19.json, second harness entry, -mode conc) each case runs
// in a child process whose race reports are collected: a report is a Direct finding.
package core

import (
	"bytes"
	"encoding/json"
	"fmt"
	"os"
	osexec "os/exec"
	"path/filepath"
	"runtime"
	"sort"
	"strings"
	"sync"
	"time"
	"unicode/utf8"

	"github.com/blevesearch/bleve/v2"
	"github.com/blevesearch/bleve/v2/analysis"
	"github.com/blevesearch/bleve/v2/index/scorch"
	"github.com/blevesearch/bleve/v2/mapping"
	"github.com/blevesearch/bleve/v2/search"
	"github.com/blevesearch/bleve/v2/search/query"
	index "github.com/blevesearch/bleve_index_api"

	cf "verifharness/internal/coqfmt"
	"verifharness/internal/vh"
	"verifharness/internal/vrand"
)

type HLItem struct {
	An     string `json:"an"`
	Stored string `json:"stored"`
	Query  string `json:"query"`
	QKind  int    `json:"qkind"`
	Style  string `json:"style"`
	Size   int    `json:"size"` // 0 = the registered highlighter (fragment size 200)
}

const (
	concChildIn  = "C19_CONC_IN"
	concChildOut = "C19_CONC_OUT"
	concTimeCap  = 25 * time.Second
)

// analyzers that keep the text length (no char filters): the fragment can be judged against the stored value
func keepsLength(name string) bool {
	c := analyzers[name]
	if c == nil {
		return false
	}
	da, ok := c.an.(*analysis.DefaultAnalyzer)
	return ok && len(da.CharFilters) == 0
}

func genConc(f vh.Flags, r *vrand.R, emit func(In), quick, thorough int) {
	ans := []string{"standard", "simple", "en", "web", "cjk", "fr", "ar", "ru", "custom#shingle"}
	var keep []string
	for _, a := range ans {
		if keepsLength(a) {
			keep = append(keep, a)
		}
	}
	for i, n := 0, f.N(quick, thorough); i < n; i++ {
		gor := vrand.Pick(r, []int{4, 8, 8, 12})
		nitems := vrand.Pick(r, []int{2, 3, 4, 4}) // goroutine g works on document g mod nitems
		via := vrand.Pick(r, []string{"search", "direct", "direct"})
		// most goroutines of one case use the same registered highlighter
		style := vrand.Pick(r, []string{"html", "ansi"})
		size := 0
		if r.Chance(1, 3) {
			size = vrand.Pick(r, hlSizes)
		}
		var items []HLItem
		for g := 0; g < nitems; g++ {
			st, sz := style, size
			if r.Chance(1, 6) {
				st = vrand.Pick(r, []string{"html", "ansi"})
			}
			stored, ws := genStoredLong(r)
			qk := r.Intn(3)
			var q string
			if qk == 1 {
				j := r.Intn(len(ws))
				k := min(j+r.Range(1, 3), len(ws))
				q = strings.Join(ws[j:k], " ")
			} else {
				var qs []string
				for j, m := 0, r.Range(1, 2); j < m; j++ {
					qs = append(qs, vrand.Pick(r, ws))
				}
				q = strings.Join(qs, " ")
			}
			items = append(items, HLItem{An: vrand.Pick(r, keep), Stored: stored, Query: q, QKind: qk, Style: st, Size: sz})
		}
		iters := 60
		if via == "direct" {
			iters = 3000
		}
		emit(In{Kind: "hlconc", Items: items, Gor: gor, Iters: int(float64(iters) * max(f.Scale, 0.1)), Via: via})
	}
}

// stored values with many matches of few distinct words: many fragments per call
func genStoredLong(r *vrand.R) (string, []string) {
	n := r.Range(30, 60)
	voc := make([]string, r.Range(4, 8))
	for i := range voc {
		voc[i] = vrand.Pick(r, hlWords)
	}
	var sb strings.Builder
	var ws []string
	for i := 0; i < n; i++ {
		w := vrand.Pick(r, voc)
		if r.Chance(1, 5) {
			w = vrand.Pick(r, hlWords)
		}
		ws = append(ws, w)
		sb.WriteString(w)
		switch r.Intn(8) {
		case 0:
			sb.WriteString(", ")
		case 1:
			sb.WriteString(". ")
		case 2:
			sb.WriteString("\n")
		default:
			sb.WriteString(" ")
		}
	}
	return sb.String(), ws
}

func hlNameOf(style string, size int) (string, int) {
	if size > 0 {
		return fmt.Sprintf("c19_%s_%d", style, size), size
	}
	return style, 200
}

func buildHLIndex(an, stored string) (bleve.Index, error) {
	im := mapping.NewIndexMapping()
	if err := defineCustom(im, an); err != nil {
		return nil, err
	}
	fm := mapping.NewTextFieldMapping()
	fm.Analyzer = an
	fm.Store = true
	fm.IncludeTermVectors = true
	fm.IncludeInAll = false
	dm := mapping.NewDocumentStaticMapping()
	dm.AddFieldMappingsAt("body", fm)
	im.DefaultMapping = dm
	idx, err := bleve.NewUsing("", im, scorch.Name, scorch.Name, nil)
	if err != nil {
		return nil, err
	}
	if err := idx.Index("d", map[string]interface{}{"body": stored}); err != nil {
		idx.Close()
		return nil, err
	}
	return idx, nil
}

func hlQuery(qkind int, text string) query.Query {
	switch qkind {
	case 1:
		mq := bleve.NewMatchPhraseQuery(text)
		mq.SetField("body")
		return mq
	case 2:
		w := strings.Fields(text)
		p := ""
		if len(w) > 0 {
			p = strings.ToLower(w[0])
			if _, sz := utf8.DecodeRuneInString(p); sz > 0 && len(p) > sz {
				p = p[:sz]
			}
		}
		pq := bleve.NewPrefixQuery(p)
		pq.SetField("body")
		mq := bleve.NewMatchQuery(text)
		mq.SetField("body")
		return bleve.NewDisjunctionQuery(pq, mq)
	}
	mq := bleve.NewMatchQuery(text)
	mq.SetField("body")
	return mq
}

func hitLocs(hit *search.DocumentMatch) [][2]int {
	var locs [][2]int
	for _, ls := range hit.Locations["body"] {
		for _, l := range ls {
			locs = append(locs, [2]int{int(l.Start), int(l.End)})
		}
	}
	sort.Slice(locs, func(i, j int) bool {
		if locs[i][0] != locs[j][0] {
			return locs[i][0] < locs[j][0]
		}
		return locs[i][1] < locs[j][1]
	})
	return locs
}

// one observation of one item: the hit's locations and the fragment returned (nil = none)
type concObs struct {
	Locs [][2]int `json:"locs"`
	Frag *string  `json:"frag"`
	N    int      `json:"n"` // how often
}

type concOut struct {
	Obs      [][]concObs `json:"obs"` // per item, distinct observations in order of first appearance
	Calls    int         `json:"calls"`
	NoHit    int         `json:"nohit"`
	Errs     []string    `json:"errs"`
	Panics   []string    `json:"panics"`
	Capped   bool        `json:"capped"`
	Procs    int         `json:"procs"`
	SetupErr string      `json:"setup_err"`
}

// runConc executes the case in this process
func runConc(in In) concOut {
	setup()
	out := concOut{Obs: make([][]concObs, len(in.Items)), Procs: runtime.GOMAXPROCS(0)}
	type prepared struct {
		idx bleve.Index
		req func() *bleve.SearchRequest
		dm  func() *search.DocumentMatch
		doc index.Document
		hl  interface {
			BestFragmentsInField(*search.DocumentMatch, index.Document, string, int) []string
		}
	}
	preps := make([]*prepared, len(in.Items))
	defer func() {
		for _, p := range preps {
			if p != nil && p.idx != nil {
				p.idx.Close()
			}
		}
	}()
	// sequential preparation
	for i, it := range in.Items {
		hlMu.Lock()
		idx, err := buildHLIndex(it.An, it.Stored)
		hlMu.Unlock()
		if err != nil {
			out.SetupErr = err.Error()
			return out
		}
		name, _ := hlNameOf(it.Style, it.Size)
		it := it
		p := &prepared{idx: idx}
		p.req = func() *bleve.SearchRequest {
			req := bleve.NewSearchRequest(hlQuery(it.QKind, it.Query))
			req.Highlight = bleve.NewHighlightWithStyle(name)
			req.IncludeLocations = true
			return req
		}
		preps[i] = p
		if in.Via == "direct" {
			req := bleve.NewSearchRequest(hlQuery(it.QKind, it.Query))
			req.IncludeLocations = true
			res, err := idx.Search(req)
			if err != nil {
				out.SetupErr = err.Error()
				return out
			}
			if len(res.Hits) == 0 {
				p.dm = nil
				continue
			}
			hit := res.Hits[0]
			p.doc, err = idx.Document("d")
			if err != nil || p.doc == nil {
				out.SetupErr = fmt.Sprint("Document: ", err)
				return out
			}
			h, err := bleve.Config.Cache.HighlighterNamed(name)
			if err != nil {
				out.SetupErr = err.Error()
				return out
			}
			p.hl = h
			p.dm = func() *search.DocumentMatch {
				return &search.DocumentMatch{ID: hit.ID, Locations: hit.Locations}
			}
		}
	}
	gor := in.Gor
	if gor < 1 {
		gor = 1
	}
	var mu sync.Mutex // protects out.* merged at the end of each goroutine only
	var wg sync.WaitGroup
	start := make(chan struct{})
	deadline := time.Now().Add(concTimeCap)
	for g := 0; g < gor; g++ {
		wg.Add(1)
		go func(g int) {
			defer wg.Done()
			local := map[int][]concObs{}
			keys := map[int]map[string]int{}
			calls, nohit := 0, 0
			var errs, panics []string
			capped := false
			record := func(i int, locs [][2]int, frag *string) {
				k := fmt.Sprint(locs) + "|"
				if frag != nil {
					k += "S" + *frag
				}
				if keys[i] == nil {
					keys[i] = map[string]int{}
				}
				if j, ok := keys[i][k]; ok {
					local[i][j].N++
					return
				}
				keys[i][k] = len(local[i])
				local[i] = append(local[i], concObs{Locs: locs, Frag: frag, N: 1})
			}
			one := func(i int) {
				defer func() {
					if e := recover(); e != nil {
						if len(panics) < 3 {
							panics = append(panics, fmt.Sprintf("item %d (%s): %v", i, in.Via, e))
						}
					}
				}()
				p := preps[i]
				calls++
				if in.Via == "direct" {
					if p.dm == nil {
						nohit++
						return
					}
					dm := p.dm()
					fr := p.hl.BestFragmentsInField(dm, p.doc, "body", 1)
					var frag *string
					if len(fr) > 0 {
						frag = &fr[0]
					}
					record(i, hitLocs(dm), frag)
					return
				}
				res, err := p.idx.Search(p.req())
				if err != nil {
					if len(errs) < 3 {
						errs = append(errs, err.Error())
					}
					return
				}
				if len(res.Hits) == 0 {
					nohit++
					return
				}
				hit := res.Hits[0]
				var frag *string
				if fs := hit.Fragments["body"]; len(fs) > 0 {
					frag = &fs[0]
				}
				record(i, hitLocs(hit), frag)
			}
			<-start
		rounds:
			for it := 0; it < in.Iters; it++ {
				one(g % len(preps))
				if it&7 == 7 && time.Now().After(deadline) {
					capped = true
					break rounds
				}
			}
			mu.Lock()
			for i, l := range local {
				// union of what the goroutines sharing this document saw
				for _, o := range l {
					found := false
					for j := range out.Obs[i] {
						if sameObs(out.Obs[i][j], o) {
							out.Obs[i][j].N += o.N
							found = true
						}
					}
					if !found {
						out.Obs[i] = append(out.Obs[i], o)
					}
				}
			}
			out.Calls += calls
			out.NoHit += nohit
			out.Errs = append(out.Errs, errs...)
			out.Panics = append(out.Panics, panics...)
			out.Capped = out.Capped || capped
			mu.Unlock()
		}(g)
	}
	close(start)
	wg.Wait()
	return out
}

func sameObs(a, b concObs) bool {
	if (a.Frag == nil) != (b.Frag == nil) || a.Frag != nil && *a.Frag != *b.Frag || len(a.Locs) != len(b.Locs) {
		return false
	}
	for i := range a.Locs {
		if a.Locs[i] != b.Locs[i] {
			return false
		}
	}
	return true
}

// concChild: this process was started to execute one hlconc case (race-detector runs)
func concChild() bool {
	inPath, outPath := os.Getenv(concChildIn), os.Getenv(concChildOut)
	if inPath == "" || outPath == "" {
		return false
	}
	b, err := os.ReadFile(inPath)
	if err != nil {
		fmt.Fprintln(os.Stderr, "conc child:", err)
		os.Exit(3)
	}
	var in In
	if err := json.Unmarshal(b, &in); err != nil {
		fmt.Fprintln(os.Stderr, "conc child:", err)
		os.Exit(3)
	}
	out := runConc(in)
	ob, _ := json.Marshal(out)
	if err := os.WriteFile(outPath, ob, 0o644); err != nil {
		os.Exit(3)
	}
	return true
}

func execConc(in In) vh.Result {
	setup()
	for _, it := range in.Items {
		if d := preflight(it.An, []byte(it.Stored)); d != nil {
			return vh.Result{Direct: d, Class: "analyzer-" + d.Kind + ":" + it.An}
		}
	}
	var out concOut
	raceReport := ""
	if raceEnabled {
		dir, err := os.MkdirTemp("", "vh_c19_conc_")
		if err != nil {
			return vh.Result{Direct: &vh.Direct{Kind: "harness", Detail: err.Error()}}
		}
		defer os.RemoveAll(dir)
		ip, op := filepath.Join(dir, "in.json"), filepath.Join(dir, "out.json")
		b, _ := json.Marshal(in)
		if err := os.WriteFile(ip, b, 0o644); err != nil {
			return vh.Result{Direct: &vh.Direct{Kind: "harness", Detail: err.Error()}}
		}
		cmd := osexec.Command(os.Args[0], "-out", dir)
		cmd.Env = append(os.Environ(), concChildIn+"="+ip, concChildOut+"="+op, "GORACE=halt_on_error=0 exitcode=0")
		var stderr bytes.Buffer
		cmd.Stderr = &stderr
		done := make(chan error, 1)
		if err := cmd.Start(); err != nil {
			return vh.Result{Direct: &vh.Direct{Kind: "harness", Detail: err.Error()}}
		}
		go func() { done <- cmd.Wait() }()
		var werr error
		select {
		case werr = <-done:
		case <-time.After(20 * time.Minute):
			cmd.Process.Kill()
			<-done
			return vh.Result{Direct: &vh.Direct{Kind: "timeout", Detail: fmt.Sprintf("concurrent highlighting (%s, %d goroutines): the child process did not finish within 20 minutes", in.Via, in.Gor)}, Class: "highlight-conc-timeout"}
		}
		se := stderr.String()
		if i := strings.Index(se, "WARNING: DATA RACE"); i >= 0 {
			raceReport = raceDigest(se[i:])
		}
		ob, err := os.ReadFile(op)
		if err != nil || json.Unmarshal(ob, &out) != nil {
			return vh.Result{Direct: &vh.Direct{Kind: "crash", Detail: fmt.Sprintf("concurrent highlighting (%s, %d goroutines): the child process died (%v): %s", in.Via, in.Gor, werr, tail(se, 1800))}, Class: "highlight-conc-crash"}
		}
	} else {
		var d *vh.Direct
		d = vh.Guard(20*time.Minute, fmt.Sprintf("concurrent highlighting (%s, %d goroutines)", in.Via, in.Gor), func() { out = runConc(in) })
		if d != nil {
			return vh.Result{Direct: d, Class: "highlight-conc-" + d.Kind}
		}
	}
	h := []string{"hlconc:" + in.Via, fmt.Sprintf("hlconc:goroutines:%d", in.Gor), fmt.Sprintf("hlconc:calls:10^%d", digits(int64(out.Calls)))}
	if raceEnabled {
		h = append(h, "hlconc:race-detector")
	}
	if out.Procs < 2 {
		h = append(h, "hlconc:GOMAXPROCS<2(no-overlap)")
	}
	if out.Capped {
		h = append(h, "hlconc:time-capped")
	}
	if out.SetupErr != "" {
		return vh.Result{Term: cf.App("CRan", "8"), Hist: append(h, "hlconc:setup-error:"+firstWords(out.SetupErr))}
	}
	for _, e := range out.Errs {
		h = append(h, "hlconc:error:"+firstWords(e))
	}
	var items []cf.T
	multi := false
	for i, obs := range out.Obs {
		it := in.Items[i]
		_, size := hlNameOf(it.Style, it.Size)
		st := 0
		if it.Style == "ansi" {
			st = 1
		}
		if len(obs) > 1 {
			multi = true
			if os.Getenv("C19_DEBUG") != "" {
				fmt.Fprintf(os.Stderr, "MULTI via=%s item %d an=%s style=%s size=%d query=%q qkind=%d\n", in.Via, i, it.An, it.Style, it.Size, it.Query, it.QKind)
				for _, o := range obs {
					fr := "<none>"
					if o.Frag != nil {
						fr = *o.Frag
					}
					fmt.Fprintf(os.Stderr, "   n=%d locs=%v frag=%q\n", o.N, o.Locs, fr)
				}
			}
		}
		for _, o := range obs {
			var ft cf.T = cf.None
			if o.Frag != nil {
				ft = cf.Some(cf.Str(*o.Frag))
			}
			items = append(items, cf.App("HLI", cf.Int(st), cf.Int(size), cf.Str(it.Stored), cf.ListOf(o.Locs, pairT), ft))
		}
	}
	if multi {
		h = append(h, "obs:hlconc:one-document-several-distinct-results")
	}
	res := vh.Result{Term: cf.App("CHighlightMany", cf.List(items)), Nontrivial: len(items) > 0 && out.Calls > len(in.Items), Hist: h}
	switch {
	case len(out.Panics) > 0:
		res.Direct = &vh.Direct{Kind: "panic", Detail: fmt.Sprintf("concurrent highlighting (%s, %d goroutines): %s", in.Via, in.Gor, strings.Join(out.Panics, "; "))}
		res.Class = "highlight-conc-panic"
	case raceReport != "":
		res.Direct = &vh.Direct{Kind: "data-race", Detail: fmt.Sprintf("concurrent highlighting (%s, %d goroutines) on the shared registered highlighter: %s", in.Via, in.Gor, raceReport)}
		res.Class = "highlight-conc-race"
	}
	return res
}

func tail(s string, n int) string {
	if len(s) > n {
		return s[len(s)-n:]
	}
	return s
}

// the first race report: the two accesses with their first frames
func raceDigest(s string) string {
	if i := strings.Index(s, "=================="); i > 0 {
		s = s[:i]
	}
	var keep []string
	lines := strings.Split(s, "\n")
	for i := 0; i < len(lines) && len(keep) < 14; i++ {
		l := strings.TrimSpace(lines[i])
		if l == "" {
			continue
		}
		if strings.HasPrefix(l, "WARNING") {
			keep = append(keep, l)
			continue
		}
		if strings.HasPrefix(l, "Write at") || strings.HasPrefix(l, "Read at") || strings.HasPrefix(l, "Previous") {
			keep = append(keep, l)
			// the function and file:line of the access
			for j := i + 1; j < len(lines) && j <= i+2; j++ {
				keep = append(keep, strings.TrimSpace(lines[j]))
			}
		}
	}
	return strings.Join(keep, " | ")
}
