//go:build !race

package core

const raceEnabled = false
