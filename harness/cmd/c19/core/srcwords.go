// Alphabets, suffix tables and word lists read off the Go source of the analysis components.
//
// For a component instance the harness finds the file that declares its Go type (reflect gives the
// package path and type name, the directory comes from the file name the compiler recorded for a
// known function of the module), takes the closure of the package-level declarations that file
// uses, and collects from it
//   - every rune literal and every short string literal (the letters, vowel/consonant classes,
//     accent tables and suffix/prefix tables the code compares its input with);
//   - the words of long raw strings (stop-word and article lists) as a corpus;
//   - the string literals of the package's *_test.go files (the embedded test words) as a corpus;
//   - the same for a snowballstem/<lang> package the declaring file imports.
//
// Nothing here decides what an output should be: it only shapes inputs so that they follow the
// code under test.
package core

import (
	"go/ast"
	"go/parser"
	"go/token"
	"os"
	"path/filepath"
	"reflect"
	"runtime"
	"sort"
	"strconv"
	"strings"
	"sync"
	"unicode"
	"unicode/utf8"

	"github.com/blevesearch/bleve/v2/registry"
	porterstemmer "github.com/blevesearch/go-porterstemmer"
	"github.com/blevesearch/snowball"
	"github.com/blevesearch/snowballstem"
)

type srcInfo struct {
	files []string // source files (relative) that contributed
	alpha []rune   // sorted
	lits  []string // literal strings (rune literals included), sorted by (length, text)
	test  []string // words of the package's test files
	data  []string // words of long raw strings (stop lists, article lists)
}

const (
	bleveMod = "github.com/blevesearch/bleve/v2"
	snowMod  = "github.com/blevesearch/snowballstem"
	snow2Mod = "github.com/blevesearch/snowball" // used by token/snowball
	portMod  = "github.com/blevesearch/go-porterstemmer"
)

func fileOfFunc(fn interface{}) string {
	pc := reflect.ValueOf(fn).Pointer()
	f := runtime.FuncForPC(pc)
	if f == nil {
		return ""
	}
	file, _ := f.FileLine(pc)
	return file
}

var (
	rootOnce            sync.Once
	bleveRoot, snowRoot string
	snow2Root, portRoot string
)

func roots() (string, string) {
	rootOnce.Do(func() {
		if f := fileOfFunc(registry.NewCache); f != "" {
			bleveRoot = filepath.Dir(filepath.Dir(f))
		}
		if f := fileOfFunc(snowballstem.NewEnv); f != "" {
			snowRoot = filepath.Dir(f)
		}
		if f := fileOfFunc(snowball.Stem); f != "" {
			snow2Root = filepath.Dir(f)
		}
		if f := fileOfFunc(porterstemmer.StemWithoutLowerCasing); f != "" {
			portRoot = filepath.Dir(f)
		}
	})
	return bleveRoot, snowRoot
}

func pkgDir(pkgPath string) string {
	br, sr := roots()
	switch {
	case pkgPath == bleveMod || strings.HasPrefix(pkgPath, bleveMod+"/"):
		if br == "" {
			return ""
		}
		return filepath.Join(br, strings.TrimPrefix(pkgPath, bleveMod))
	case pkgPath == snowMod || strings.HasPrefix(pkgPath, snowMod+"/"):
		if sr == "" {
			return ""
		}
		return filepath.Join(sr, strings.TrimPrefix(pkgPath, snowMod))
	case pkgPath == portMod:
		return portRoot
	case strings.HasPrefix(pkgPath, snow2Mod+"/"):
		if snow2Root == "" {
			return ""
		}
		return filepath.Join(snow2Root, strings.TrimPrefix(pkgPath, snow2Mod))
	}
	return ""
}

type parsedPkg struct {
	dir   string
	files map[string]*ast.File // non-test files by base name
	tests map[string]*ast.File
	decls map[string][]declAt // package-level name -> declarations
}
type declAt struct {
	file string
	node ast.Node
}

var (
	pkgMu    sync.Mutex
	pkgCache = map[string]*parsedPkg{}
)

func parsePkg(dir string) *parsedPkg {
	pkgMu.Lock()
	defer pkgMu.Unlock()
	if p, ok := pkgCache[dir]; ok {
		return p
	}
	p := &parsedPkg{dir: dir, files: map[string]*ast.File{}, tests: map[string]*ast.File{}, decls: map[string][]declAt{}}
	pkgCache[dir] = p
	ents, err := os.ReadDir(dir)
	if err != nil {
		return p
	}
	fset := token.NewFileSet()
	for _, e := range ents {
		n := e.Name()
		if e.IsDir() || !strings.HasSuffix(n, ".go") {
			continue
		}
		f, err := parser.ParseFile(fset, filepath.Join(dir, n), nil, 0)
		if err != nil {
			continue
		}
		if strings.HasSuffix(n, "_test.go") {
			p.tests[n] = f
			continue
		}
		p.files[n] = f
		for _, d := range f.Decls {
			switch d := d.(type) {
			case *ast.FuncDecl:
				if d.Recv != nil && len(d.Recv.List) > 0 {
					// methods come with their receiver type, not by name
					if rn := recvName(d.Recv.List[0].Type); rn != "" {
						p.decls["(method)"+rn] = append(p.decls["(method)"+rn], declAt{n, d})
					}
				} else {
					p.decls[d.Name.Name] = append(p.decls[d.Name.Name], declAt{n, d})
				}
			case *ast.GenDecl:
				for _, s := range d.Specs {
					switch s := s.(type) {
					case *ast.TypeSpec:
						p.decls[s.Name.Name] = append(p.decls[s.Name.Name], declAt{n, s})
					case *ast.ValueSpec:
						for _, id := range s.Names {
							p.decls[id.Name] = append(p.decls[id.Name], declAt{n, s})
						}
					}
				}
			}
		}
	}
	return p
}

func recvName(e ast.Expr) string {
	switch e := e.(type) {
	case *ast.StarExpr:
		return recvName(e.X)
	case *ast.Ident:
		return e.Name
	case *ast.IndexExpr:
		return recvName(e.X)
	}
	return ""
}

// constructors and init functions only wire components together (names, config keys)
func isWiring(d *ast.FuncDecl) bool {
	return d.Recv == nil && (d.Name.Name == "init" || strings.HasSuffix(d.Name.Name, "Constructor"))
}

type harvest struct {
	alpha map[rune]bool
	lits  map[string]bool
	data  map[string]bool
	test  map[string]bool
	files map[string]bool
}

func newHarvest() *harvest {
	return &harvest{alpha: map[rune]bool{}, lits: map[string]bool{}, data: map[string]bool{}, test: map[string]bool{}, files: map[string]bool{}}
}

func wordLike(s string) bool {
	if s == "" || utf8.RuneCountInString(s) > 40 || !utf8.ValidString(s) {
		return false
	}
	for _, r := range s {
		if !(unicode.IsLetter(r) || unicode.IsMark(r) || unicode.IsDigit(r) || r == '\'' || r == '’' || r == '-' || r == 0x200c || r == 0x200d) {
			return false
		}
	}
	return true
}

func alphaRune(r rune) bool {
	if r == utf8.RuneError || r == '_' || r < 0x20 || unicode.IsSpace(r) || unicode.IsControl(r) && r != 0x200c && r != 0x200d {
		return false
	}
	return true
}

// words of a word-list text: one entry per line, comments after '|' or '#'
func listWords(s string, into map[string]bool) {
	for _, line := range strings.Split(s, "\n") {
		if i := strings.IndexAny(line, "|#"); i >= 0 {
			line = line[:i]
		}
		for _, w := range strings.Fields(line) {
			if wordLike(w) {
				into[w] = true
			}
		}
	}
}

// literals of one declaration (or file) into the harvest
func (h *harvest) node(n ast.Node) {
	skip := map[*ast.BasicLit]bool{}
	ast.Inspect(n, func(x ast.Node) bool {
		switch x := x.(type) {
		case *ast.ImportSpec:
			return false
		case *ast.Field:
			if x.Tag != nil {
				skip[x.Tag] = true
			}
		case *ast.IndexExpr: // config["min"]
			if bl, ok := x.Index.(*ast.BasicLit); ok {
				skip[bl] = true
			}
		case *ast.CallExpr: // fmt.Errorf("..."), registry.Register...("name", ...)
			if sel, ok := x.Fun.(*ast.SelectorExpr); ok {
				if id, ok := sel.X.(*ast.Ident); ok && (id.Name == "fmt" || id.Name == "errors" || id.Name == "registry" || id.Name == "cache" || id.Name == "log") {
					for _, a := range x.Args {
						if bl, ok := a.(*ast.BasicLit); ok {
							skip[bl] = true
						}
					}
				}
			}
		case *ast.ValueSpec: // const Name = "stemmer_fr_light"
			named := false
			for _, id := range x.Names {
				if strings.HasSuffix(id.Name, "Name") {
					named = true
				}
			}
			if named {
				return false
			}
		case *ast.BasicLit:
			if skip[x] {
				return true
			}
			switch x.Kind {
			case token.CHAR:
				if r, _, _, err := strconv.UnquoteChar(x.Value[1:len(x.Value)-1], '\''); err == nil && alphaRune(r) {
					h.alpha[r] = true
					h.lits[string(r)] = true
				}
			case token.STRING:
				s, err := strconv.Unquote(x.Value)
				if err != nil || s == "" {
					return true
				}
				if strings.ContainsAny(s, " \t\n") || utf8.RuneCountInString(s) > 24 {
					listWords(s, h.data)
					return true
				}
				if !utf8.ValidString(s) || strings.ContainsAny(s, "_%:/.\\") {
					return true
				}
				ok := true
				for _, r := range s {
					if !alphaRune(r) {
						ok = false
					}
				}
				if !ok {
					return true
				}
				h.lits[s] = true
				for _, r := range s {
					h.alpha[r] = true
				}
			}
		}
		return true
	})
}

// closure of the package-level declarations used by the file declaring typeName
func (h *harvest) closure(p *parsedPkg, typeName string, followSnow bool) {
	start := ""
	for _, d := range p.decls[typeName] {
		if _, ok := d.node.(*ast.TypeSpec); ok {
			start = d.file
		}
	}
	var work []declAt
	seen := map[ast.Node]bool{}
	add := func(d declAt) {
		if seen[d.node] {
			return
		}
		if fd, ok := d.node.(*ast.FuncDecl); ok && isWiring(fd) {
			return
		}
		seen[d.node] = true
		work = append(work, d)
	}
	addFile := func(fn string) {
		f := p.files[fn]
		for _, d := range f.Decls {
			switch d := d.(type) {
			case *ast.FuncDecl:
				add(declAt{fn, d})
			case *ast.GenDecl:
				for _, s := range d.Specs {
					if _, ok := s.(*ast.ImportSpec); !ok {
						add(declAt{fn, s})
					}
				}
			}
		}
	}
	if start == "" {
		// a type we cannot find (alias, generic): the whole package
		for fn := range p.files {
			addFile(fn)
		}
	} else {
		addFile(start)
	}
	for len(work) > 0 {
		d := work[len(work)-1]
		work = work[:len(work)-1]
		h.files[filepath.Join(filepath.Base(p.dir), d.file)] = true
		h.node(d.node)
		if ts, ok := d.node.(*ast.TypeSpec); ok {
			for _, m := range p.decls["(method)"+ts.Name.Name] {
				add(m)
			}
		}
		ast.Inspect(d.node, func(x ast.Node) bool {
			if id, ok := x.(*ast.Ident); ok {
				for _, t := range p.decls[id.Name] {
					add(t)
				}
			}
			return true
		})
	}
	if followSnow {
		// snowballstem/<lang> packages imported by the contributing files (a file importing many
		// languages is a dispatcher: its languages are attached by the caller instead)
		for fn := range p.files {
			if !h.files[filepath.Join(filepath.Base(p.dir), fn)] {
				continue
			}
			var langs []string
			for _, im := range p.files[fn].Imports {
				ip, _ := strconv.Unquote(im.Path.Value)
				if strings.HasPrefix(ip, snowMod+"/") || ip == portMod {
					langs = append(langs, ip)
				}
			}
			if len(langs) > 0 && len(langs) <= 2 {
				for _, ip := range langs {
					h.wholePkg(pkgDir(ip))
				}
			}
		}
	}
	for _, f := range p.tests {
		h.testFile(f)
	}
}

func (h *harvest) wholePkg(dir string) {
	if dir == "" {
		return
	}
	p := parsePkg(dir)
	for fn, f := range p.files {
		h.files[filepath.Join(filepath.Base(dir), fn)] = true
		h.node(f)
	}
	for _, f := range p.tests {
		h.testFile(f)
	}
}

func (h *harvest) testFile(f *ast.File) {
	ast.Inspect(f, func(x ast.Node) bool {
		if _, ok := x.(*ast.ImportSpec); ok {
			return false
		}
		if bl, ok := x.(*ast.BasicLit); ok && bl.Kind == token.STRING {
			if s, err := strconv.Unquote(bl.Value); err == nil {
				for _, w := range strings.Fields(s) {
					if utf8.ValidString(w) && utf8.RuneCountInString(w) <= 40 && !strings.ContainsAny(w, "_%") {
						h.test[w] = true
					}
				}
			}
		}
		return true
	})
}

func (h *harvest) info() *srcInfo {
	si := &srcInfo{}
	for r := range h.alpha {
		si.alpha = append(si.alpha, r)
	}
	sort.Slice(si.alpha, func(i, j int) bool { return si.alpha[i] < si.alpha[j] })
	si.lits = keysByLen(h.lits)
	si.test = keysByLen(h.test)
	si.data = keysByLen(h.data)
	for f := range h.files {
		si.files = append(si.files, f)
	}
	sort.Strings(si.files)
	return si
}

func keysByLen(m map[string]bool) []string {
	var ks []string
	for k := range m {
		ks = append(ks, k)
	}
	sort.Slice(ks, func(i, j int) bool {
		a, b := utf8.RuneCountInString(ks[i]), utf8.RuneCountInString(ks[j])
		if a != b {
			return a < b
		}
		return ks[i] < ks[j]
	})
	return ks
}

// harvestValue adds the source facts of the Go type of v
func (h *harvest) value(v interface{}) {
	if v == nil {
		return
	}
	t := reflect.TypeOf(v)
	for t.Kind() == reflect.Ptr {
		t = t.Elem()
	}
	dir := pkgDir(t.PkgPath())
	if dir == "" || t.Name() == "" {
		return
	}
	h.closure(parsePkg(dir), t.Name(), true)
}
