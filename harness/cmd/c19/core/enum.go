// Systematic word enumeration for every registered token filter and analyzer.
//
// The word spaces are built from the alphabet and the literal tables the component's own source
// mentions (srcwords.go):
//   words     the embedded test words, the stop/article lists and the literals themselves
//   boundary  (stem of 0..2 runes) + literal, + two short literals, and (stem of 0..1) + two literals:
//             the words that reduce to 0-2 runes once the literals the code strips are removed
//   enum      ALL strings of 1..5 runes over the alphabet
//   long      sampled strings of 6..8 runes over the alphabet
//   stemsuf   random stem + each literal (+ a further literal), and literal + stem (prefix rules)
// Token filters get every word as one token; analyzers get it as raw text.  One case executes a
// whole slice of a space; the distinct output shapes (text length, offsets, positions) go to the
// Coq contract checker, panics and hangs are reported with the word that caused them.
package core

import (
	"fmt"
	"os"
	"reflect"
	"runtime/debug"
	"sort"
	"strings"
	"sync/atomic"
	"time"
	"unicode"
	"unicode/utf8"

	"github.com/blevesearch/bleve/v2/analysis"

	cf "verifharness/internal/coqfmt"
	"verifharness/internal/vh"
	"verifharness/internal/vrand"
)

// ---------------------------------------------------------------- word spaces

// a space is an indexable, finite sequence of words
type space struct {
	n  int64
	at func(i int64, buf []byte) []byte
}

// concatenations of one entry from each list, the LAST list varying fastest
func prod(lists ...[]string) space {
	n := int64(1)
	for _, l := range lists {
		n *= int64(len(l))
	}
	return space{n: n, at: func(i int64, buf []byte) []byte {
		var idx [8]int
		for j := len(lists) - 1; j >= 0; j-- {
			m := int64(len(lists[j]))
			idx[j] = int(i % m)
			i /= m
		}
		for j := range lists {
			buf = append(buf, lists[j][idx[j]]...)
		}
		return buf
	}}
}

func union(ss ...space) space {
	var n int64
	for _, s := range ss {
		n += s.n
	}
	return space{n: n, at: func(i int64, buf []byte) []byte {
		for _, s := range ss {
			if i < s.n {
				return s.at(i, buf)
			}
			i -= s.n
		}
		return buf
	}}
}

func listSpace(ws []string) space { return prod(ws) }

func runeStrings(alpha []rune) []string {
	out := make([]string, len(alpha))
	for i, r := range alpha {
		out[i] = string(r)
	}
	return out
}

// all strings of 0..m runes over the alphabet
func stemsUpTo(a []string, m int) []string {
	out := []string{""}
	prev := []string{""}
	for l := 1; l <= m; l++ {
		var cur []string
		for _, p := range prev {
			for _, x := range a {
				cur = append(cur, p+x)
			}
		}
		out = append(out, cur...)
		prev = cur
	}
	return out
}

func enumSpace(a []string, maxLen int) space {
	var ss []space
	for l := 1; l <= maxLen; l++ {
		ls := make([][]string, l)
		for i := range ls {
			ls[i] = a
		}
		ss = append(ss, prod(ls...))
	}
	return union(ss...)
}

func shortLits(lits []string) []string {
	var out []string
	for _, l := range lits {
		if utf8.RuneCountInString(l) <= 2 {
			out = append(out, l)
		}
	}
	return out
}

// the boundary words: what is left once the literals are stripped has 0..2 runes
//   b1  stem(0..2) + one literal (or none)
//   b2  stem(0..2) + two short (1-2 rune) literals
//   b3  stem(0..1) + two literals of any length
func boundarySpace(part string, a, lits []string) space {
	switch part {
	case "b1":
		return prod(stemsUpTo(a, 2), append([]string{""}, lits...))
	case "b2":
		sh := shortLits(lits)
		return prod(stemsUpTo(a, 2), sh, sh)
	}
	return prod(stemsUpTo(a, 1), lits, lits)
}

func isPrime(n int64) bool {
	if n < 2 {
		return false
	}
	for d := int64(2); d*d <= n; d++ {
		if n%d == 0 {
			return false
		}
	}
	return true
}

// rotation modulus for a space of n words and a budget of b words per run: a prime >= n/b that
// divides none of the radices (so that every position of the word keeps varying inside one slice)
func rotation(n, b int64, radices ...int) int64 {
	if n <= b {
		return 1
	}
	m := (n + b - 1) / b
	for ; ; m++ {
		if !isPrime(m) {
			continue
		}
		ok := true
		for _, r := range radices {
			if r > 1 && int64(r)%m == 0 {
				ok = false
			}
		}
		if ok {
			return m
		}
	}
}

// ---------------------------------------------------------------- per-component word source

type wordSrc struct {
	alpha []string // single-rune strings
	lits  []string
	words []string // test words, data words, literals
	files []string
}

var defaultAlpha = []rune{'a', 'b', 'é', '日', '😀'}

// token maps (stop words, articles, keyword and dictionary lists) held by a component
func tokenMapWords2(v interface{}, into map[string]bool) {
	rv := reflect.ValueOf(v)
	for rv.Kind() == reflect.Ptr || rv.Kind() == reflect.Interface {
		if rv.IsNil() {
			return
		}
		rv = rv.Elem()
	}
	if rv.Kind() != reflect.Struct {
		return
	}
	for i := 0; i < rv.NumField(); i++ {
		f := rv.Field(i)
		if f.Kind() == reflect.Map && f.Type().Key().Kind() == reflect.String && f.Type().Elem().Kind() == reflect.Bool {
			for _, k := range f.MapKeys() {
				into[k.String()] = true
			}
		}
	}
}

func buildSrc(vals []interface{}, extraPkgs []string, extraLits []string) *wordSrc {
	h := newHarvest()
	maps := map[string]bool{}
	for _, v := range vals {
		h.value(v)
		tokenMapWords2(v, maps)
	}
	for _, p := range extraPkgs {
		h.wholePkg(pkgDir(p))
	}
	for _, l := range extraLits {
		maps[l] = true
	}
	// small maps (articles, dictionaries) are literal tables of the component; big ones (stop lists) a corpus
	for w := range maps {
		if !wordLike(w) {
			continue
		}
		if len(maps) <= 40 {
			h.lits[w] = true
			for _, r := range w {
				h.alpha[r] = true
			}
		} else {
			h.data[w] = true
		}
	}
	si := h.info()
	ws := &wordSrc{files: si.files}
	alpha := si.alpha
	have := map[rune]bool{}
	for _, r := range alpha {
		have[r] = true
	}
	addRune := func(r rune) {
		if !have[r] {
			have[r] = true
			alpha = append(alpha, r)
		}
	}
	if len(alpha) < 3 {
		for _, r := range defaultAlpha {
			addRune(r)
		}
	} else {
		// one letter the source does not mention, ASCII and of the script of the last letter mentioned
		for _, r := range "bkwz" {
			if !have[r] {
				addRune(r)
				break
			}
		}
		var top rune
		for _, r := range alpha {
			if unicode.IsLetter(r) && r > top {
				top = r
			}
		}
		if top >= 0x250 {
			for r := top + 1; r < top+64; r++ {
				if unicode.IsLetter(r) && !have[r] {
					addRune(r)
					break
				}
			}
		}
	}
	sort.Slice(alpha, func(i, j int) bool { return alpha[i] < alpha[j] })
	ws.alpha = runeStrings(alpha)
	ws.lits = si.lits
	seen := map[string]bool{}
	for _, l := range [][]string{si.test, si.data, si.lits} {
		for _, w := range l {
			if !seen[w] {
				seen[w] = true
				ws.words = append(ws.words, w)
			}
		}
	}
	return ws
}

// ---------------------------------------------------------------- gen

const (
	enumMaxLen = 5
	// words per executed case
	enumChunk    = 400000
	enumCapAlpha = 40
	enumCapLits  = 300
)

// at most cap consecutive entries (wrapping), starting at a position that moves with the seed so
// that the windows of seeds 0..ceil(len/cap)-1 cover the table
func window(xs []string, cap int, seed uint64) []string {
	if len(xs) <= cap {
		return xs
	}
	start := int((seed % uint64((len(xs)+cap-1)/cap)) * uint64(cap) % uint64(len(xs)))
	out := make([]string, 0, cap)
	for i := 0; i < cap; i++ {
		out = append(out, xs[(start+i)%len(xs)])
	}
	return out
}

type enumComp struct {
	mode string // "filter" | "analyzer"
	name string
	c    *comp
}

func enumComps() []enumComp {
	var out []enumComp
	for _, n := range sortedKeys(filters) {
		out = append(out, enumComp{"filter", n, filters[n]})
	}
	for _, n := range sortedKeys(analyzers) {
		out = append(out, enumComp{"analyzer", n, analyzers[n]})
	}
	return out
}

func genEnum(f vh.Flags, r *vrand.R, emit func(In)) {
	thorough := f.Tier == "thorough"
	for _, ec := range enumComps() {
		ws := ec.c.src
		if ws == nil {
			continue
		}
		// very large tables (asciifolding, Devanagari) are walked through a window that rotates with the seed
		ws = &wordSrc{alpha: window(ws.alpha, enumCapAlpha, f.Seed), lits: window(ws.lits, enumCapLits, f.Seed), words: ws.words}
		alpha := strings.Join(ws.alpha, "")
		base := In{Kind: "enum", Comp: ec.name, Mode: ec.mode, Alpha: alpha, Lits: ws.lits}
		// slices of a space: [off, off+stride, ...), split into cases of at most enumChunk words
		// token filters see the light parts (corpus, b1, long, stemsuf) a second time as raw text
		// behind the unicode tokenizer and to_lower
		emit0 := emit
		emit := func(in In) {
			emit0(in)
			if ec.mode == "filter" && (in.Part == "words" || in.Part == "b1" || in.Part == "long" || in.Part == "stemsuf") {
				in.Mode = "pipeline"
				if in.Part == "b1" && !thorough && in.Count > 50000 {
					// a rotating tenth or so of the slice
					m := rotation(in.Count, 50000)
					in.Off += int64(f.Seed%uint64(m)) * in.Stride
					in.Stride *= m
					in.Count = (in.Count + m - 1) / m
				}
				emit0(in)
			}
		}
		emitSlice := func(part string, n, rot, off int64) {
			cnt := (n - off + rot - 1) / rot // words in the slice
			if off >= n {
				cnt = 0
			}
			for done := int64(0); done < cnt; done += enumChunk {
				in := base
				in.Part = part
				in.Off, in.Stride = off+done*rot, rot
				in.Count = min(int64(enumChunk), cnt-done)
				emit(in)
			}
		}
		// (iii) corpus
		if len(ws.words) > 0 {
			in := base
			in.Part, in.Words, in.Stride, in.Count = "words", ws.words, 1, int64(len(ws.words))
			emit(in)
		}
		// boundary words: b1 always and in full; b2, b3 in full up to a budget (rotating beyond it)
		for _, part := range []string{"b1", "b2", "b3"} {
			bs := boundarySpace(part, ws.alpha, ws.lits)
			if bs.n == 0 {
				continue
			}
			budget := bs.n
			if !thorough && part != "b1" {
				budget = int64(float64(map[string]int{"b2": 600000, "b3": 100000}[part]) * f.Scale)
				if ec.mode == "analyzer" {
					budget /= 4
				}
			}
			rot := rotation(bs.n, budget, len(ws.alpha), len(ws.lits), len(shortLits(ws.lits)))
			emitSlice(part, bs.n, rot, int64(f.Seed%uint64(rot)))
		}
		// (i) the enumeration: full in the thorough tier, a rotating slice in the quick tier
		es := enumSpace(ws.alpha, enumMaxLen)
		budgetE := int64(float64(60000) * f.Scale)
		if ec.mode == "analyzer" {
			budgetE /= 2
		}
		if thorough {
			budgetE = es.n
		}
		rotE := rotation(es.n, budgetE, len(ws.alpha))
		emitSlice("enum", es.n, rotE, int64(f.Seed%uint64(rotE)))
		// sampled longer words and stem+suffix words
		in := base
		in.Part, in.PSeed, in.Count, in.Stride = "long", r.U64(), int64(f.N(4000, 400000)), 1
		emit(in)
		in = base
		in.Part, in.PSeed, in.Count, in.Stride = "stemsuf", r.U64(), int64(f.N(3, 60)), 1 // rounds over the literal table
		emit(in)
		// modelled filters: some of the words also token by token against the model
		if ec.mode == "filter" && ec.c.model != nil {
			for i, n := 0, f.N(6, 300); i < n; i++ {
				var w []byte
				switch r.Intn(3) {
				case 0:
					bs := boundarySpace("b1", ws.alpha, ws.lits)
					w = bs.at(int64(r.U64()%uint64(bs.n)), nil)
				case 1:
					w = es.at(int64(r.U64()%uint64(es.n)), nil)
				default:
					if len(ws.words) > 0 {
						w = []byte(vrand.Pick(r, ws.words))
					} else {
						w = es.at(int64(r.U64()%uint64(es.n)), nil)
					}
				}
				emit(In{Kind: "filter", Comp: ec.name, Tok: "single", Data: w})
			}
		}
	}
}

// ---------------------------------------------------------------- exec

// forWords calls fn for every word of the slice described by in, starting at word number `from`
// (so that a run can continue behind a word that panicked); it returns the number of words
func forWords(in In, from int64, fn func(k int64, w []byte)) int64 {
	a := runeStrings([]rune(in.Alpha))
	buf := make([]byte, 0, 64)
	switch in.Part {
	case "words":
		for k := from; k < int64(len(in.Words)); k++ {
			fn(k, append(buf[:0], in.Words[k]...))
		}
		return int64(len(in.Words))
	case "b1", "b2", "b3", "enum":
		var sp space
		if in.Part == "enum" {
			sp = enumSpace(a, enumMaxLen)
		} else {
			sp = boundarySpace(in.Part, a, in.Lits)
		}
		for k := from; k < in.Count; k++ {
			i := in.Off + k*in.Stride
			if i >= sp.n {
				break
			}
			fn(k, sp.at(i, buf[:0]))
		}
		return in.Count
	case "long":
		// the PRNG is advanced word by word: regenerate up to `from`
		r := vrand.New(in.PSeed)
		for k := int64(0); k < in.Count; k++ {
			w := buf[:0]
			for j, n := 0, r.Range(6, 8); j < n; j++ {
				w = append(w, a[r.Intn(len(a))]...)
			}
			if k >= from {
				fn(k, w)
			}
		}
		return in.Count
	case "stemsuf":
		r := vrand.New(in.PSeed)
		lits := in.Lits
		if len(lits) == 0 {
			lits = a
		}
		total := in.Count * int64(len(lits)) * 4
		k := int64(0)
		stem := func(lo, hi int) []byte {
			var s []byte
			for j, n := 0, r.Range(lo, hi); j < n; j++ {
				s = append(s, a[r.Intn(len(a))]...)
			}
			return s
		}
		for round := int64(0); round < in.Count; round++ {
			for _, l := range lits {
				st := stem(1, 6)
				l2 := lits[r.Intn(len(lits))]
				st2 := stem(0, 2)
				forms := [4][]byte{
					append(append(buf[:0:0], st...), l...),                            // stem + suffix
					append(append(append(buf[:0:0], st...), l...), l2...),             // stem + suffix + further suffix
					append(append(buf[:0:0], l...), st...),                            // prefix + stem
					append(append(append(append(buf[:0:0], l2...), st...), l...), st2...), // prefix + stem + suffix + tail
				}
				for _, w := range forms {
					if k >= from {
						fn(k, w)
					}
					k++
				}
			}
		}
		return total
	}
	return 0
}

type shape struct {
	n  int
	o3 [][3]int
}

const enumWatchdog = 15 * time.Minute

func execEnum(in In) vh.Result {
	var c *comp
	kind := "1"
	if in.Mode == "analyzer" {
		c, kind = analyzers[in.Comp], "2"
	} else {
		c = filters[in.Comp]
	}
	if c == nil {
		return vh.Result{Skip: true}
	}
	kindOf := in.Mode // the kind of component under test
	if in.Mode == "pipeline" {
		kindOf = "filter"
	}
	uni, low := tokenizers["unicode"], filters["to_lower"]
	if in.Mode == "pipeline" && (uni == nil || low == nil) {
		return vh.Result{Skip: true}
	}
	call := func(w []byte) analysis.TokenStream {
		switch in.Mode {
		case "analyzer":
			return c.an.Analyze(w)
		case "pipeline": // the filter behind the unicode tokenizer and to_lower, as in a language analyzer
			return c.filt.Filter(low.filt.Filter(uni.tok.Tokenize(w)))
		}
		return c.filt.Filter(analysis.TokenStream{&analysis.Token{Term: w, Start: 0, End: len(w), Position: 1, Type: analysis.AlphaNumeric}})
	}
	t0 := time.Now()
	if os.Getenv("C19_DEBUG") != "" {
		defer func() {
			fmt.Fprintf(os.Stderr, "ENUMTIME %s %s %s %d %.3f\n", in.Mode, in.Part, in.Comp, in.Count, time.Since(t0).Seconds())
		}()
	}
	shapes := map[string]*shape{}
	var order []string
	type failure struct{ word, msg string }
	var fails []failure
	nfail := 0
	var cur atomic.Value // the word in progress (for the hang report)
	var nwords int64
	done := make(chan struct{})
	go func() {
		defer close(done)
		key := make([]byte, 0, 256)
		from := int64(0)
		for {
			next := int64(-1)
			func() {
				var at int64
				var word []byte
				defer func() {
					if e := recover(); e != nil {
						nfail++
						if len(fails) < 3 {
							fails = append(fails, failure{string(word), fmt.Sprint(e) + " at " + firstFrame(debug.Stack())})
						}
						next = at + 1
					}
				}()
				nwords = forWords(in, from, func(k int64, w []byte) {
					at = k
					word = append(word[:0], w...)
					if k&1023 == 0 {
						cur.Store(string(w))
					}
					own := append(make([]byte, 0, len(w)), w...) // components may rewrite the term in place
					ts := call(own)
					key = append(key[:0], byte(len(w)), byte(len(w)>>8), byte(len(ts)))
					for _, t := range ts {
						key = append(key, byte(t.Start), byte(t.Start>>8), byte(t.End), byte(t.End>>8), byte(t.Position), byte(t.Position>>8), byte(t.Position>>16))
					}
					if _, ok := shapes[string(key)]; !ok {
						sh := &shape{n: len(w)}
						for _, t := range ts {
							sh.o3 = append(sh.o3, [3]int{t.Start, t.End, t.Position})
						}
						shapes[string(key)] = sh
						order = append(order, string(key))
					}
				})
			}()
			if next < 0 {
				return
			}
			from = next
		}
	}()
	what := fmt.Sprintf("%s %s over %s words (alphabet %q, %d literals, off %d stride %d count %d)", in.Mode, in.Comp, in.Part, in.Alpha, len(in.Lits), in.Off, in.Stride, in.Count)
	select {
	case <-done:
	case <-time.After(enumWatchdog):
		w, _ := cur.Load().(string)
		return vh.Result{Direct: &vh.Direct{Kind: "timeout", Detail: fmt.Sprintf("%s: no result within %v; last word seen %q", what, enumWatchdog, w)}, Class: kindOf + "-timeout:" + c.base}
	}
	h := []string{"enum:" + in.Mode + ":" + in.Part, kindOf + ":" + c.base, fmt.Sprintf("enum-words:10^%d", digits(nwords))}
	items := make([]cf.T, 0, len(order))
	for _, k := range order {
		sh := shapes[k]
		items = append(items, cf.App("CI", cf.Int(sh.n), cf.ListOf(sh.o3, func(o [3]int) cf.T { return cf.App("O3", cf.Int(o[0]), cf.Int(o[1]), cf.Int(o[2])) })))
	}
	res := vh.Result{Term: cf.App("CContractMany", cf.T(kind), cf.List(items)), Nontrivial: len(order) > 0,
		Key: fmt.Sprintf("enum:%s:%s:%s:%d:%d:%d:%d", in.Mode, in.Comp, in.Part, in.Off, in.Stride, in.Count, in.PSeed), Hist: h}
	if nfail > 0 {
		var sb strings.Builder
		fmt.Fprintf(&sb, "%s: %d word(s) panic; ", what, nfail)
		for _, fl := range fails {
			fmt.Fprintf(&sb, "%q: %s; ", fl.word, fl.msg)
		}
		res.Direct = &vh.Direct{Kind: "panic", Detail: sb.String()}
		res.Class = kindOf + "-panic:" + c.base
	}
	return res
}

func digits(n int64) int {
	d := 0
	for n >= 10 {
		n /= 10
		d++
	}
	return d
}

// the first frame of a panic's stack that lies in the library under test
func firstFrame(stack []byte) string {
	lines := strings.Split(string(stack), "\n")
	for i, l := range lines {
		l = strings.TrimSpace(l)
		if strings.HasPrefix(l, "/") && !strings.Contains(l, "/runtime/") && !strings.Contains(l, "/harness/") && i > 0 {
			if j := strings.LastIndex(l, " +0x"); j > 0 {
				l = l[:j]
			}
			return l
		}
	}
	return "?"
}

// dumpSrc prints what was read off the source per component (C19_SRCDUMP=1)
func dumpSrc() {
	setup()
	for _, ec := range enumComps() {
		ws := ec.c.src
		if ws == nil {
			fmt.Printf("%-9s %-28s no source facts\n", ec.mode, ec.name)
			continue
		}
		es := enumSpace(ws.alpha, enumMaxLen)
		fmt.Printf("%-9s %-28s alpha=%-3d lits=%-4d short=%-3d words=%-5d b1=%-8d b2=%-9d b3=%-9d enum=%-10d files=%v\n", ec.mode, ec.name,
			len(ws.alpha), len(ws.lits), len(shortLits(ws.lits)), len(ws.words), boundarySpace("b1", ws.alpha, ws.lits).n,
			boundarySpace("b2", ws.alpha, ws.lits).n, boundarySpace("b3", ws.alpha, ws.lits).n, es.n, ws.files)
		if os.Getenv("C19_SRCDUMP") == "2" {
			fmt.Printf("    alpha %q\n    lits %q\n", strings.Join(ws.alpha, ""), ws.lits)
		}
	}
}
