//go:build race

package core

const raceEnabled = true
