// C19 correspondence harness (see core/): analysis components and highlighting against the Coq
// contract checkers and models.
package main

import "verifharness/cmd/c19/core"

func main() { core.Main() }
